#!/usr/bin/env python3
"""Regenerate oracles/reference_shape.json (names of constants, functions, class attributes and conditional expressions of
today's tree) and oracles/local_names.json from the tree under $VERIF_REPO (default /repo).  Run after reviewing that the
checks pass on that tree; both files are addressing aids for cfsa/unrefactor.py and cfsa/alpha.py, not oracles."""
import ast
import json
import os
import sys
HERE = os.path.dirname(os.path.dirname(os.path.abspath(__file__)))
sys.path.insert(0, HERE)
os.environ['VERIF_NO_UNREFACTOR'] = '1'
os.environ['VERIF_NO_ALPHA'] = '1'
from cfsa.alpha import binding_order, functions   # noqa: E402
from cfsa.model import Model                      # noqa: E402
from cfsa.unrefactor import shape_of              # noqa: E402
from cfsa.recognise import stmt_shapes            # noqa: E402
m = Model()
shape, names, stmts = {}, {}, {}
for p in m.all_paths():
    tree = ast.parse(m.source(p))
    shape[p] = shape_of(tree)
    d = {q: binding_order(fn) for q, fn in functions(tree)}
    names[p] = {q: b for q, b in d.items()}
    stmts[p] = {q: stmt_shapes(fn) for q, fn in functions(tree)}
with open(os.path.join(HERE, 'oracles', 'reference_shape.json'), 'w') as f:
    json.dump(shape, f, indent=0, sort_keys=True)
    f.write('\n')
with open(os.path.join(HERE, 'oracles', 'local_names.json'), 'w') as f:
    json.dump(names, f, indent=0, sort_keys=True)
    f.write('\n')
with open(os.path.join(HERE, 'oracles', 'reference_stmts.json'), 'w') as f:
    json.dump(stmts, f, indent=0, sort_keys=True)
    f.write('\n')
print(len(shape), 'modules,', sum(len(v['funcs']) for v in shape.values()), 'functions')
