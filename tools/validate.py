#!/usr/bin/env python3
"""python3-vt tools/validate.py : validate MANIFEST.json and evidence/*.json against the schemas."""
import glob
import json
import sys
import jsonschema
ok = True
ms = json.load(open('/root/.vp/MANIFEST.schema.json'))
es = json.load(open('/root/.vp/EVIDENCE.schema.json'))
try:
    jsonschema.validate(json.load(open('/verif/MANIFEST.json')), ms)
    print('MANIFEST ok')
except Exception as e:
    ok = False
    print('MANIFEST INVALID', e)
for p in sorted(glob.glob('/verif/evidence/*.json')):
    try:
        jsonschema.validate(json.load(open(p)), es)
        print(p, 'ok')
    except Exception as e:
        ok = False
        print(p, 'INVALID', str(e)[:300])
sys.exit(0 if ok else 1)
