#!/usr/bin/env python3
"""Keep evaluated candidate changes as /verif/seeded/<PROP>-<n>/.

  /venv/bin/python tools/seed_keep.py /tmp/seed2 --round 2 --offset 3

Reads <dir>/<PROP>/eval.jsonl (written by tools/seed_eval.py) and copies every *valid* candidate (demo
passes on the pristine tree, fails with the patch, 187 tests still pass) to seeded/<PROP>-<offset+k>/
as patch.diff, demo.py, notes.md, meta.json.  meta.json records the first-run verdict of the property's
own check; ``detected_by_check``/``detecting_rules`` are filled in later by tools/seed_status.py.
"""
import argparse
import json
import os
import shutil

VERIF = os.path.dirname(os.path.dirname(os.path.abspath(__file__)))


def main():
    ap = argparse.ArgumentParser()
    ap.add_argument('dir')
    ap.add_argument('--round', type=int, required=True)
    ap.add_argument('--offset', type=int, required=True)
    a = ap.parse_args()
    for prop in sorted(os.listdir(a.dir)):
        ev = os.path.join(a.dir, prop, 'eval.jsonl')
        if not os.path.isfile(ev):
            continue
        for line in open(ev):
            r = json.loads(line)
            k = int(r['k'])
            valid = r.get('demo_pristine') == 0 and r.get('demo_patched') not in (0, None) and '187 passed' in r.get('tests', '')
            if not valid:
                print('skip invalid', prop, k, r)
                continue
            name = '%s-%d' % (prop, a.offset + k)
            dst = os.path.join(VERIF, 'seeded', name)
            os.makedirs(dst, exist_ok=True)
            src = os.path.join(a.dir, prop)
            shutil.copy(os.path.join(src, 'patch%d.diff' % k), os.path.join(dst, 'patch.diff'))
            shutil.copy(os.path.join(src, 'demo%d.py' % k), os.path.join(dst, 'demo.py'))
            notes = os.path.join(src, 'notes%d.md' % k)
            what = ''
            if os.path.isfile(notes):
                shutil.copy(notes, os.path.join(dst, 'notes.md'))
                what = open(notes).readline().strip()
            rules = sorted({l.split()[0] for l in r.get('check_out', []) if l.startswith(prop + '.R')})
            meta = {
                'property': prop, 'name': name, 'round': a.round, 'what': what,
                'needs_to_manifest': 'see notes.md',
                'source': 'fresh sub-agent given only the property text and a scratch worktree of /repo (HEAD with the fix: commits)',
                'verified': {
                    'demo_on_pristine_exit': r['demo_pristine'], 'demo_with_patch_exit': r['demo_patched'],
                    'test_suite_with_patch': r['tests'],
                    'how': 'tools/seed_eval.py: scratch worktree under /tmp, git apply, PYTHONPATH=<worktree> demo, pytest test/, '
                           'check with VERIF_REPO=<worktree>; worktree removed afterwards',
                },
                'detected_at_first_run': r['check_exit'] == 1,
                'first_run_exit': r['check_exit'],
                'detected_by_check': r['check_exit'] == 1,
                'detecting_rules': rules if r['check_exit'] == 1 else [],
            }
            with open(os.path.join(dst, 'meta.json'), 'w') as f:
                json.dump(meta, f, indent=1)
                f.write('\n')
            print('kept', name, 'first-run exit', r['check_exit'])


if __name__ == '__main__':
    main()
