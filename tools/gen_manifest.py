#!/usr/bin/env python3
"""Generate /verif/MANIFEST.json from cfsa/checks/*.py (claimed) and the table below (not applicable).
Run:  /venv/bin/python tools/gen_manifest.py   (validate with python3-vt tools/validate.py)"""
import importlib
import json
import os
import sys

HERE = os.path.dirname(os.path.dirname(os.path.abspath(__file__)))
sys.path.insert(0, HERE)

ALL = ['C%02d' % i for i in range(1, 21)]
NOT_APPLICABLE = {
    'C09': 'numerical accuracy (1 mm / 1 mrad) of an iterative least-squares solve seeded by an analytic estimate: truth '
           'depends on conditioning/convergence per generated room; no dataflow, typestate or layout argument bounds it '
           '(DESIGN.md section 8)',
    'C15': 'every clause is a real-valued identity (inverse trigonometric maps, rigid-motion laws, equality of two projection '
           'pipelines) to float32 accuracy over a continuous domain; needs symbolic algebra or numerical exploration, both '
           'outside static analysis (DESIGN.md section 8)',
}
PENDING_REASON = 'check not built yet in this session (planned, DESIGN.md section 6); not claimed until it is'

BASELINE = 'cd /repo && /venv/bin/python -m pytest -ra -q -p no:cacheprovider --timeout=900 --continue-on-collection-errors'


def main():
    checks, na = [], []
    for pid in ALL:
        path = os.path.join(HERE, 'cfsa', 'checks', pid.lower() + '.py')
        if pid in NOT_APPLICABLE:
            na.append({'property_id': pid, 'reason': NOT_APPLICABLE[pid]})
            continue
        if not os.path.isfile(path):
            na.append({'property_id': pid, 'reason': PENDING_REASON})
            continue
        mod = importlib.import_module('cfsa.checks.' + pid.lower())
        checks.append({
            'property_id': pid,
            'quick_cmd': '/venv/bin/python -m cfsa.run %s --tier quick' % pid,
            'thorough_cmd': '/venv/bin/python -m cfsa.run %s --tier thorough' % pid,
            'evidence_file': '/verif/evidence/%s.json' % pid,
            'replay_cmd_template': '/venv/bin/python -m cfsa.run %s --replay {path}' % pid,
            'engine': 'cfsa',
            'level_claimed': {
                'category': 'other',
                'text': getattr(mod, 'LEVEL_TEXT', mod.EXPLANATION),
                'design_ref': 'DESIGN.md section 6, ' + pid,
            },
            'level_note': getattr(mod, 'LEVEL_NOTE', 'Decides the structural necessary conditions listed in the evidence '
                                  'explanation for all paths of the analysed functions; does not decide runtime values or timing. '
                                  'Trusted base: CPython ast parser, the cfsa engine, the rule tables in cfsa/checks/%s.py.' % pid.lower()),
            'technique': getattr(mod, 'TECHNIQUE', 'static analysis: AST rules + CFG dominators over /repo sources'),
        })
    man = {
        'version': 1,
        'setup_cmd': '/venv/bin/python -m compileall -q cfsa',
        'hooks': {
            'guard': 'CFLIB_VERIF',
            'enable': 'none needed: the checks read /repo sources, nothing is instrumented or executed',
            'baseline_off_cmd': BASELINE,
            'source_commits': [],
            'add_only': True,
        },
        'engines': [{
            'name': 'cfsa', 'path': '/verif/cfsa', 'serves_properties': [c['property_id'] for c in checks],
            'kind_free_text': 'repository-specific static analyser (stdlib ast): lazily parsed source model with in-memory overlays, '
                              'constant folding, statement CFGs with edge dominators/guard facts/path queries, struct-format and '
                              'bit-provenance domains, call graph and lock regions; rule modules per property',
        }],
        'checks': checks,
        'notes': 'Exit 0 ok / 1 VIOLATION / 2 ANALYSIS-ERROR (anchor or idiom not recognised: no verdict). '
                 'known_findings.json lists recorded and fixed defects. Static analysis only; see DESIGN.md.',
        'not_applicable': na,
    }
    with open(os.path.join(HERE, 'MANIFEST.json'), 'w') as f:
        json.dump(man, f, indent=1)
        f.write('\n')
    print('claimed:', [c['property_id'] for c in checks])
    print('n/a   :', [n['property_id'] for n in na])


if __name__ == '__main__':
    main()
