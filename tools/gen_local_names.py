#!/usr/bin/env python3
"""Regenerate oracles/local_names.json (reference local-variable names per function, in order of first binding)
from the tree under $VERIF_REPO (default /repo).  Run after reviewing that the checks pass on that tree."""
import ast
import json
import os
import sys
HERE = os.path.dirname(os.path.dirname(os.path.abspath(__file__)))
sys.path.insert(0, HERE)
from cfsa.alpha import binding_order, functions   # noqa: E402
from cfsa.model import Model                      # noqa: E402
m = Model()
out = {}
for p in m.all_paths():
    tree = ast.parse(m.source(p))
    d = {}
    for qual, fn in functions(tree):
        b = binding_order(fn)
        if b:
            d[qual] = b
    if d:
        out[p] = d
with open(os.path.join(HERE, 'oracles', 'local_names.json'), 'w') as f:
    json.dump(out, f, indent=0, sort_keys=True)
    f.write('\n')
print(sum(len(v) for v in out.values()), 'functions')
