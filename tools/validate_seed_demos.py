#!/usr/bin/env python3
"""Re-validate the demonstrations of the kept seeds on /repo's current HEAD: demo exits 0 on a pristine scratch worktree and
non-zero with the seed's patch applied.  Run after every `fix:` commit in /repo (a fix can make a demonstration's fake objects
stale, or remove the failure a seed produced).

  /venv/bin/python tools/validate_seed_demos.py [SEED-NAME ...]

Scratch worktrees are created under /tmp/wt and removed again.  Nothing in /repo or /verif is changed.
"""
import glob, json, os, subprocess, sys, tempfile, shutil
from concurrent.futures import ThreadPoolExecutor
REPO='/repo'
def one(d):
    name=os.path.basename(d)
    os.makedirs('/tmp/wt', exist_ok=True)
    wt=tempfile.mkdtemp(prefix='vs_', dir='/tmp/wt')
    os.rmdir(wt)
    subprocess.run(['git','-C',REPO,'worktree','add','-q','--detach',wt,'HEAD'],capture_output=True)
    try:
        env=dict(os.environ, PYTHONPATH=wt)
        demo=os.path.join(d,'demo.py')
        try:
            p0=subprocess.run(['/venv/bin/python',demo],cwd=wt,env=env,capture_output=True,timeout=180).returncode
        except subprocess.TimeoutExpired: p0='timeout'
        a=subprocess.run(['git','apply',os.path.join(d,'patch.diff')],cwd=wt,capture_output=True)
        if a.returncode!=0: return name,'noapply',None
        try:
            p1=subprocess.run(['/venv/bin/python',demo],cwd=wt,env=env,capture_output=True,timeout=180).returncode
        except subprocess.TimeoutExpired: p1='timeout'
        return name,p0,p1
    finally:
        subprocess.run(['git','-C',REPO,'worktree','remove','--force',wt],capture_output=True)
dirs=sorted(glob.glob('/verif/seeded/*'))
if len(sys.argv)>1: dirs=[d for d in dirs if os.path.basename(d) in sys.argv[1:]]
bad=0
with ThreadPoolExecutor(12) as ex:
    for name,p0,p1 in ex.map(one,dirs):
        if p0!=0 or p1 in (0,None):
            print('INVALID',name,p0,p1); bad+=1
print('checked',len(dirs),'invalid',bad)
