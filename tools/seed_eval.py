#!/usr/bin/env python3
"""Evaluate candidate seeded changes produced by sub-agents.

  /venv/bin/python tools/seed_eval.py /tmp/seed/C07 [k ...]

For each patch{k}.diff + demo{k}.py in the directory:
  1. demo on the pristine scratch worktree must pass;
  2. with the patch applied in a scratch worktree: demo must fail and the 187 tests must pass;
  3. the property's quick check is run against the patched worktree (VERIF_REPO=<worktree>): exit 1 = detected.
Prints one JSON line per candidate.  The scratch worktree is created under /tmp and removed afterwards.
"""
import json
import os
import subprocess
import sys
import tempfile

VERIF = os.path.dirname(os.path.dirname(os.path.abspath(__file__)))
PY = '/venv/bin/python'


def sh(cmd, cwd=None, env=None, timeout=600):
    e = dict(os.environ)
    e.update(env or {})
    p = subprocess.run(cmd, shell=True, cwd=cwd, env=e, stdout=subprocess.PIPE, stderr=subprocess.STDOUT, timeout=timeout)
    return p.returncode, p.stdout.decode(errors='replace')


def main():
    d = sys.argv[1].rstrip('/')
    prop = os.path.basename(d).split('-')[0]
    ks = sys.argv[2:] or sorted({f[5:-5] for f in os.listdir(d) if f.startswith('patch') and f.endswith('.diff')})
    wt = tempfile.mkdtemp(prefix='seedwt_')
    os.rmdir(wt)
    sh('git -C /repo worktree add -q %s HEAD' % wt)
    try:
        for k in ks:
            patch = os.path.join(d, 'patch%s.diff' % k)
            demo = os.path.join(d, 'demo%s.py' % k)
            res = {'dir': d, 'k': k, 'property': prop}
            sh('git -C %s checkout -q -- . && git -C %s clean -fdq' % (wt, wt))
            rc, out = sh('%s %s' % (PY, demo), cwd=wt, env={'PYTHONPATH': wt}, timeout=120)
            res['demo_pristine'] = rc
            rc, out = sh('git -C %s apply %s' % (wt, patch))
            res['applies'] = rc == 0
            if rc != 0:
                res['apply_error'] = out[-300:]
                print(json.dumps(res))
                continue
            try:
                rc, out = sh('%s %s' % (PY, demo), cwd=wt, env={'PYTHONPATH': wt}, timeout=120)
            except subprocess.TimeoutExpired:
                rc, out = 124, 'timeout'
            res['demo_patched'] = rc
            rc, out = sh('%s -m pytest -q -p no:cacheprovider test 2>&1 | tail -1' % PY, cwd=wt)
            res['tests'] = out.strip()[-60:]
            rc, out = sh('%s -m cfsa.run %s --tier quick' % (PY, prop), cwd=VERIF, env={'VERIF_REPO': wt, 'VERIF_NO_EVIDENCE': '1'})
            res['check_exit'] = rc
            res['check_out'] = [l[:300] for l in out.splitlines() if l.startswith(('C', 'ANALYSIS', 'VIOLATION'))][:4]
            print(json.dumps(res))
    finally:
        sh('git -C /repo worktree remove --force %s' % wt)


if __name__ == '__main__':
    main()
