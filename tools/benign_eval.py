#!/usr/bin/env python3
"""Evaluate behaviour-preserving refactorings produced by sub-agents.

  /venv/bin/python tools/benign_eval.py /tmp/ben1/C07 [k ...]

For each patch{k}.diff in the directory:
  1. applied in a scratch worktree: the 187 tests must pass and, if equiv{k}.py exists, it must pass with and without the patch;
  2. every claimed check is run against the patched worktree (VERIF_REPO=<worktree>, quick tier, no evidence written):
     exit 1 = the check raises an alarm on a refactoring (false alarm to triage), exit 2 = lost anchor / no verdict.
Prints one JSON line per candidate.  The scratch worktree is created under /tmp and removed afterwards.
"""
import json
import os
import subprocess
import sys
import tempfile

VERIF = os.path.dirname(os.path.dirname(os.path.abspath(__file__)))
PY = '/venv/bin/python'
PROPS = ['C%02d' % i for i in range(1, 21) if i not in (9, 15)]


def sh(cmd, cwd=None, env=None, timeout=900):
    e = dict(os.environ)
    e.update(env or {})
    p = subprocess.run(cmd, shell=True, cwd=cwd, env=e, stdout=subprocess.PIPE, stderr=subprocess.STDOUT, timeout=timeout)
    return p.returncode, p.stdout.decode(errors='replace')


def main():
    d = sys.argv[1].rstrip('/')
    prop = os.path.basename(d).split('-')[0]
    ks = sys.argv[2:] or sorted({f[5:-5] for f in os.listdir(d) if f.startswith('patch') and f.endswith('.diff')})
    wt = tempfile.mkdtemp(prefix='benwt_')
    os.rmdir(wt)
    sh('git -C /repo worktree add -q %s HEAD' % wt)
    try:
        for k in ks:
            patch = os.path.join(d, 'patch%s.diff' % k)
            equiv = os.path.join(d, 'equiv%s.py' % k)
            res = {'dir': d, 'k': k, 'property': prop}
            sh('git -C %s checkout -q -- . && git -C %s clean -fdq' % (wt, wt))
            if os.path.isfile(equiv):
                rc, out = sh('%s %s' % (PY, equiv), cwd=wt, env={'PYTHONPATH': wt}, timeout=180)
                res['equiv_pristine'] = rc
            rc, out = sh('git -C %s apply %s' % (wt, patch))
            res['applies'] = rc == 0
            if rc != 0:
                res['apply_error'] = out[-300:]
                print(json.dumps(res))
                continue
            if os.path.isfile(equiv):
                rc, out = sh('%s %s' % (PY, equiv), cwd=wt, env={'PYTHONPATH': wt}, timeout=180)
                res['equiv_patched'] = rc
            rc, out = sh('%s -m pytest -q -p no:cacheprovider test 2>&1 | tail -1' % PY, cwd=wt)
            res['tests'] = out.strip()[-60:]
            res['checks'] = {}
            for p in PROPS:
                rc, out = sh('%s -m cfsa.run %s --tier quick' % (PY, p), cwd=VERIF, env={'VERIF_REPO': wt, 'VERIF_NO_EVIDENCE': '1'})
                if rc != 0:
                    res['checks'][p] = {'exit': rc, 'out': [l[:400] for l in out.splitlines() if l.startswith(('C', 'ANALYSIS'))][:4]}
            res['own_exit'] = res['checks'].get(prop, {}).get('exit', 0)
            print(json.dumps(res))
            sys.stdout.flush()
    finally:
        sh('git -C /repo worktree remove --force %s' % wt)


if __name__ == '__main__':
    main()
