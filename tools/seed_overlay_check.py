#!/usr/bin/env python3
"""Run checks on the current tree + a unified diff applied in memory:  tools/seed_overlay_check.py patch.diff C03 C11 ..."""
import importlib
import os
import sys
HERE = os.path.dirname(os.path.dirname(os.path.abspath(__file__)))
sys.path.insert(0, HERE)
from cfsa.model import AnchorError, Model   # noqa: E402
from cfsa.patch import overlay_for          # noqa: E402
from cfsa.report import Ctx                 # noqa: E402
from cfsa.run import run_rules              # noqa: E402

diff = open(sys.argv[1]).read()
base = Model()
m = base.with_overlay(overlay_for(base, diff))
for prop in sys.argv[2:] or ['C%02d' % i for i in range(1, 21) if i not in (9, 15)]:
    mod = importlib.import_module('cfsa.checks.' + prop.lower())
    c0 = Ctx(prop, base)
    mod.check(c0)
    b = {i.ident() for i in c0.violations()}
    ctx = run_rules(mod, m, 'quick')
    bad = [i for i in ctx.violations() if i.ident() not in b]
    if bad:
        print(prop, 'VIOLATION', [(i.rule, i.function, i.key) for i in bad][:3])
    elif ctx.anchor_error:
        print(prop, 'ANALYSIS-ERROR', ctx.anchor_error[:150])
    else:
        print(prop, 'ok')
