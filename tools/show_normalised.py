#!/usr/bin/env python3
"""Print a function of the tree (+ optional diff applied in memory) as the rules see it after normalisation:
   tools/show_normalised.py <patch.diff|-> <path> <Class.func>"""
import ast
import sys, os
HERE = os.path.dirname(os.path.dirname(os.path.abspath(__file__)))
sys.path.insert(0, HERE)
from cfsa.model import Model
from cfsa.patch import overlay_for
m = Model()
if sys.argv[1] != '-':
    m = m.with_overlay(overlay_for(m, open(sys.argv[1]).read()))
mod = m.mod(sys.argv[2])
print('# unrefactored:', getattr(mod, 'unrefactored', None), 'renamed:', getattr(mod, 'renamed', None))
f = m.func(sys.argv[2], sys.argv[3])
print(ast.unparse(f.node))
