#!/usr/bin/env python3
"""Name resolution over the checker's own sources (the rule RG every-name-resolves, applied to /verif/cfsa and /verif/tools):
every global a function reads is bound at module level, declared global somewhere, or a builtin; and no function-level import
shadows a module-level name that the function reads before the import."""
import ast
import builtins
import glob
import os
import symtable
import sys

HERE = os.path.dirname(os.path.dirname(os.path.abspath(__file__)))
bad = 0
for path in sorted(glob.glob(os.path.join(HERE, 'cfsa', '**', '*.py'), recursive=True) + glob.glob(os.path.join(HERE, 'tools', '*.py'))):
    src = open(path, encoding='utf-8').read()
    top = symtable.symtable(src, path, 'exec')
    known = {s.get_name() for s in top.get_symbols() if s.is_assigned() or s.is_imported() or s.is_namespace()} | set(dir(builtins)) | {'__file__', '__name__', '__doc__'}

    def rec(t):
        global bad
        for ch in t.get_children():
            if str(ch.get_type()).lower().endswith('function'):
                for s in ch.get_symbols():
                    if s.is_referenced() and s.is_global() and s.get_name() not in known and not s.is_declared_global():
                        print('%s: %s reads unbound global %s (line %d)' % (os.path.relpath(path, HERE), ch.get_name(), s.get_name(), ch.get_lineno()))
                        bad += 1
            rec(ch)
    rec(top)
    # function-level import of a name that is also imported at module level: the name is local in the WHOLE function
    tree = ast.parse(src)
    mod_imports = {a.asname or a.name.split('.')[0] for n in tree.body if isinstance(n, (ast.Import, ast.ImportFrom)) for a in n.names}
    for fn in [n for n in ast.walk(tree) if isinstance(n, ast.FunctionDef)]:
        for st in ast.walk(fn):
            if isinstance(st, (ast.Import, ast.ImportFrom)):
                for a in st.names:
                    nm = a.asname or a.name.split('.')[0]
                    if nm in mod_imports:
                        early = [x for x in ast.walk(fn) if isinstance(x, ast.Name) and x.id == nm and x.lineno < st.lineno]
                        if early:
                            print('%s: %s reads %s at line %d before its function-level import at line %d' % (os.path.relpath(path, HERE), fn.name, nm, early[0].lineno, st.lineno))
                            bad += 1
sys.exit(1 if bad else 0)
