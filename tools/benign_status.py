#!/usr/bin/env python3
"""Replay behaviour-preserving refactorings (unified diffs) in memory against all checks.

  /venv/bin/python tools/benign_status.py /tmp/ben1            # <dir>/<PROP>/patch<k>.diff
  /venv/bin/python tools/benign_status.py --corpus             # /verif/benign/<PROP>/*.diff and /verif/benign/_pending/*.diff

A VIOLATION on such a tree is a false alarm of the checker; an ANALYSIS-ERROR means the refactoring moved an anchor out of
reach (no verdict).  Nothing on disk is touched."""
import concurrent.futures as cf
import glob
import importlib
import os
import sys

HERE = os.path.dirname(os.path.dirname(os.path.abspath(__file__)))
sys.path.insert(0, HERE)
from cfsa.model import Model                # noqa: E402
from cfsa.patch import overlay_for          # noqa: E402
from cfsa.report import Ctx                 # noqa: E402
from cfsa.run import check_floors, run_rules  # noqa: E402

PROPS = ['C%02d' % i for i in range(1, 21) if i not in (9, 15)]


def one(path):
    base = Model()
    try:
        m = base.with_overlay(overlay_for(base, open(path).read()))
    except Exception as e:
        return path, {'*': ('patch-error', str(e)[:100])}
    out = {}
    for prop in PROPS:
        mod = importlib.import_module('cfsa.checks.' + prop.lower())
        c0 = Ctx(prop, base)
        mod.check(c0)
        b = {i.ident() for i in c0.violations()}
        try:
            ctx = run_rules(mod, m, 'quick')
        except Exception as e:
            out[prop] = ('crash', '%s: %s' % (type(e).__name__, str(e)[:150]))
            continue
        bad = [i for i in ctx.violations() if i.ident() not in b]
        fl = check_floors(mod, ctx) if not ctx.anchor_error else []
        if bad:
            out[prop] = ('FALSE-ALARM', ['%s %s %s' % (i.rule, i.function, i.key) for i in bad][:4])
        elif ctx.anchor_error or fl:
            out[prop] = ('anchor', (ctx.anchor_error or fl[0])[:200])
    return path, out


def main():
    if sys.argv[1:] == ['--corpus']:
        files = sorted(glob.glob(os.path.join(HERE, 'benign', '*', '*.diff')))
    else:
        files = sorted(glob.glob(os.path.join(sys.argv[1], '*', 'patch*.diff')))
    with cf.ProcessPoolExecutor(int(os.environ.get('VERIF_JOBS', '16'))) as ex:
        res = list(ex.map(one, files))
    nfa = nan = 0
    for path, out in res:
        tag = '/'.join(path.split('/')[-2:])
        if not out:
            continue
        for prop, (st, info) in out.items():
            nfa += st == 'FALSE-ALARM'
            nan += st == 'anchor'
            print('%-22s %s %-12s %s' % (tag, prop, st, info))
    print('%d refactorings: %d false alarms, %d lost anchors, %d silent' % (len(res), nfa, nan, sum(1 for _, o in res if not o)))


if __name__ == '__main__':
    main()
