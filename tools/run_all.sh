#!/bin/sh
# run every claimed check in both tiers in parallel; prints only what is not OK. Scratch output in a private temp dir (removed).
cd "$(dirname "$0")/.."
T=$(mktemp -d)
for p in $(/venv/bin/python -c "import json;print(' '.join(c['property_id'] for c in json.load(open('MANIFEST.json'))['checks']))" 2>/dev/null || echo C01 C02 C03 C04 C05 C06 C07 C08 C10 C11 C12 C13 C14 C16 C17 C18 C19 C20); do
  ( /venv/bin/python -m cfsa.run $p --tier quick > $T/$p.q 2>&1; echo "exit=$?" >> $T/$p.q
    [ "$1" = quick ] || { /venv/bin/python -m cfsa.run $p --tier thorough > $T/$p.t 2>&1; echo "exit=$?" >> $T/$p.t; } ) &
done >/dev/null 2>&1
wait
bad=0
for f in $T/*; do
  if ! tail -n 1 $f | grep -q '^exit=0'; then bad=1; echo "== $(basename $f)"; tail -n 6 $f; fi
done
rm -rf $T
# the tooling's own invariants: every name in cfsa/ and tools/ resolves; no inverse refactoring fires on today's tree
/venv/bin/python tools/selflint.py > /dev/null 2>&1 || { bad=1; echo "== selflint"; /venv/bin/python tools/selflint.py 2>&1 | tail -n 6; }
/venv/bin/python tools/normaliser_identity.py > /dev/null 2>&1 || { bad=1; echo "== normaliser identity"; /venv/bin/python tools/normaliser_identity.py 2>&1 | tail -n 6; }
[ $bad = 0 ] && echo "all checks OK"
exit $bad
