#!/usr/bin/env python3
"""Replay every kept seeded change in memory against the current checks and (with --update) record the
outcome in its meta.json.

  /venv/bin/python tools/seed_status.py [--update] [--all-props] [NAME-PREFIX ...]

detected_by_check  = the property's own check reports a violation that the unchanged tree does not have
detecting_rules    = the rules of those violations
other_checks       = (with --all-props) other properties' checks that also report it
"""
import argparse
import concurrent.futures as cf
import importlib
import json
import os
import sys

HERE = os.path.dirname(os.path.dirname(os.path.abspath(__file__)))
sys.path.insert(0, HERE)
from cfsa.model import Model                # noqa: E402
from cfsa.patch import overlay_for          # noqa: E402
from cfsa.report import Ctx                 # noqa: E402
from cfsa.run import run_rules              # noqa: E402

PROPS = ['C%02d' % i for i in range(1, 21) if i not in (9, 15)]
_BASE = {}


def base_idents(prop, base):
    if prop not in _BASE:
        mod = importlib.import_module('cfsa.checks.' + prop.lower())
        c0 = Ctx(prop, base)
        mod.check(c0)
        _BASE[prop] = {i.ident() for i in c0.violations()}
    return _BASE[prop]


def one(args):
    name, props = args
    d = os.path.join(HERE, 'seeded', name)
    base = Model()
    try:
        m = base.with_overlay(overlay_for(base, open(os.path.join(d, 'patch.diff')).read()))
    except Exception as e:
        return name, {'error': 'patch does not apply: %s' % e}
    out = {}
    for prop in props:
        mod = importlib.import_module('cfsa.checks.' + prop.lower())
        b = base_idents(prop, base)
        try:
            ctx = run_rules(mod, m, 'quick')
        except Exception as e:
            out[prop] = ('crash', '%s: %s' % (type(e).__name__, e))
            continue
        bad = [i for i in ctx.violations() if i.ident() not in b]
        if bad:
            out[prop] = ('violation', sorted({i.rule for i in bad}))
        elif ctx.anchor_error:
            out[prop] = ('analysis-error', ctx.anchor_error[:200])
        else:
            out[prop] = ('ok', [])
    return name, out


def main():
    ap = argparse.ArgumentParser()
    ap.add_argument('prefix', nargs='*')
    ap.add_argument('--update', action='store_true')
    ap.add_argument('--all-props', action='store_true')
    a = ap.parse_args()
    names = sorted(n for n in os.listdir(os.path.join(HERE, 'seeded'))
                   if os.path.isfile(os.path.join(HERE, 'seeded', n, 'patch.diff')) and (not a.prefix or n.startswith(tuple(a.prefix))))
    jobs = [(n, PROPS if a.all_props else [n.split('-')[0]]) for n in names]
    with cf.ProcessPoolExecutor(int(os.environ.get('VERIF_JOBS', '16'))) as ex:
        results = list(ex.map(one, jobs))
    det = 0
    for name, out in results:
        own = name.split('-')[0]
        if 'error' in out:
            print(name, 'ERROR', out['error'])
            continue
        st, info = out[own]
        others = sorted(p for p, (s, _) in out.items() if p != own and s == 'violation')
        det += st == 'violation'
        print('%-7s %-14s %s %s' % (name, st, info if st != 'ok' else '', ('also: ' + ','.join(others)) if others else ''))
        if a.update:
            mp = os.path.join(HERE, 'seeded', name, 'meta.json')
            meta = json.load(open(mp))
            meta['detected_by_check'] = st == 'violation'
            meta['detecting_rules'] = info if st == 'violation' else []
            if a.all_props:
                meta['other_checks'] = others
            with open(mp, 'w') as f:
                json.dump(meta, f, indent=1)
                f.write('\n')
    print('detected by own check: %d / %d' % (det, len(results)))


if __name__ == '__main__':
    main()
