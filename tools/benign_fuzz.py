#!/usr/bin/env python3
"""Behaviour-preserving source transformations of the anchored files, used to measure (and remove)
false alarms of the checks.

  /venv/bin/python tools/benign_fuzz.py [PROP ...] [--kinds roundtrip,logging,rename,swap] [-v]

Every transformed tree is analysed in memory (overlay); a VIOLATION on such a tree is a false alarm of
the checker, an ANALYSIS-ERROR is a lost anchor (no verdict).  Nothing on disk is touched.
"""
import argparse
import ast
import copy
import importlib
import os
import sys

HERE = os.path.dirname(os.path.dirname(os.path.abspath(__file__)))
sys.path.insert(0, HERE)
from cfsa.model import AnchorError, Model      # noqa: E402
from cfsa.report import Ctx                    # noqa: E402
from cfsa.run import check_floors              # noqa: E402


def roundtrip(src):
    return ast.unparse(ast.parse(src)) + '\n'


class AddLogging(ast.NodeTransformer):
    """insert a harmless statement at the start of every function body and after every if/for/while/try"""

    def _stmt(self):
        return ast.parse("logger_dbg = None").body[0]

    def visit_FunctionDef(self, node):
        self.generic_visit(node)
        i = 1 if node.body and isinstance(node.body[0], ast.Expr) and isinstance(node.body[0].value, ast.Constant) else 0
        node.body.insert(i, ast.parse("import logging as _lg; _lg.getLogger(__name__).debug('enter')").body[0])
        node.body.insert(i + 1, ast.parse("_lg.getLogger(__name__).debug('enter')").body[0])
        return node


class RenameLocals(ast.NodeTransformer):
    """rename local variables (plain assigned names, loop/with/comprehension targets) of every function to <name>_v"""

    def visit_FunctionDef(self, node):
        params = {a.arg for a in node.args.posonlyargs + node.args.args + node.args.kwonlyargs}
        if node.args.vararg:
            params.add(node.args.vararg.arg)
        if node.args.kwarg:
            params.add(node.args.kwarg.arg)
        assigned, declared, nested_free = set(), set(), set()
        for n in ast.walk(node):
            if isinstance(n, (ast.Global, ast.Nonlocal)):
                declared.update(n.names)
            if isinstance(n, ast.Name) and isinstance(n.ctx, (ast.Store, ast.Del)):
                assigned.add(n.id)
            if isinstance(n, ast.ExceptHandler) and n.name:
                assigned.add(n.name)
            if isinstance(n, (ast.FunctionDef, ast.ClassDef)) and n is not node:
                declared.add(n.name)
            if isinstance(n, (ast.Import, ast.ImportFrom)):
                for a in n.names:
                    declared.add((a.asname or a.name).split('.')[0])
        locs = {x for x in assigned - params - declared if not x.startswith('__')}
        mapping = {x: x + '_v' for x in locs}

        class R(ast.NodeTransformer):
            def visit_Name(self, n):
                if n.id in mapping:
                    return ast.copy_location(ast.Name(id=mapping[n.id], ctx=n.ctx), n)
                return n

            def visit_ExceptHandler(self, n):
                if n.name in mapping:
                    n.name = mapping[n.name]
                self.generic_visit(n)
                return n

            def visit_FunctionDef(self, n):      # nested function: rename free uses of outer locals too
                self.generic_visit(n)
                return n

            def visit_keyword(self, n):
                self.generic_visit(n)
                return n
        new_body = [R().visit(s) for s in node.body]
        node.body = new_body
        return node


class SwapCompare(ast.NodeTransformer):
    """a == b -> b == a ; a != b -> b != a ; a < b -> b > a ... (single comparisons without side effects)"""
    FLIP = {ast.Eq: ast.Eq, ast.NotEq: ast.NotEq, ast.Lt: ast.Gt, ast.Gt: ast.Lt, ast.LtE: ast.GtE, ast.GtE: ast.LtE}

    def visit_Compare(self, node):
        self.generic_visit(node)
        if len(node.ops) == 1 and type(node.ops[0]) in self.FLIP and not any(isinstance(x, ast.Call) for x in ast.walk(node)):
            return ast.copy_location(ast.Compare(left=node.comparators[0], ops=[self.FLIP[type(node.ops[0])]()], comparators=[node.left]), node)
        return node


class AugToAssign(ast.NodeTransformer):
    """x += e -> x = x + e for plain local names with numeric-looking right hand sides (int constants)"""

    def visit_AugAssign(self, node):
        if isinstance(node.target, ast.Name) and isinstance(node.value, ast.Constant) and isinstance(node.value.value, int):
            return ast.copy_location(ast.Assign(targets=[ast.Name(id=node.target.id, ctx=ast.Store())],
                                                value=ast.BinOp(left=ast.Name(id=node.target.id, ctx=ast.Load()), op=node.op, right=node.value), lineno=node.lineno), node)
        return node


class InvertIf(ast.NodeTransformer):
    """if c: A else: B  ->  if not c: B else: A   (only plain if/else, not elif chains)"""

    def visit_If(self, node):
        self.generic_visit(node)
        if node.orelse and not (len(node.orelse) == 1 and isinstance(node.orelse[0], ast.If)):
            t = node.test.operand if isinstance(node.test, ast.UnaryOp) and isinstance(node.test.op, ast.Not) else ast.UnaryOp(op=ast.Not(), operand=node.test)
            return ast.copy_location(ast.If(test=t, body=node.orelse, orelse=node.body), node)
        return node


class NestIf(ast.NodeTransformer):
    """if a and b: X   (no else)  ->  if a: if b: X"""

    def visit_If(self, node):
        self.generic_visit(node)
        if not node.orelse and isinstance(node.test, ast.BoolOp) and isinstance(node.test.op, ast.And) and len(node.test.values) == 2:
            inner = ast.If(test=node.test.values[1], body=node.body, orelse=[])
            return ast.copy_location(ast.If(test=node.test.values[0], body=[ast.copy_location(inner, node)], orelse=[]), node)
        return node


class DeMorgan(ast.NodeTransformer):
    """a != b -> not a == b ;  not (a and b) -> not a or not b ;  a is not b -> not a is b"""

    def visit_Compare(self, node):
        self.generic_visit(node)
        if len(node.ops) == 1 and isinstance(node.ops[0], (ast.NotEq, ast.IsNot, ast.NotIn)):
            op = {ast.NotEq: ast.Eq, ast.IsNot: ast.Is, ast.NotIn: ast.In}[type(node.ops[0])]()
            return ast.copy_location(ast.UnaryOp(op=ast.Not(), operand=ast.Compare(left=node.left, ops=[op], comparators=node.comparators)), node)
        return node

    def visit_UnaryOp(self, node):
        self.generic_visit(node)
        if isinstance(node.op, ast.Not) and isinstance(node.operand, ast.BoolOp):
            op = ast.Or() if isinstance(node.operand.op, ast.And) else ast.And()
            return ast.copy_location(ast.BoolOp(op=op, values=[ast.UnaryOp(op=ast.Not(), operand=v) for v in node.operand.values]), node)
        return node


def from_imports(src):
    """`import struct` + struct.pack(..) -> `from struct import pack` + pack(..)  (for struct, binascii, copy, time when imported plainly and
    the bare names are free)"""
    tree = ast.parse(src)
    plain = {a.asname or a.name for st in tree.body if isinstance(st, ast.Import) for a in st.names}
    used = {}
    names = {n.id for n in ast.walk(tree) if isinstance(n, ast.Name)} | {n.name for n in ast.walk(tree) if isinstance(n, (ast.FunctionDef, ast.ClassDef))} | \
        {a.arg for n in ast.walk(tree) if isinstance(n, ast.arguments) for a in n.args + n.kwonlyargs} | {n.attr for n in ast.walk(tree) if isinstance(n, ast.Attribute) and False}
    for n in ast.walk(tree):
        if isinstance(n, ast.Attribute) and isinstance(n.value, ast.Name) and n.value.id in ('struct', 'binascii', 'copy') and n.value.id in plain and n.attr not in names:
            used.setdefault(n.value.id, set()).add(n.attr)

    class T(ast.NodeTransformer):
        def visit_Attribute(self, n):
            self.generic_visit(n)
            if isinstance(n.value, ast.Name) and n.value.id in used and n.attr in used[n.value.id] and isinstance(n.ctx, ast.Load):
                return ast.copy_location(ast.Name(id=n.attr, ctx=ast.Load()), n)
            return n
    tree = T().visit(tree)
    new_imports = [ast.ImportFrom(module=m, names=[ast.alias(name=a) for a in sorted(v)], level=0) for m, v in sorted(used.items())]
    idx = next((i for i, st in enumerate(tree.body) if isinstance(st, (ast.Import, ast.ImportFrom))), 0)
    tree.body[idx:idx] = new_imports
    return ast.unparse(ast.fix_missing_locations(tree)) + '\n'


class ToFString(ast.NodeTransformer):
    """'..%s..' % x  and  '..{}..'.format(x)  ->  f-string (plain placeholders only, outside logging calls)"""

    def visit_Call(self, node):
        f = node.func
        if isinstance(f, ast.Attribute) and isinstance(f.value, ast.Name) and f.value.id in ('logger', 'logging'):
            return node                                   # lazy %-formatting of the logging module is not string building
        self.generic_visit(node)
        return self._conv(node)

    def visit_BinOp(self, node):
        self.generic_visit(node)
        return self._conv(node)

    def _conv(self, node):
        from cfsa.unrefactor import _fmt_parts
        fp = _fmt_parts(node)
        if not fp or fp[0] == 'fstr':
            return node
        import re
        vals, pos, k = [], 0, 0
        for mt in re.finditer(r'\{\{|\}\}|\{((?:![sra])?)((?::[^{}]*)?)\}', fp[1]):
            if mt.start() > pos:
                vals.append(ast.Constant(value=fp[1][pos:mt.start()]))
            pos = mt.end()
            if mt.group(0) in ('{{', '}}'):
                vals.append(ast.Constant(value=mt.group(0)[0]))
                continue
            if isinstance(fp[2][k], (ast.Constant,)) and isinstance(fp[2][k].value, str) and ("'" in fp[2][k].value or '"' in fp[2][k].value):
                return node
            spec = mt.group(2)[1:]
            vals.append(ast.FormattedValue(value=fp[2][k], conversion={'': -1, '!s': 115, '!r': 114, '!a': 97}[mt.group(1)],
                                           format_spec=ast.JoinedStr(values=[ast.Constant(value=spec)]) if spec else None))
            k += 1
        if pos < len(fp[1]):
            vals.append(ast.Constant(value=fp[1][pos:]))
        return ast.copy_location(ast.JoinedStr(values=vals), node)


class InTuple(ast.NodeTransformer):
    """a == x or a == y  ->  a in (x, y)   (same left operand, constant / dotted right operands)"""

    def visit_BoolOp(self, node):
        self.generic_visit(node)
        if isinstance(node.op, ast.Or) and all(isinstance(v, ast.Compare) and len(v.ops) == 1 and isinstance(v.ops[0], ast.Eq) and
                                              isinstance(v.comparators[0], (ast.Constant, ast.Attribute, ast.Name)) for v in node.values):
            lefts = {ast.unparse(v.left) for v in node.values}
            if len(lefts) == 1 and not any(isinstance(x, ast.Call) for x in ast.walk(node.values[0].left)):
                return ast.copy_location(ast.Compare(left=node.values[0].left, ops=[ast.In()],
                                                     comparators=[ast.Tuple(elts=[v.comparators[0] for v in node.values], ctx=ast.Load())]), node)
        return node


class MakeStatic(ast.NodeTransformer):
    """private methods that never mention self (and are not overridden / used via super in the module) become @staticmethod"""

    def visit_Module(self, node):
        names = {}
        for c in ast.walk(node):
            if isinstance(c, ast.ClassDef):
                for st in c.body:
                    if isinstance(st, ast.FunctionDef):
                        names[st.name] = names.get(st.name, 0) + 1
        self.unique = {n for n, k in names.items() if k == 1}
        self.generic_visit(node)
        return node

    def visit_ClassDef(self, node):
        for st in node.body:
            if isinstance(st, ast.FunctionDef) and st.name.startswith('_') and not st.name.startswith('__') and st.name in self.unique and not st.decorator_list \
                    and st.args.args and st.args.args[0].arg == 'self' and not any(isinstance(n, ast.Name) and n.id in ('self', 'super') for x in st.body for n in ast.walk(x)):
                st.args.args.pop(0)
                st.decorator_list = [ast.Name(id='staticmethod', ctx=ast.Load())]
        return node


class ExplainTests(ast.NodeTransformer):
    """if <comparison>:  ->  cond_k = <comparison>; if cond_k:   (plain `if`, not elif, not in class bodies)"""

    def __init__(self):
        self.k = 0

    def _block(self, stmts):
        out = []
        for st in stmts:
            st = self.visit(st)
            if isinstance(st, ast.If) and isinstance(st.test, (ast.Compare, ast.BoolOp)) and not any(isinstance(n, (ast.NamedExpr, ast.Await, ast.Yield)) for n in ast.walk(st.test)):
                self.k += 1
                nm = 'cond_%d' % self.k
                out.append(ast.copy_location(ast.Assign(targets=[ast.Name(id=nm, ctx=ast.Store())], value=st.test, lineno=st.lineno), st))
                st.test = ast.copy_location(ast.Name(id=nm, ctx=ast.Load()), st.test)
            out.append(st)
        return out

    def visit_FunctionDef(self, node):
        self._in(node)
        return node

    def _in(self, node):
        for f in ('body', 'orelse', 'finalbody'):
            b = getattr(node, f, None)
            if isinstance(b, list) and b and isinstance(b[0], ast.stmt):
                if f == 'orelse' and isinstance(node, ast.If) and len(b) == 1 and isinstance(b[0], ast.If):
                    self._in(b[0])                         # elif: leave the test in place
                    continue
                setattr(node, f, self._block(b))
        for h in getattr(node, 'handlers', []) or []:
            h.body = self._block(h.body)

    def visit_If(self, node):
        self._in(node)
        return node

    visit_For = visit_While = visit_With = visit_Try = visit_If

    def visit_ClassDef(self, node):
        for st in node.body:
            if isinstance(st, ast.FunctionDef):
                self.visit(st)
        return node


class TupleBind(ast.NodeTransformer):
    """a = c1; b = c2 (adjacent, distinct local names, constant values)  ->  a, b = c1, c2"""

    def _block(self, stmts):
        out, i = [], 0
        while i < len(stmts):
            a = stmts[i]
            b = stmts[i + 1] if i + 1 < len(stmts) else None

            def simple(x):
                return isinstance(x, ast.Assign) and len(x.targets) == 1 and isinstance(x.targets[0], ast.Name) and isinstance(x.value, ast.Constant)
            if simple(a) and simple(b) and a.targets[0].id != b.targets[0].id:
                out.append(ast.copy_location(ast.Assign(targets=[ast.Tuple(elts=[a.targets[0], b.targets[0]], ctx=ast.Store())],
                                                        value=ast.Tuple(elts=[a.value, b.value], ctx=ast.Load()), lineno=a.lineno), a))
                i += 2
                continue
            out.append(a)
            i += 1
        return out

    def visit_FunctionDef(self, node):
        self.generic_visit(node)
        for n in ast.walk(node):
            for f in ('body', 'orelse', 'finalbody'):
                b = getattr(n, f, None)
                if isinstance(b, list) and b and isinstance(b[0], ast.stmt) and not isinstance(n, ast.ClassDef):
                    setattr(n, f, self._block(b))
        return node


class NameConstants(ast.NodeTransformer):
    """integer literals >= 10 inside function bodies get module-level names (_K_<value>) defined right after the imports"""

    def __init__(self):
        self.used = {}
        self.depth = 0

    def visit_FunctionDef(self, node):
        self.depth += 1
        node.body = [self.visit(x) for x in node.body]
        self.depth -= 1
        return node

    def visit_Constant(self, node):
        if self.depth and isinstance(node.value, int) and not isinstance(node.value, bool) and node.value >= 10:
            self.used[node.value] = '_K_%d' % node.value
            return ast.copy_location(ast.Name(id=self.used[node.value], ctx=ast.Load()), node)
        return node

    def visit_JoinedStr(self, node):
        return node

    def finish(self, tree):
        i = 0
        while i < len(tree.body) and (isinstance(tree.body[i], (ast.Import, ast.ImportFrom)) or
                                      (isinstance(tree.body[i], ast.Expr) and isinstance(tree.body[i].value, ast.Constant)) or
                                      isinstance(tree.body[i], ast.Try) or
                                      (isinstance(tree.body[i], ast.Assign) and ast.unparse(tree.body[i].targets[0]) in ('__author__', '__all__', 'logger'))):
            i += 1
        tree.body[i:i] = [ast.Assign(targets=[ast.Name(id=nm, ctx=ast.Store())], value=ast.Constant(value=v), lineno=1) for v, nm in sorted(self.used.items())]
        return tree


def transform(src, kind):
    if kind == 'fromimport':
        return from_imports(src)
    if kind == 'roundtrip':
        return roundtrip(src)
    tree = ast.parse(src)
    t = {'logging': AddLogging, 'rename': RenameLocals, 'swap': SwapCompare, 'aug': AugToAssign, 'invert': InvertIf, 'nest': NestIf, 'demorgan': DeMorgan,
         'fstring': ToFString, 'intuple': InTuple, 'static': MakeStatic, 'explain': ExplainTests, 'tuplebind': TupleBind, 'constname': NameConstants}[kind]()
    tree = t.visit(copy.deepcopy(tree))
    if kind == 'constname':
        tree = t.finish(tree)
    tree = ast.fix_missing_locations(tree)
    return ast.unparse(tree) + '\n'


def run(prop, kind, verbose):
    mod = importlib.import_module('cfsa.checks.' + prop.lower())
    base = Model()
    ctx0 = Ctx(prop, base)
    mod.check(ctx0)
    base_bad = {i.ident() for i in ctx0.violations()}
    files = sorted(set(base.consulted))
    res = []
    for path in files:
        try:
            new = transform(base.source(path), kind)
            ast.parse(new)
        except Exception as e:
            res.append((path, 'skip', str(e)[:60]))
            continue
        m = base.with_overlay({path: new})
        try:
            ctx = Ctx(prop, m)
            mod.check(ctx)
            bad = [i for i in ctx.violations() if i.ident() not in base_bad]
            fl = check_floors(mod, ctx)
            if bad:
                res.append((path, 'FALSE-ALARM', ['%s %s %s' % (i.rule, i.function, i.key) for i in bad][:6]))
            elif fl:
                res.append((path, 'anchor', fl[:2]))
            else:
                res.append((path, 'ok', ''))
        except AnchorError as e:
            res.append((path, 'anchor', str(e)[:160]))
        except Exception as e:
            res.append((path, 'CRASH', '%s: %s' % (type(e).__name__, str(e)[:120])))
    return res


def main():
    ap = argparse.ArgumentParser()
    ap.add_argument('props', nargs='*')
    ap.add_argument('--kinds', default='roundtrip,logging,swap,aug,rename')
    ap.add_argument('-v', action='store_true')
    a = ap.parse_args()
    props = a.props or ['C%02d' % i for i in range(1, 21) if i not in (9, 15)]
    total = {}
    for prop in props:
        for kind in a.kinds.split(','):
            res = run(prop, kind, a.v)
            cnt = {}
            for _, st, _ in res:
                cnt[st] = cnt.get(st, 0) + 1
            print('%s %-9s %s' % (prop, kind, cnt))
            for path, st, info in res:
                if st not in ('ok',) and (a.v or st in ('FALSE-ALARM', 'CRASH')):
                    print('     %-12s %s %s' % (st, path, info))
            for k, v in cnt.items():
                total[k] = total.get(k, 0) + v
    print('TOTAL', total)


if __name__ == '__main__':
    main()
