#!/usr/bin/env python3
"""Behaviour-preserving source transformations of the anchored files, used to measure (and remove)
false alarms of the checks.

  /venv/bin/python tools/benign_fuzz.py [PROP ...] [--kinds roundtrip,logging,rename,swap] [-v]

Every transformed tree is analysed in memory (overlay); a VIOLATION on such a tree is a false alarm of
the checker, an ANALYSIS-ERROR is a lost anchor (no verdict).  Nothing on disk is touched.
"""
import argparse
import ast
import copy
import importlib
import os
import sys

HERE = os.path.dirname(os.path.dirname(os.path.abspath(__file__)))
sys.path.insert(0, HERE)
from cfsa.model import AnchorError, Model      # noqa: E402
from cfsa.report import Ctx                    # noqa: E402
from cfsa.run import check_floors              # noqa: E402


def roundtrip(src):
    return ast.unparse(ast.parse(src)) + '\n'


class AddLogging(ast.NodeTransformer):
    """insert a harmless statement at the start of every function body and after every if/for/while/try"""

    def _stmt(self):
        return ast.parse("logger_dbg = None").body[0]

    def visit_FunctionDef(self, node):
        self.generic_visit(node)
        i = 1 if node.body and isinstance(node.body[0], ast.Expr) and isinstance(node.body[0].value, ast.Constant) else 0
        node.body.insert(i, ast.parse("import logging as _lg; _lg.getLogger(__name__).debug('enter')").body[0])
        node.body.insert(i + 1, ast.parse("_lg.getLogger(__name__).debug('enter')").body[0])
        return node


class RenameLocals(ast.NodeTransformer):
    """rename local variables (plain assigned names, loop/with/comprehension targets) of every function to <name>_v"""

    def visit_FunctionDef(self, node):
        params = {a.arg for a in node.args.posonlyargs + node.args.args + node.args.kwonlyargs}
        if node.args.vararg:
            params.add(node.args.vararg.arg)
        if node.args.kwarg:
            params.add(node.args.kwarg.arg)
        assigned, declared, nested_free = set(), set(), set()
        for n in ast.walk(node):
            if isinstance(n, (ast.Global, ast.Nonlocal)):
                declared.update(n.names)
            if isinstance(n, ast.Name) and isinstance(n.ctx, (ast.Store, ast.Del)):
                assigned.add(n.id)
            if isinstance(n, ast.ExceptHandler) and n.name:
                assigned.add(n.name)
            if isinstance(n, (ast.FunctionDef, ast.ClassDef)) and n is not node:
                declared.add(n.name)
            if isinstance(n, (ast.Import, ast.ImportFrom)):
                for a in n.names:
                    declared.add((a.asname or a.name).split('.')[0])
        locs = {x for x in assigned - params - declared if not x.startswith('__')}
        mapping = {x: x + '_v' for x in locs}

        class R(ast.NodeTransformer):
            def visit_Name(self, n):
                if n.id in mapping:
                    return ast.copy_location(ast.Name(id=mapping[n.id], ctx=n.ctx), n)
                return n

            def visit_ExceptHandler(self, n):
                if n.name in mapping:
                    n.name = mapping[n.name]
                self.generic_visit(n)
                return n

            def visit_FunctionDef(self, n):      # nested function: rename free uses of outer locals too
                self.generic_visit(n)
                return n

            def visit_keyword(self, n):
                self.generic_visit(n)
                return n
        new_body = [R().visit(s) for s in node.body]
        node.body = new_body
        return node


class SwapCompare(ast.NodeTransformer):
    """a == b -> b == a ; a != b -> b != a ; a < b -> b > a ... (single comparisons without side effects)"""
    FLIP = {ast.Eq: ast.Eq, ast.NotEq: ast.NotEq, ast.Lt: ast.Gt, ast.Gt: ast.Lt, ast.LtE: ast.GtE, ast.GtE: ast.LtE}

    def visit_Compare(self, node):
        self.generic_visit(node)
        if len(node.ops) == 1 and type(node.ops[0]) in self.FLIP and not any(isinstance(x, ast.Call) for x in ast.walk(node)):
            return ast.copy_location(ast.Compare(left=node.comparators[0], ops=[self.FLIP[type(node.ops[0])]()], comparators=[node.left]), node)
        return node


class AugToAssign(ast.NodeTransformer):
    """x += e -> x = x + e for plain local names with numeric-looking right hand sides (int constants)"""

    def visit_AugAssign(self, node):
        if isinstance(node.target, ast.Name) and isinstance(node.value, ast.Constant) and isinstance(node.value.value, int):
            return ast.copy_location(ast.Assign(targets=[ast.Name(id=node.target.id, ctx=ast.Store())],
                                                value=ast.BinOp(left=ast.Name(id=node.target.id, ctx=ast.Load()), op=node.op, right=node.value), lineno=node.lineno), node)
        return node


class InvertIf(ast.NodeTransformer):
    """if c: A else: B  ->  if not c: B else: A   (only plain if/else, not elif chains)"""

    def visit_If(self, node):
        self.generic_visit(node)
        if node.orelse and not (len(node.orelse) == 1 and isinstance(node.orelse[0], ast.If)):
            t = node.test.operand if isinstance(node.test, ast.UnaryOp) and isinstance(node.test.op, ast.Not) else ast.UnaryOp(op=ast.Not(), operand=node.test)
            return ast.copy_location(ast.If(test=t, body=node.orelse, orelse=node.body), node)
        return node


class NestIf(ast.NodeTransformer):
    """if a and b: X   (no else)  ->  if a: if b: X"""

    def visit_If(self, node):
        self.generic_visit(node)
        if not node.orelse and isinstance(node.test, ast.BoolOp) and isinstance(node.test.op, ast.And) and len(node.test.values) == 2:
            inner = ast.If(test=node.test.values[1], body=node.body, orelse=[])
            return ast.copy_location(ast.If(test=node.test.values[0], body=[ast.copy_location(inner, node)], orelse=[]), node)
        return node


class DeMorgan(ast.NodeTransformer):
    """a != b -> not a == b ;  not (a and b) -> not a or not b ;  a is not b -> not a is b"""

    def visit_Compare(self, node):
        self.generic_visit(node)
        if len(node.ops) == 1 and isinstance(node.ops[0], (ast.NotEq, ast.IsNot, ast.NotIn)):
            op = {ast.NotEq: ast.Eq, ast.IsNot: ast.Is, ast.NotIn: ast.In}[type(node.ops[0])]()
            return ast.copy_location(ast.UnaryOp(op=ast.Not(), operand=ast.Compare(left=node.left, ops=[op], comparators=node.comparators)), node)
        return node

    def visit_UnaryOp(self, node):
        self.generic_visit(node)
        if isinstance(node.op, ast.Not) and isinstance(node.operand, ast.BoolOp):
            op = ast.Or() if isinstance(node.operand.op, ast.And) else ast.And()
            return ast.copy_location(ast.BoolOp(op=op, values=[ast.UnaryOp(op=ast.Not(), operand=v) for v in node.operand.values]), node)
        return node


def from_imports(src):
    """`import struct` + struct.pack(..) -> `from struct import pack` + pack(..)  (for struct, binascii, copy, time when imported plainly and
    the bare names are free)"""
    tree = ast.parse(src)
    plain = {a.asname or a.name for st in tree.body if isinstance(st, ast.Import) for a in st.names}
    used = {}
    names = {n.id for n in ast.walk(tree) if isinstance(n, ast.Name)} | {n.name for n in ast.walk(tree) if isinstance(n, (ast.FunctionDef, ast.ClassDef))} | \
        {a.arg for n in ast.walk(tree) if isinstance(n, ast.arguments) for a in n.args + n.kwonlyargs} | {n.attr for n in ast.walk(tree) if isinstance(n, ast.Attribute) and False}
    for n in ast.walk(tree):
        if isinstance(n, ast.Attribute) and isinstance(n.value, ast.Name) and n.value.id in ('struct', 'binascii', 'copy') and n.value.id in plain and n.attr not in names:
            used.setdefault(n.value.id, set()).add(n.attr)

    class T(ast.NodeTransformer):
        def visit_Attribute(self, n):
            self.generic_visit(n)
            if isinstance(n.value, ast.Name) and n.value.id in used and n.attr in used[n.value.id] and isinstance(n.ctx, ast.Load):
                return ast.copy_location(ast.Name(id=n.attr, ctx=ast.Load()), n)
            return n
    tree = T().visit(tree)
    new_imports = [ast.ImportFrom(module=m, names=[ast.alias(name=a) for a in sorted(v)], level=0) for m, v in sorted(used.items())]
    idx = next((i for i, st in enumerate(tree.body) if isinstance(st, (ast.Import, ast.ImportFrom))), 0)
    tree.body[idx:idx] = new_imports
    return ast.unparse(ast.fix_missing_locations(tree)) + '\n'


def transform(src, kind):
    if kind == 'fromimport':
        return from_imports(src)
    if kind == 'roundtrip':
        return roundtrip(src)
    tree = ast.parse(src)
    t = {'logging': AddLogging, 'rename': RenameLocals, 'swap': SwapCompare, 'aug': AugToAssign, 'invert': InvertIf, 'nest': NestIf, 'demorgan': DeMorgan}[kind]()
    tree = ast.fix_missing_locations(t.visit(copy.deepcopy(tree)))
    return ast.unparse(tree) + '\n'


def run(prop, kind, verbose):
    mod = importlib.import_module('cfsa.checks.' + prop.lower())
    base = Model()
    ctx0 = Ctx(prop, base)
    mod.check(ctx0)
    base_bad = {i.ident() for i in ctx0.violations()}
    files = sorted(set(base.consulted))
    res = []
    for path in files:
        try:
            new = transform(base.source(path), kind)
            ast.parse(new)
        except Exception as e:
            res.append((path, 'skip', str(e)[:60]))
            continue
        m = base.with_overlay({path: new})
        try:
            ctx = Ctx(prop, m)
            mod.check(ctx)
            bad = [i for i in ctx.violations() if i.ident() not in base_bad]
            fl = check_floors(mod, ctx)
            if bad:
                res.append((path, 'FALSE-ALARM', ['%s %s %s' % (i.rule, i.function, i.key) for i in bad][:6]))
            elif fl:
                res.append((path, 'anchor', fl[:2]))
            else:
                res.append((path, 'ok', ''))
        except AnchorError as e:
            res.append((path, 'anchor', str(e)[:160]))
        except Exception as e:
            res.append((path, 'CRASH', '%s: %s' % (type(e).__name__, str(e)[:120])))
    return res


def main():
    ap = argparse.ArgumentParser()
    ap.add_argument('props', nargs='*')
    ap.add_argument('--kinds', default='roundtrip,logging,swap,aug,rename')
    ap.add_argument('-v', action='store_true')
    a = ap.parse_args()
    props = a.props or ['C%02d' % i for i in range(1, 21) if i not in (9, 15)]
    total = {}
    for prop in props:
        for kind in a.kinds.split(','):
            res = run(prop, kind, a.v)
            cnt = {}
            for _, st, _ in res:
                cnt[st] = cnt.get(st, 0) + 1
            print('%s %-9s %s' % (prop, kind, cnt))
            for path, st, info in res:
                if st not in ('ok',) and (a.v or st in ('FALSE-ALARM', 'CRASH')):
                    print('     %-12s %s %s' % (st, path, info))
            for k, v in cnt.items():
                total[k] = total.get(k, 0) + v
    print('TOTAL', total)


if __name__ == '__main__':
    main()
