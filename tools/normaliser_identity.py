#!/venv/bin/python
"""The normaliser must leave today's tree alone: every pass is an inverse refactoring *relative to the reference*, so on the reference
itself no pass may fire - except the canonical spellings listed in KNOWN (annotations are always stripped; four modules get a canonical
form of a construct they spell unusually).  Prints the modules where anything else fired and exits 1."""
import os
import sys

sys.path.insert(0, os.path.dirname(os.path.dirname(os.path.abspath(__file__))))
from cfsa.model import Model  # noqa: E402


KNOWN = {'cflib/cpx/transports.py': {'moved', 'spelling', 'constants'}, 'cflib/crtp/serialdriver.py': {'trivia'}, 'cflib/crtp/tcpdriver.py': {'trivia'},
         'cflib/crtp/usbdriver.py': {'trivia'}, 'cflib/utils/uri_helper.py': {'eafp'}}


def main():
    m = Model()
    bad = 0
    n = 0
    for path in m.all_paths():
        mod = m.mod(path)
        n += 1
        fired = getattr(mod, 'unrefactored', None) or {}
        ren = getattr(mod, 'renamed', 0)
        fired = {k: v for k, v in fired.items() if k != 'annotations' and k not in KNOWN.get(path, ())}
        if fired or ren:
            bad += 1
            print('%s: passes fired on the reference tree: %s renamed=%s' % (path, fired, ren))
    print('%d modules, %d touched by the normaliser' % (n, bad))
    return 1 if bad else 0


if __name__ == '__main__':
    sys.exit(main())
