#!/usr/bin/env python3
"""After a `fix:` commit in /repo: find the stored patches (seeded/*/patch.diff, benign/*/*.diff) that no longer apply to HEAD and
rebase those that a three-way apply can handle.  The rest is listed for manual work (replay the fix's edits on old-HEAD + patch).

  git -C /repo worktree add --detach /tmp/wt/RB HEAD && /venv/bin/python tools/rebase_patches.py; git -C /repo worktree remove --force /tmp/wt/RB
"""
import glob, os, subprocess, sys
WT='/tmp/wt/RB'
def run(*a, **k):
    return subprocess.run(a, cwd=WT, capture_output=True, text=True, **k)
patches = sorted(glob.glob('/verif/seeded/*/patch.diff') + glob.glob('/verif/benign/*/*.diff'))
ok=reb=fail=0
failed=[]
for p in patches:
    run('git','reset','--hard','-q'); run('git','clean','-fdq')
    r = run('git','apply','--check',p)
    if r.returncode == 0:
        ok+=1; continue
    r = run('git','apply','-3',p)
    st = run('git','status','--porcelain').stdout
    if r.returncode == 0 and 'UU' not in st and '<<<<<<<' not in run('git','diff').stdout:
        run('git','reset','-q')      # unstage
        d = run('git','diff').stdout
        # include new files
        new = [l[3:] for l in run('git','status','--porcelain').stdout.splitlines() if l.startswith('??')]
        if new:
            run('git','add','-N',*new); d = run('git','diff').stdout
        open(p,'w').write(d); reb+=1
    else:
        fail+=1; failed.append(p)
print('applies', ok, 'rebased', reb, 'conflict', fail)
for f in failed: print(f)
