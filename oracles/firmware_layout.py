"""Wire layout of every command packet, as the Crazyflie firmware decodes it.

External oracle for C08 (the property itself names the firmware layout as the
reference).  One entry per sender and per guard combination.  Entries describe
*bytes on the wire*: port, channel, struct format (packed, little endian) and
for each field the canonical expression over the sender's parameters
(``cfsa.symexpr.canon``: constants folded, polynomials expanded and sorted).
Firmware sources are not available offline; the entries are written from the
firmware's packed-struct definitions (file / struct named per entry) and were
cross-read against the library when the table was created (DESIGN.md App. B).

Guards: ``pv`` = negotiated CRTP protocol version (integer semantics, so
``pv<=8`` also matches ``pv < 9``); other guards are canonical branch facts.
"""
import math

PV = 'self._cf.platform.get_protocol_version()'
TWO_PI = '%.12g' % (2 * math.pi)
NEG_TWO_PI = '%.12g' % (-2 * math.pi)


def E(guard, port, channel, fmt, fields, src):
    return {'guard': sorted(guard), 'port': port, 'channel': channel, 'fmt': fmt, 'fields': list(fields), 'src': src}


def _spiral():
    out = []
    for ag, af in ((['angle>' + TWO_PI], TWO_PI), (['not angle>' + TWO_PI, 'angle<' + NEG_TWO_PI], NEG_TWO_PI), (['not angle>' + TWO_PI, 'not angle<' + NEG_TWO_PI], 'angle')):
        for rg, rf in ((['r0<0'], '0'), (['not r0<0'], 'r0')):
            for fg, ff in ((['rF<0'], '0'), (['not rF<0'], 'rF')):
                out.append(E(['pv>=8'] + ag + rg + fg, 8, 0, '<BBBBfffff',
                             ['11', 'group_mask', 'sideways', 'clockwise', af, rf, ff, 'ascent', 'duration_s'],
                             'crtp_commander_high_level.c data_spiral'))
    return out


def _takeoff_land(cmd, src):
    return [
        E(['yaw is None'], 8, 0, '<BBff?f', [cmd, 'group_mask', 'absolute_height_m', '0', 'True', 'duration_s'], src),
        E(['not yaw is None'], 8, 0, '<BBff?f', [cmd, 'group_mask', 'absolute_height_m', 'yaw', 'False', 'duration_s'], src),
    ]


CMD = 'cflib/crazyflie/commander.py'
HLC = 'cflib/crazyflie/high_level_commander.py'
LOC = 'cflib/crazyflie/localization.py'
EXT = 'cflib/crazyflie/extpos.py'
PLT = 'cflib/crazyflie/platformservice.py'
LPS = 'lpslib/lopoanchor.py'

THRUST_OK = ['not thrust>65535', 'not thrust<0']

LAYOUT = {
    CMD + ':Commander.send_setpoint': [
        E(THRUST_OK + ['not xmode'], 3, 0, '<fffH', ['roll', '-pitch', 'yawrate', 'thrust'], 'crtp_commander_rpyt.c CommanderCrtpLegacyValues'),
        E(THRUST_OK + ['xmode'], 3, 0, '<fffH', ['-0.707*pitch + 0.707*roll', '-0.707*pitch - 0.707*roll', 'yawrate', 'thrust'],
          'client-side X-mode rotation, same struct'),
    ],
    CMD + ':Commander.send_notify_setpoint_stop': [
        E([], 7, 1, '<BI', ['0', 'remain_valid_milliseconds'], 'crtp_commander_generic.c metaCommand notifySetpointsStop'),
    ],
    CMD + ':Commander.send_stop_setpoint': [E([], 7, 0, '<B', ['0'], 'crtp_commander_generic.c stopType')],
    CMD + ':Commander.send_velocity_world_setpoint': [
        E(['pv<=8'], 7, 0, '<Bffff', ['1', 'vx', 'vy', 'vz', '-yawrate'], 'velocityWorldType (legacy yaw sign)'),
        E(['pv>=9'], 7, 0, '<Bffff', ['8', 'vx', 'vy', 'vz', 'yawrate'], 'velocityWorldType'),
    ],
    CMD + ':Commander.send_zdistance_setpoint': [
        E(['pv<=8'], 7, 0, '<Bffff', ['2', 'roll', 'pitch', '-yawrate', 'zdistance'], 'zDistanceType (legacy yaw sign)'),
        E(['pv>=9'], 7, 0, '<Bffff', ['9', 'roll', 'pitch', 'yawrate', 'zdistance'], 'zDistanceType'),
    ],
    CMD + ':Commander.send_hover_setpoint': [
        E(['pv<=8'], 7, 0, '<Bffff', ['5', 'vx', 'vy', '-yawrate', 'zdistance'], 'hoverType (legacy yaw sign)'),
        E(['pv>=9'], 7, 0, '<Bffff', ['10', 'vx', 'vy', 'yawrate', 'zdistance'], 'hoverType'),
    ],
    CMD + ':Commander.send_full_state_setpoint': [
        E([], 7, 0, '<BhhhhhhhhhIhhh',
          ['6', 'int(1000*pos[0])', 'int(1000*pos[1])', 'int(1000*pos[2])',
           'int(1000*vel[0])', 'int(1000*vel[1])', 'int(1000*vel[2])',
           'int(1000*acc[0])', 'int(1000*acc[1])', 'int(1000*acc[2])',
           'compress_quaternion(orientation)',
           'int(1000*rollrate)', 'int(1000*pitchrate)', 'int(1000*yawrate)'], 'fullStatePacket_s'),
    ],
    CMD + ':Commander.send_position_setpoint': [E([], 7, 0, '<Bffff', ['7', 'x', 'y', 'z', 'yaw'], 'positionType')],

    HLC + ':HighLevelCommander.set_group_mask': [E([], 8, 0, '<BB', ['0', 'group_mask'], 'data_set_group_mask')],
    HLC + ':HighLevelCommander.takeoff': _takeoff_land('7', 'data_takeoff_2'),
    HLC + ':HighLevelCommander.land': _takeoff_land('8', 'data_land_2'),
    HLC + ':HighLevelCommander.stop': [E([], 8, 0, '<BB', ['3', 'group_mask'], 'data_stop')],
    HLC + ':HighLevelCommander.go_to': [
        E(['pv<=7'], 8, 0, '<BBBfffff', ['4', 'group_mask', 'relative', 'x', 'y', 'z', 'yaw', 'duration_s'], 'data_go_to'),
        E(['pv>=8'], 8, 0, '<BBBBfffff', ['12', 'group_mask', 'relative', 'linear', 'x', 'y', 'z', 'yaw', 'duration_s'], 'data_go_to_2'),
    ],
    HLC + ':HighLevelCommander.spiral': _spiral(),
    HLC + ':HighLevelCommander.start_trajectory': [
        E([], 8, 0, '<BBBBBf', ['5', 'group_mask', 'relative', 'reversed', 'trajectory_id', 'time_scale'], 'data_start_trajectory'),
    ],
    HLC + ':HighLevelCommander.define_trajectory': [
        E([], 8, 0, '<BBBBIB', ['6', 'trajectory_id', '1', 'type', 'offset', 'n_pieces'], 'data_define_trajectory + trajectoryDescription'),
    ],

    LOC + ':Localization.send_extpos': [E([], 6, 0, '<fff', ['pos[0]', 'pos[1]', 'pos[2]'], 'crtp_localization_service.c CrtpExtPosition')],
    LOC + ':Localization.send_extpose': [
        E([], 6, 1, '<Bfffffff', ['8', 'pos[0]', 'pos[1]', 'pos[2]', 'quat[0]', 'quat[1]', 'quat[2]', 'quat[3]'], 'extPosePacket'),
    ],
    LOC + ':Localization.send_short_lpp_packet': [E([], 6, 1, '<BB+tail', ['2', 'dest_id', '*data'], 'LPS_SHORT_LPP_PACKET')],
    LOC + ':Localization.send_emergency_stop': [E([], 6, 1, '<B', ['3'], 'EMERGENCY_STOP')],
    LOC + ':Localization.send_emergency_stop_watchdog': [E([], 6, 1, '<B', ['4'], 'EMERGENCY_STOP_WATCHDOG')],
    LOC + ':Localization.send_lh_persist_data_packet': [
        E(['*'], 6, 1, '<BHH', ['11', '<mask_geo@loop>', '<mask_calib@loop>'], 'LH_PERSIST_DATA (bit masks of base-station ids)'),
    ],

    EXT + ':Extpos.send_extpos': [E([], 6, 0, '<fff', ['x', 'y', 'z'], 'wrapper of Localization.send_extpos')],
    EXT + ':Extpos.send_extpose': [E([], 6, 1, '<Bfffffff', ['8', 'x', 'y', 'z', 'qx', 'qy', 'qz', 'qw'], 'wrapper of Localization.send_extpose')],

    PLT + ':PlatformService.set_continous_wave': [E([], 13, 0, 'bytes', ['0', 'enabled'], 'platformservice.c setContinuousWave')],
    PLT + ':PlatformService.send_arming_request': [E([], 13, 0, 'bytes', ['1', 'do_arm'], 'platformservice.c armSystem')],
    PLT + ':PlatformService.send_crash_recovery_request': [E([], 13, 0, 'bytes', ['2'], 'platformservice.c recoverSystem')],
    PLT + ':PlatformService._request_protocol_version': [E([], 15, 1, 'bytes', ['0'], 'link-control source query')],
    PLT + ':PlatformService._crt_service_callback': [
        E(["pk.channel==1", "pk.data[:18].decode('utf8')=='Bitcraze Crazyflie'"], 13, 1, 'bytes', ['0'], 'platformservice.c getProtocolVersion'),
    ],

    LPS + ':LoPoAnchor.set_position': [
        E([], 6, 1, '<BB+<Bfff', ['2', 'anchor_id', '1', 'position[0]', 'position[1]', 'position[2]'], 'LPP_SHORT_ANCHOR_POSITION'),
    ],
    LPS + ':LoPoAnchor.reboot': [E([], 6, 1, '<BB+<BB', ['2', 'anchor_id', '2', 'mode'], 'LPP short reboot')],
    LPS + ':LoPoAnchor.set_mode': [E([], 6, 1, '<BB+<BB', ['2', 'anchor_id', '3', 'mode'], 'LPP short mode')],
}
