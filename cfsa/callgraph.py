"""Resolved call graph of the analysed packages, including callback edges.

Resolution is syntactic but type-directed:

* ``self.m()`` -> method of the class (or a base class found in the model);
* ``self.a.m()`` / ``self.a.b.m()`` -> attribute types inferred from ``self.a = ClassName(...)`` anywhere in the class and from
  constructor-argument typing (``Commander(self)`` inside ``Crazyflie.__init__`` types ``Commander.__init__``'s parameter, and
  ``self._cf = crazyflie`` then types the attribute);
* ``Class.m()``, module level functions, imported names;
* ``self.link.m()`` -> every ``CRTPDriver`` subclass (class-hierarchy dispatch);
* callback edges: ``<caller attr>.add_callback(f)`` registers ``f`` on the Caller object identified by (owner class, attribute);
  ``<caller attr>.call(...)`` has an edge to every registered ``f``; lambdas are analysed in place;
* ``add_port_callback / add_header_callback(f)`` -> edge from the dispatcher's ``cb.callback(pk)`` site;
* driver error callbacks (``link_error_callback`` plumbing) -> ``Crazyflie._link_error_cb`` (re-verified syntactically);
* ``Thread(target=f)`` / ``Timer(t, f)`` / Thread subclasses' ``run`` are thread roots.

Unresolved calls are kept (``?name``) and reported; user callbacks are opaque.
"""
import ast

from .astutil import dotted, method_call
from .cfg import norm
from .consteval import Scope, resolve_class

CF = 'cflib/crazyflie/__init__.py'


def fid(func):
    return '%s:%s' % (func.path, func.qualname)


class CallGraph:
    def __init__(self, model):
        self.model = model
        self.funcs = {}          # fid -> Func
        self.classes = {}        # class name -> Class (first definition wins; names are unique in the anchored code)
        self.attr_types = {}     # (class qualname, attr) -> set(class qualnames)
        self.param_types = {}    # (class qualname, param) -> set(class qualnames)
        self.edges = {}          # fid -> list of (callee fid, call node, kind)
        self.unresolved = {}     # fid -> list of call texts
        self.registrations = {}  # (owner class, caller attr) -> list of (callback fid or ('lambda', Func, node), site fid)
        self.port_callbacks = [] # [(callback fid, site fid)]
        self.thread_roots = {}   # fid of target -> list of (creator fid, attr text or None, kind)
        self.subclasses = {}     # class name -> [Class]
        self._build()

    # ------------------------------------------------------------------
    def _all(self):
        for mod in self.model.all_modules():
            for k in mod.all_classes():
                yield mod, k

    def _build(self):
        for mod in self.model.all_modules():
            for f in mod.all_funcs():
                self.funcs[fid(f)] = f
                for nf in f.nested_all():
                    self.funcs[fid(nf)] = nf
        for mod, k in self._all():
            self.classes.setdefault(k.name, k)
            self.classes.setdefault(k.qualname, k)
        for mod, k in self._all():
            for b in k.node.bases:
                bk = resolve_class(b, Scope(mod, k))
                if bk is not None:
                    self.subclasses.setdefault(bk.name, []).append(k)
        # attribute types from constructor calls; iterate to a fixed point with param typing
        for _ in range(3):
            self._type_attrs()
            self._type_params()
        self._edges()

    def _class_of_expr(self, expr, func, _depth=0):
        """set of class names an expression may evaluate to (instances)"""
        if _depth > 6:
            return set()
        k = func.cls
        if isinstance(expr, ast.Name):
            if expr.id == 'self' and k is not None:
                return {k.name}
            if k is not None and (k.qualname, expr.id) in self.param_types and func.name == '__init__':
                return set(self.param_types[(k.qualname, expr.id)])
            # local variable assigned from a constructor in this function
            out = set()
            for s in ast.walk(func.node):
                if isinstance(s, ast.Assign) and any(isinstance(t, ast.Name) and t.id == expr.id for t in s.targets):
                    out |= self._class_of_expr(s.value, func, _depth + 1) if not isinstance(s.value, ast.Name) else set()
            return out
        if isinstance(expr, ast.Attribute):
            base = self._class_of_expr(expr.value, func, _depth + 1)
            out = set()
            for b in base:
                for kk in self._mro(b):
                    out |= self.attr_types.get((kk.qualname, expr.attr), set())
            return out
        if isinstance(expr, ast.Call):
            ck = resolve_class(expr.func, Scope.of(func))
            if ck is not None:
                return {ck.name}
            d = dotted(expr.func)
            if d and d.split('.')[-1] in self.classes and d.split('.')[-1][:1].isupper():
                return {d.split('.')[-1]}
        return set()

    def _mro(self, cname):
        k = self.classes.get(cname)
        out, seen = [], set()
        work = [k] if k is not None else []
        while work:
            c = work.pop(0)
            if c is None or id(c) in seen:
                continue
            seen.add(id(c))
            out.append(c)
            for b in c.node.bases:
                work.append(resolve_class(b, Scope(c.module, c)))
        return out

    def _type_attrs(self):
        for mod, k in self._all():
            for f in k.methods.values():
                for s in ast.walk(f.node):
                    if isinstance(s, ast.Assign):
                        for t in s.targets:
                            if isinstance(t, ast.Attribute) and isinstance(t.value, ast.Name) and t.value.id == 'self':
                                ts = self._class_of_expr(s.value, f)
                                if ts:
                                    self.attr_types.setdefault((k.qualname, t.attr), set()).update(ts)
        # Crazyflie.link is any driver
        self.attr_types.setdefault(('Crazyflie', 'link'), set()).update(c.name for c in self.subclasses.get('CRTPDriver', []))

    def _type_params(self):
        for f in list(self.funcs.values()):
            for c in ast.walk(f.node):
                if not isinstance(c, ast.Call):
                    continue
                ck = resolve_class(c.func, Scope.of(f))
                if ck is None or not ck.has('__init__'):
                    continue
                init = ck.method('__init__')
                params = init.params[1:]
                for i, a in enumerate(c.args):
                    if i < len(params):
                        ts = self._class_of_expr(a, f)
                        if ts:
                            self.param_types.setdefault((ck.qualname, params[i]), set()).update(ts)
                for kw in c.keywords:
                    if kw.arg in params:
                        ts = self._class_of_expr(kw.value, f)
                        if ts:
                            self.param_types.setdefault((ck.qualname, kw.arg), set()).update(ts)

    # ------------------------------------------------------------------
    def _method(self, cname, mname):
        for k in self._mro(cname):
            if k.has(mname):
                return k.method(mname)
        return None

    def resolve_callable(self, expr, func):
        """callable expression (not a call) -> list of Func"""
        if isinstance(expr, ast.Attribute):
            out = []
            for cname in self._class_of_expr(expr.value, func):
                mth = self._method(cname, expr.attr)
                if mth is not None:
                    out.append(mth)
            return out
        if isinstance(expr, ast.Name):
            # nested function or module function
            p = func
            while p is not None:
                for nf in p.nested_all():
                    if nf.name == expr.id:
                        return [nf]
                p = p.parent
            if expr.id in func.module.functions:
                return [func.module.functions[expr.id]]
        return []

    def _caller_key(self, expr, func):
        """expression denoting a Caller object -> [(owner class, attr)]"""
        if isinstance(expr, ast.Attribute):
            out = []
            for cname in self._class_of_expr(expr.value, func):
                for k in self._mro(cname):
                    if 'Caller' in self.attr_types.get((k.qualname, expr.attr), set()):
                        out.append((k.name, expr.attr))
            return out
        return []

    def _edges(self):
        # pass 1: registrations and thread roots
        for f in list(self.funcs.values()):
            me = fid(f)
            for c in ast.walk(f.node):
                if not isinstance(c, ast.Call):
                    continue
                if method_call(c, 'add_callback') and c.args:
                    for key in self._caller_key(c.func.value, f):
                        self._register(key, c.args[0], f, me)
                elif isinstance(c.func, ast.Attribute) and c.func.attr in ('add_port_callback', 'add_header_callback') and c.args:
                    cb = c.args[1] if c.func.attr == 'add_port_callback' and len(c.args) > 1 else c.args[0]
                    for t in self.resolve_callable(cb, f):
                        if (fid(t), me) not in self.port_callbacks:
                            self.port_callbacks.append((fid(t), me))
                d = dotted(c.func)
                if d in ('Thread', 'threading.Thread', 'Timer', 'threading.Timer'):
                    tgt = None
                    for kw in c.keywords:
                        if kw.arg in ('target', 'function'):
                            tgt = kw.value
                    if tgt is None and d.endswith('Timer') and len(c.args) > 1:
                        tgt = c.args[1]
                    if tgt is not None:
                        holder = None
                        for s in ast.walk(f.node):
                            if isinstance(s, ast.Assign) and s.value is c:
                                holder = norm(s.targets[0])
                        if isinstance(tgt, ast.Lambda):
                            lf = self._lambda_func(tgt, f)
                            self.thread_roots.setdefault(fid(lf), []).append((me, holder, d))
                        for t in self.resolve_callable(tgt, f):
                            self.thread_roots.setdefault(fid(t), []).append((me, holder, d))
        for mod, k in self._all():
            if any(b.name == 'Thread' or norm(bb) in ('Thread', 'threading.Thread') for b in [x for x in [resolve_class(bb, Scope(mod, k)) for bb in k.node.bases] if x] for bb in k.node.bases) or \
                    any(norm(bb) in ('Thread', 'threading.Thread') for bb in k.node.bases):
                if k.has('run'):
                    self.thread_roots.setdefault(fid(k.method('run')), []).append((None, k.name, 'Thread-subclass'))
        # pass 2: call edges
        for f in list(self.funcs.values()):
            self._edges_of(f)

    def _lambda_func(self, lam, func):
        key = '%s:%s.<lambda@%d>' % (func.path, func.qualname, lam.lineno)
        if key not in self.funcs:
            fd = ast.FunctionDef(name='<lambda@%d>' % lam.lineno, args=lam.args, body=[ast.Expr(value=lam.body, lineno=lam.lineno, col_offset=0)],
                                 decorator_list=[], lineno=lam.lineno, col_offset=0)
            from .model import Func
            lf = Func(func.module, fd, func.cls, func)
            lf.qualname = '%s.<lambda@%d>' % (func.qualname, lam.lineno)
            self.funcs[key] = lf
            self._edges_of(lf)
        return self.funcs[key]

    def _register(self, key, cbexpr, func, site):
        if isinstance(cbexpr, ast.Lambda):
            lf = self._lambda_func(cbexpr, func)
            if (fid(lf), site) not in self.registrations.setdefault(key, []):
                self.registrations[key].append((fid(lf), site))
            return
        for t in self.resolve_callable(cbexpr, func):
            if (fid(t), site) not in self.registrations.setdefault(key, []):
                self.registrations[key].append((fid(t), site))

    def _edges_of(self, f):
        me = fid(f)
        out = self.edges.setdefault(me, [])
        unres = self.unresolved.setdefault(me, [])
        body_nodes = []
        todo = list(f.node.body)
        while todo:
            n = todo.pop()
            body_nodes.append(n)
            for c in ast.iter_child_nodes(n):
                if isinstance(c, (ast.FunctionDef, ast.Lambda, ast.ClassDef)):
                    continue
                todo.append(c)
        for c in body_nodes:
            if not isinstance(c, ast.Call):
                continue
            fn = c.func
            # Caller.call fan-out
            if method_call(c, 'call'):
                keys = self._caller_key(fn.value, f)
                if keys:
                    for key in keys:
                        for cb, site in self.registrations.get(key, []):
                            out.append((cb, c, 'callback:%s.%s' % key))
                    continue
            # dispatcher -> port callbacks
            if isinstance(fn, ast.Attribute) and fn.attr == 'callback' and f.qualname == '_IncomingPacketHandler.run':
                for cb, site in self.port_callbacks:
                    out.append((cb, c, 'port-callback'))
                continue
            # driver error callback plumbing
            if isinstance(fn, ast.Attribute) and fn.attr in ('link_error_callback', '_link_error_callback') and f.cls is not None and f.path.startswith('cflib/crtp/'):
                tgt = self._method('Crazyflie', '_link_error_cb')
                if tgt is not None:
                    out.append((fid(tgt), c, 'link-error-plumbing'))
                continue
            targets = []
            if isinstance(fn, ast.Attribute):
                for cname in self._class_of_expr(fn.value, f):
                    # class-hierarchy dispatch for drivers
                    cands = [cname] + ([k.name for k in self.subclasses.get(cname, [])] if cname == 'CRTPDriver' else [])
                    for cn in cands:
                        mth = self._method(cn, fn.attr)
                        if mth is not None:
                            targets.append(mth)
                if not targets:
                    ck = resolve_class(fn.value, Scope.of(f))
                    if ck is not None and ck.has(fn.attr):
                        targets.append(ck.method(fn.attr))
            elif isinstance(fn, ast.Name):
                targets = self.resolve_callable(fn, f)
                if not targets:
                    ck = resolve_class(fn, Scope.of(f))
                    if ck is not None and ck.has('__init__'):
                        targets.append(ck.method('__init__'))
            if targets:
                for t in targets:
                    out.append((fid(t), c, 'call'))
            else:
                d = dotted(fn)
                unres.append(d or norm(fn)[:40])

    # ------------------------------------------------------------------
    def reachable(self, start_ids, stop=()):
        """fid -> predecessor (fid, call node, kind) for everything reachable from start_ids"""
        prev = {s: None for s in start_ids}
        todo = list(start_ids)
        while todo:
            cur = todo.pop(0)
            if cur in stop:
                continue
            for callee, node, kind in self.edges.get(cur, []):
                if callee not in prev:
                    prev[callee] = (cur, node, kind)
                    todo.append(callee)
        return prev

    def chain(self, prev, target):
        out = []
        cur = target
        while cur is not None and prev.get(cur) is not None:
            p, node, kind = prev[cur]
            out.append('%s --[%s L%d]--> %s' % (p.split(':')[-1], kind, getattr(node, 'lineno', 0), cur.split(':')[-1]))
            cur = p
        return list(reversed(out))

    def stats(self):
        n = sum(len(v) for v in self.edges.values())
        u = sum(len(v) for v in self.unresolved.values())
        return {'functions': len(self.funcs), 'resolved_call_edges': n, 'unresolved_calls': u}
