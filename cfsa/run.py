"""Command line driver:  python -m cfsa.run <PROP> [--tier quick|thorough] [--replay PATH]

Exit 0: every rule instance holds (KNOWN-FINDING lines may be printed).
Exit 1: ``VIOLATION property=<id> replay=<path>`` - a recognised construct contradicts a rule.
Exit 2: ``ANALYSIS-ERROR property=<id> ...`` - an anchor/idiom was not recognised, an
        instance floor was missed or a positive control stayed silent: no verdict.
"""
import argparse
import importlib
import json
import os
import sys
import traceback

from . import report
from .model import AnchorError, Model
from .report import Ctx, Timer


def load_check(prop):
    return importlib.import_module('cfsa.checks.%s' % prop.lower())


def run_rules(mod, model, tier):
    """Run the rules; a lost anchor stops the remaining rules but keeps what was decided so far
    (ctx.anchor_error is set): violations already established are still reported."""
    ctx = Ctx(mod.PROP, model, tier)
    ctx.anchor_error = None
    try:
        mod.check(ctx)
        if tier == 'thorough' and hasattr(mod, 'check_thorough'):
            mod.check_thorough(ctx)
        from .flow import generic_rules
        generic_rules(ctx)
    except AnchorError as e:
        ctx.anchor_error = str(e)
    from .recognise import guard
    guard(ctx)
    return ctx


def check_floors(mod, ctx):
    by = ctx.by_rule()
    errs = []
    for r, n in getattr(mod, 'FLOORS', {}).items():
        rid = '%s.%s' % (mod.PROP, r)
        got = len(by.get(rid, []))
        if got < n:
            errs.append('rule %s matched %d instance(s), floor is %d' % (rid, got, n))
    return errs


def run_variant(mod, base_model, v, tier, base_idents=frozenset()):
    """-> dict(status=fired|silent|skipped|anchor|clean|false-alarm, ...)"""
    m, why = v.apply(base_model)
    if m is None:
        return {'variant': v.name, 'status': 'skipped', 'why': why}
    try:
        ctx = run_rules(mod, m, tier)
        floors = check_floors(mod, ctx)
        if not [i for i in ctx.violations() if i.ident() not in base_idents]:
            if ctx.anchor_error:
                raise AnchorError(ctx.anchor_error)
            if floors:
                raise AnchorError('; '.join(floors))
    except AnchorError as e:
        return {'variant': v.name, 'status': 'anchor', 'why': str(e)}
    except Exception:       # a rule crashed on an unforeseen shape: no verdict for this variant
        return {'variant': v.name, 'status': 'anchor', 'why': 'checker exception: ' + traceback.format_exc()[-300:]}
    viol = [i for i in ctx.violations() if i.ident() not in base_idents]      # constructs already violating on the base tree do not count
    rules = sorted({i.rule for i in viol})
    if v.kind == 'M':
        want = v.rule if v.rule.startswith(mod.PROP) else '%s.%s' % (mod.PROP, v.rule)
        if v.rule == '*' and rules:
            return {'variant': v.name, 'status': 'fired', 'rules': rules, 'construct': viol[0].as_dict()}
        if want in rules:
            return {'variant': v.name, 'status': 'fired', 'rules': rules,
                    'construct': [i.as_dict() for i in viol if i.rule == want][0]}
        return {'variant': v.name, 'status': 'silent', 'rules': rules}
    return {'variant': v.name, 'status': 'false-alarm' if viol else 'clean', 'rules': rules,
            'constructs': [i.as_dict() for i in viol][:3]}


def _variant_worker(args):
    prop, idx, tier, base = args
    mod = load_check(prop)
    model = Model()
    if isinstance(idx, tuple):          # ('fuzz', path, kind)
        from .mutate import FuzzVariant
        return idx, run_variant(mod, model, FuzzVariant(idx[1], idx[2]), tier, frozenset(tuple(b) for b in base))
    variants = list(getattr(mod, 'VARIANTS', []))
    if hasattr(mod, 'extra_variants') and tier == 'thorough':
        variants += list(mod.extra_variants(model))
    if tier == 'thorough':
        from .mutate import load_benign, load_seeds
        variants += load_seeds(prop, report.VERIF)
        variants += load_benign(prop, report.VERIF)
    return idx, run_variant(mod, model, variants[idx], tier, frozenset(tuple(b) for b in base))


def run_variants(prop, mod, model, variants, all_variants, tier, base_viol):
    """Run the source variants, in parallel processes when there are many (each is a full re-analysis)."""
    jobs = int(os.environ.get('VERIF_JOBS', '0') or 0) or min(16, os.cpu_count() or 1)
    idxs = [('fuzz', v.path, v.fuzz_kind) if hasattr(v, 'fuzz_kind') else all_variants.index(v) for v in variants]
    if len(variants) < 6 or jobs <= 1:
        return [run_variant(mod, model, v, tier, base_viol) for v in variants]
    import concurrent.futures as cf
    import multiprocessing as mp
    out = {}
    try:
        with cf.ProcessPoolExecutor(max_workers=min(jobs, len(variants)), mp_context=mp.get_context('fork')) as ex:
            for idx, r in ex.map(_variant_worker, [(prop, i, tier, [list(b) for b in base_viol]) for i in idxs]):
                out[idx] = r
    except Exception:       # no multiprocessing available: fall back to sequential
        return [run_variant(mod, model, v, tier, base_viol) for v in variants]
    return [out[i] for i in idxs]


def main(argv=None):
    ap = argparse.ArgumentParser()
    ap.add_argument('prop')
    ap.add_argument('--tier', default=os.environ.get('VERIF_TIER', 'quick'), choices=['quick', 'thorough'])
    ap.add_argument('--replay')
    ap.add_argument('--list', action='store_true', help='print every rule instance')
    a = ap.parse_args(argv)
    prop = a.prop.upper()
    seed = int(os.environ.get('VERIF_SEED', '0') or 0)
    timer = Timer()
    try:
        return _main(prop, a, seed, timer)
    except AnchorError as e:
        print('ANALYSIS-ERROR property=%s %s' % (prop, e))
        _evidence_error(prop, a.tier, seed, timer, str(e))
        return 2
    except Exception:       # checker bug: never a VIOLATION
        traceback.print_exc()
        print('ANALYSIS-ERROR property=%s internal error in checker' % prop)
        _evidence_error(prop, a.tier, seed, timer, 'internal error: ' + traceback.format_exc()[-400:])
        return 2


def _evidence_error(prop, tier, seed, timer, msg):
    try:
        report.write_evidence(prop, tier, seed, {
            'explanation': 'static analysis could not decide: ' + msg,
            'evaluations': 1, 'distinct_nontrivial': 0, 'samples': [msg], 'analysis_error': msg,
        }, [], timer.s(), 0)
    except Exception:
        pass


def _main(prop, a, seed, timer):
    mod = load_check(prop)
    model = Model()
    known = report.load_known()

    if a.replay:
        with open(a.replay) as f:
            payload = json.load(f)
        ctx = run_rules(mod, model, a.tier)
        want = payload.get('ident')
        hit = [i for i in ctx.violations() if list(i.ident()) == want]
        if hit:
            i = hit[0]
            print('REPLAY: still violated: %s %s:%d %s key=%r\n  %s' % (i.rule, i.file, i.line, i.function, i.key, i.detail))
            print('VIOLATION property=%s replay=%s' % (prop, a.replay))
            return 1
        print('REPLAY: construct %s no longer violates' % (want,))
        return 0

    ctx = run_rules(mod, model, a.tier)
    floor_errs = check_floors(mod, ctx) if not ctx.anchor_error else []

    if a.list:
        for i in ctx.instances:
            print('%-9s %-8s %s:%d %s  key=%r  %s' % (i.rule, 'ok' if i.ok else 'VIOLATED', i.file, i.line, i.function, i.key, i.detail))

    # ---- classify violations ------------------------------------------------
    new_viol, known_hits = [], []
    for i in ctx.violations():
        k = report.match_known(i, known, prop)
        if k:
            known_hits.append((i, k))
        else:
            new_viol.append(i)

    # ---- self validation ----------------------------------------------------
    all_variants = list(getattr(mod, 'VARIANTS', []))
    if hasattr(mod, 'extra_variants') and a.tier == 'thorough':
        all_variants += list(mod.extra_variants(model))
    if a.tier == 'thorough':
        from .mutate import load_benign, load_seeds
        all_variants += load_seeds(prop, report.VERIF)
        all_variants += load_benign(prop, report.VERIF)
    variants = [v for v in all_variants if v.kind == 'M'] if a.tier == 'quick' else list(all_variants)
    if a.tier == 'thorough':
        # behaviour-preserving transformations of every file that carries a rule instance: must stay silent
        from .mutate import FUZZ_KINDS, FuzzVariant
        for path in sorted({i.file for i in ctx.instances if i.file.endswith('.py')}):
            for k in FUZZ_KINDS:
                variants.append(FuzzVariant(path, k))
    vres = []
    control_errs = []
    if not new_viol and not floor_errs and not ctx.anchor_error:
        # controls are run on a tree that is clean (or carries only known findings):
        # a control 'fires' only through a construct that is not already violating.
        base_viol = {i.ident() for i in ctx.violations()}
        for v, r in zip(variants, run_variants(prop, mod, model, variants, all_variants, a.tier, base_viol)):
            vres.append(r)
            if v.kind == 'M' and r['status'] == 'silent':
                control_errs.append('positive control stayed silent: %s' % v.name)
            if v.kind == 'M' and r['status'] == 'anchor' and not v.reanchor:
                control_errs.append('positive control lost its anchor: %s (%s)' % (v.name, r['why']))
            if v.kind == 'B' and r['status'] == 'false-alarm':
                control_errs.append('benign variant raised an alarm: %s %s' % (v.name, r['rules']))
            if v.kind == 'B' and r['status'] == 'anchor' and not v.reanchor:
                control_errs.append('benign variant lost an anchor: %s (%s)' % (v.name, r['why']))

    # ---- evidence -----------------------------------------------------------
    by = ctx.by_rule()
    n_inst = len(ctx.instances)
    n_ok = sum(1 for i in ctx.instances if i.ok)
    distinct = len({i.ident() for i in ctx.instances})
    fired = sum(1 for r in vres if r['status'] == 'fired')
    samples = [i.as_dict() for i in ctx.instances[:: max(1, n_inst // 12)]][:14]
    samples += [i.as_dict() for i in ctx.violations()][:6]
    coverage = {
        'explanation': mod.EXPLANATION,
        'obligations': n_inst,
        'discharged': n_ok,
        'evaluations': n_inst + len(vres),
        'distinct_nontrivial': distinct,
        'rule': 'one evaluation = one rule instance (a construct of /repo matched by a rule and decided) or one '
                'in-memory source variant re-analysed by all rules; distinct = distinct (rule, file, function, key) tuples',
        'samples': samples,
        'rules': {r: {'instances': len(v), 'holding': sum(1 for i in v if i.ok)} for r, v in sorted(by.items())},
        'functions_analysed': sorted('%s:%s' % f for f in ctx.functions),
        'files_consulted': sorted(set(model.consulted)),
        'positive_controls': {'run': sum(1 for r in vres if r['variant'].startswith('M:')), 'fired': fired,
                              'skipped': [r for r in vres if r['status'] == 'skipped']},
        'benign_variants': {'run': sum(1 for r in vres if r['variant'].startswith('B:')),
                            'clean': sum(1 for r in vres if r['status'] == 'clean')},
        'variant_results': [{'variant': r['variant'], 'status': r['status'], 'rules': r.get('rules')} for r in vres],
        'known_findings': [{'rule': i.rule, 'file': i.file, 'function': i.function, 'key': i.key, 'what': k.get('what')}
                           for i, k in known_hits],
        'notes': ctx.notes,
        'exhaustive': False,
    }
    assumptions = list(getattr(mod, 'ASSUMPTIONS', [])) + ctx.assumptions
    report.write_evidence(prop, a.tier, seed, coverage, assumptions, timer.s(), len(new_viol))

    # ---- verdict ------------------------------------------------------------
    for i, k in known_hits:
        print('KNOWN-FINDING: property=%s %s [%s %s:%s]' % (prop, k.get('what', ''), i.rule, i.file, i.function))
    if new_viol:
        for n, i in enumerate(new_viol):
            path = report.write_replay(prop, n, {'property': prop, 'ident': list(i.ident()), 'instance': i.as_dict()})
            print('%s violated at %s:%d in %s: %s  [key=%r]' % (i.rule, i.file, i.line, i.function, i.detail, i.key))
            print('VIOLATION property=%s replay=%s' % (prop, path))
        return 1
    if ctx.anchor_error:
        floor_errs = [ctx.anchor_error] + floor_errs
    if floor_errs or control_errs:
        for e in floor_errs + control_errs:
            print('ANALYSIS-ERROR property=%s %s' % (prop, e))
        return 2
    print('OK property=%s tier=%s rules=%d instances=%d controls=%d/%d fired wall=%.2fs' % (
        prop, a.tier, len(by), n_inst, fired, sum(1 for r in vres if r['variant'].startswith('M:')), timer.s()))
    return 0


if __name__ == '__main__':
    sys.exit(main())
