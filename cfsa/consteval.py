"""Constant folding over the source model.

``fold(node, scope)`` returns a Python constant or ``UNKNOWN``.  Names are
resolved through: explicit environment, class constants (``self.X``,
``Class.X``), module constants and ``from m import X`` chains.  Only literal
arithmetic, containers, ``len``, ``struct.calcsize``, ``%``/``.format`` on
literals and a few pure builtins are evaluated, with the checker's own
evaluator - repository code is never executed.
"""
import ast
import math
import operator
import struct


class _Unknown:
    def __repr__(self):
        return 'UNKNOWN'

    def __bool__(self):
        return False


UNKNOWN = _Unknown()

_BIN = {
    ast.Add: operator.add, ast.Sub: operator.sub, ast.Mult: operator.mul,
    ast.Div: operator.truediv, ast.FloorDiv: operator.floordiv, ast.Mod: operator.mod,
    ast.Pow: operator.pow, ast.LShift: operator.lshift, ast.RShift: operator.rshift,
    ast.BitOr: operator.or_, ast.BitAnd: operator.and_, ast.BitXor: operator.xor,
}
_CMP = {
    ast.Eq: operator.eq, ast.NotEq: operator.ne, ast.Lt: operator.lt, ast.LtE: operator.le,
    ast.Gt: operator.gt, ast.GtE: operator.ge,
}


class Scope:
    """Where names are looked up: module, optional class, optional env."""

    def __init__(self, module, cls=None, env=None, class_body=False):
        self.module = module
        self.cls = cls
        self.env = env or {}
        self.class_body = class_body     # folding an expression written in the class body itself

    @classmethod
    def of(cls_, func, env=None):
        return cls_(func.module, func.cls, env)


def _class_const(model, klass, name, depth):
    """Look a class constant up through the class and its (resolvable) bases."""
    seen = set()
    work = [klass]
    while work:
        k = work.pop(0)
        if id(k) in seen:
            continue
        seen.add(id(k))
        if name in k.consts:
            return fold(k.consts[name], Scope(k.module, k, class_body=True), depth + 1)
        for b in k.node.bases:
            bk = resolve_class(b, Scope(k.module, k))
            if bk is not None:
                work.append(bk)
    return UNKNOWN


def resolve_class(node, scope):
    """Resolve an expression naming a class (Name / dotted Attribute) to a
    model Class, or None."""
    mod = scope.module
    model = mod.model
    if isinstance(node, ast.Name):
        if node.id in mod.classes:
            return mod.classes[node.id]
        if scope.cls is not None and node.id in scope.cls.inner:
            return scope.cls.inner[node.id]
        q = mod.imports.get(node.id)
        if q:
            parts = q.split('.')
            m = model.module_by_dotted('.'.join(parts[:-1]))
            if m is not None and parts[-1] in m.classes:
                return m.classes[parts[-1]]
            if m is not None and parts[-1] in m.imports:    # re-export
                q2 = m.imports[parts[-1]].split('.')
                m2 = model.module_by_dotted('.'.join(q2[:-1]))
                if m2 is not None and q2[-1] in m2.classes:
                    return m2.classes[q2[-1]]
        return None
    if isinstance(node, ast.Attribute):
        outer = resolve_class(node.value, scope)
        if outer is not None and node.attr in outer.inner:
            return outer.inner[node.attr]
        # module.Class
        dotted = _dotted(node.value)
        if dotted:
            head = dotted.split('.')[0]
            q = mod.imports.get(head)
            if q:
                full = q + dotted[len(head):]
                m = model.module_by_dotted(full)
                if m is not None and node.attr in m.classes:
                    return m.classes[node.attr]
    return None


def _dotted(node):
    if isinstance(node, ast.Name):
        return node.id
    if isinstance(node, ast.Attribute):
        b = _dotted(node.value)
        return b + '.' + node.attr if b else None
    return None


def fold(node, scope, depth=0):
    if depth > 40:
        return UNKNOWN
    try:
        return _fold(node, scope, depth)
    except (ArithmeticError, ValueError, TypeError, struct.error, OverflowError, IndexError, KeyError):
        return UNKNOWN


def _fold(node, scope, depth):
    f = lambda n: fold(n, scope, depth + 1)     # noqa: E731
    if isinstance(node, ast.Constant):
        return node.value
    if isinstance(node, ast.Tuple):
        v = [f(e) for e in node.elts]
        return UNKNOWN if any(x is UNKNOWN for x in v) else tuple(v)
    if isinstance(node, ast.List):
        v = [f(e) for e in node.elts]
        return UNKNOWN if any(x is UNKNOWN for x in v) else list(v)
    if isinstance(node, ast.Set):
        v = [f(e) for e in node.elts]
        return UNKNOWN if any(x is UNKNOWN for x in v) else set(v)
    if isinstance(node, ast.Dict):
        if any(k is None for k in node.keys):
            return UNKNOWN
        ks = [f(k) for k in node.keys]
        vs = [f(v) for v in node.values]
        if any(x is UNKNOWN for x in ks + vs):
            return UNKNOWN
        return dict(zip(ks, vs))
    if isinstance(node, ast.UnaryOp):
        v = f(node.operand)
        if v is UNKNOWN:
            return UNKNOWN
        if isinstance(node.op, ast.USub):
            return -v
        if isinstance(node.op, ast.UAdd):
            return +v
        if isinstance(node.op, ast.Invert):
            return ~v
        if isinstance(node.op, ast.Not):
            return not v
    if isinstance(node, ast.BinOp):
        a, b = f(node.left), f(node.right)
        if a is UNKNOWN or b is UNKNOWN:
            return UNKNOWN
        if isinstance(node.op, ast.Pow) and isinstance(b, (int, float)) and abs(b) > 64:
            return UNKNOWN
        if isinstance(node.op, ast.LShift) and b > 256:
            return UNKNOWN
        if isinstance(node.op, ast.Mult) and isinstance(a, (str, bytes, list, tuple)) and b > 4096:
            return UNKNOWN
        return _BIN[type(node.op)](a, b)
    if isinstance(node, ast.Compare) and len(node.ops) == 1 and type(node.ops[0]) in _CMP:
        a, b = f(node.left), f(node.comparators[0])
        if a is UNKNOWN or b is UNKNOWN:
            return UNKNOWN
        return _CMP[type(node.ops[0])](a, b)
    if isinstance(node, ast.Compare) and len(node.ops) > 1 and all(type(o) in _CMP for o in node.ops):
        vals = [f(node.left)] + [f(c) for c in node.comparators]       # all operands are evaluated here; fine for constant folding
        if any(v is UNKNOWN for v in vals):
            return UNKNOWN
        return all(_CMP[type(o)](a, b) for o, a, b in zip(node.ops, vals, vals[1:]))
    if isinstance(node, ast.Name):
        if node.id in scope.env:
            v = scope.env[node.id]
            return f(v) if isinstance(v, ast.AST) else v
        if node.id in ('True', 'False', 'None'):
            return {'True': True, 'False': False, 'None': None}[node.id]
        mod = scope.module
        if scope.class_body and scope.cls is not None and node.id in scope.cls.consts:
            return fold(scope.cls.consts[node.id], Scope(mod, scope.cls, class_body=True), depth + 1)
        if node.id in mod.consts:
            return fold(mod.consts[node.id], Scope(mod), depth + 1)
        q = mod.imports.get(node.id)
        if q and '.' in q:
            parts = q.split('.')
            m = mod.model.module_by_dotted('.'.join(parts[:-1]))
            if m is not None and parts[-1] in m.consts:
                return fold(m.consts[parts[-1]], Scope(m), depth + 1)
        return UNKNOWN
    if isinstance(node, ast.Attribute):
        # self.X / cls.X / Class.X / module.X / math.pi
        if isinstance(node.value, ast.Name) and node.value.id in ('self', 'cls') and scope.cls is not None:
            return _class_const(scope.module.model, scope.cls, node.attr, depth)
        if isinstance(node.value, ast.Name) and node.value.id == 'math' and node.attr in ('pi', 'e', 'tau'):
            return getattr(math, node.attr)
        if isinstance(node.value, ast.Name) and node.value.id in ('np', 'numpy') and node.attr == 'pi':
            return math.pi
        k = resolve_class(node.value, scope)
        if k is not None:
            return _class_const(scope.module.model, k, node.attr, depth)
        dotted = _dotted(node.value)
        if dotted:
            head = dotted.split('.')[0]
            q = scope.module.imports.get(head)
            if q:
                m = scope.module.model.module_by_dotted(q + dotted[len(head):])
                if m is not None and node.attr in m.consts:
                    return fold(m.consts[node.attr], Scope(m), depth + 1)
        return UNKNOWN
    if isinstance(node, ast.Subscript):
        base = f(node.value)
        if base is UNKNOWN:
            return UNKNOWN
        if isinstance(node.slice, ast.Slice):
            lo = f(node.slice.lower) if node.slice.lower else None
            hi = f(node.slice.upper) if node.slice.upper else None
            st = f(node.slice.step) if node.slice.step else None
            if UNKNOWN in (lo, hi, st):
                return UNKNOWN
            return base[lo:hi:st]
        i = f(node.slice)
        if i is UNKNOWN:
            return UNKNOWN
        return base[i]
    if isinstance(node, ast.IfExp):
        t = f(node.test)
        if t is UNKNOWN:
            return UNKNOWN
        return f(node.body) if t else f(node.orelse)
    if isinstance(node, ast.BoolOp):
        vals = [f(v) for v in node.values]
        if any(v is UNKNOWN for v in vals):
            return UNKNOWN
        if isinstance(node.op, ast.And):
            r = True
            for v in vals:
                r = v
                if not v:
                    break
            return r
        r = False
        for v in vals:
            r = v
            if v:
                break
        return r
    if isinstance(node, ast.JoinedStr):
        out = ''
        for v in node.values:
            if isinstance(v, ast.Constant):
                out += str(v.value)
            else:
                return UNKNOWN
        return out
    if isinstance(node, ast.Call):
        fn = _dotted(node.func)
        args = [f(a) for a in node.args]
        if node.keywords or any(a is UNKNOWN for a in args):
            # str.format on literal with foldable args only
            return UNKNOWN
        if fn in ('len', 'int', 'float', 'abs', 'min', 'max', 'bool', 'tuple', 'list', 'bytes',
                  'bytearray', 'str', 'ord', 'chr', 'sum', 'round'):
            return {'len': len, 'int': int, 'float': float, 'abs': abs, 'min': min, 'max': max,
                    'bool': bool, 'tuple': tuple, 'list': list, 'bytes': bytes, 'bytearray': bytearray,
                    'str': str, 'ord': ord, 'chr': chr, 'sum': sum, 'round': round}[fn](*args)
        if fn in ('struct.calcsize', 'calcsize') and len(args) == 1 and isinstance(args[0], str):
            return struct.calcsize(args[0])
        if fn == 'range' and all(isinstance(a, int) for a in args) and len(args) in (1, 2, 3):
            r = range(*args)
            return tuple(r) if len(r) <= 4096 else UNKNOWN
        if fn in ('math.sqrt', 'np.sqrt', 'sqrt') and len(args) == 1:
            return math.sqrt(args[0])
        if fn in ('math.radians', 'np.radians', 'np.deg2rad') and len(args) == 1:
            return math.radians(args[0])
        if isinstance(node.func, ast.Attribute) and node.func.attr == 'format':
            base = f(node.func.value)
            if isinstance(base, str):
                return base.format(*args)
        return UNKNOWN
    return UNKNOWN


def fold_in(func, node, env=None):
    return fold(node, Scope.of(func, env))


def class_const(klass, name):
    """Value of a class-level constant (through bases), folded in class-body scope."""
    return _class_const(klass.module.model, klass, name, 0)
