"""In-memory source variants (overlays) for positive controls and corpora.

A variant is a list of textual edits ``(path, old, new)``; it is applied only
when every ``old`` occurs exactly once in today's text of ``path`` and the
result still parses.  A variant that cannot be applied is *skipped* (reported
in evidence), never counted as a pass or a failure: the snippet is only a way
of addressing a construct, the verdict comes from re-running the rules on the
edited tree.
"""
import ast


class Variant:
    """kind 'M' - must be reported by ``rule``; kind 'B' - behaviour preserving,
    must not be reported (``reanchor=True``: exit-2 style AnchorError tolerated)."""

    def __init__(self, kind, rule, path, old, new, note='', reanchor=False, extra=()):
        self.kind, self.rule, self.note, self.reanchor = kind, rule, note, reanchor
        self.edits = [(path, old, new)] + list(extra)

    @property
    def name(self):
        return '%s:%s:%s' % (self.kind, self.rule, self.note or self.edits[0][1][:40])

    def apply(self, model):
        """-> (overlay model, None) or (None, reason)"""
        overlay = {}
        for path, old, new in self.edits:
            try:
                text = overlay.get(path) or model.source(path)
            except Exception as e:      # file vanished
                return None, 'file missing: %s' % e
            c = text.count(old)
            if c != 1:
                return None, 'anchor snippet occurs %d times in %s' % (c, path)
            overlay[path] = text.replace(old, new)
        for path, text in overlay.items():
            try:
                ast.parse(text)
            except SyntaxError as e:
                return None, 'variant does not parse: %s' % e
        return model.with_overlay(overlay), None


def M(rule, path, old, new, note='', **kw):
    return Variant('M', rule, path, old, new, note, **kw)


def B(path, old, new, note='', **kw):
    return Variant('B', '-', path, old, new, note, **kw)


class SeedVariant:
    """A seeded breaking change kept as a unified diff under /verif/seeded/<name>/patch.diff.
    kind 'M' with rule '*': any new violation of the property counts as detection."""
    reanchor = False

    def __init__(self, name, diff_text, rule='*'):
        self.kind = 'M'
        self.rule = rule
        self.note = name
        self.diff = diff_text

    @property
    def name(self):
        return 'M:seed:%s' % self.note

    def apply(self, model):
        from .patch import PatchError, overlay_for
        try:
            ov = overlay_for(model, self.diff)
        except (PatchError, Exception) as e:      # the tree moved on: the seed cannot be replayed
            return None, 'seed patch does not apply: %s' % e
        for path, text in ov.items():
            try:
                ast.parse(text)
            except SyntaxError as e:
                return None, 'seeded variant does not parse: %s' % e
        return model.with_overlay(ov), None


def load_seeds(prop, verif_dir):
    import json
    import os
    out = []
    base = os.path.join(verif_dir, 'seeded')
    if not os.path.isdir(base):
        return out
    for d in sorted(os.listdir(base)):
        mp = os.path.join(base, d, 'meta.json')
        pp = os.path.join(base, d, 'patch.diff')
        if not (os.path.isfile(mp) and os.path.isfile(pp)):
            continue
        with open(mp) as f:
            meta = json.load(f)
        if meta.get('property') != prop or meta.get('detected_by_check') is not True:
            continue
        with open(pp) as f:
            out.append(SeedVariant(d, f.read()))
    return out


class BenignPatch(SeedVariant):
    """A behaviour-preserving refactoring kept as a unified diff under /verif/benign/<PROP>/<name>.diff: must not be reported."""

    def __init__(self, name, diff_text):
        SeedVariant.__init__(self, name, diff_text)
        self.kind = 'B'
        self.rule = '-'

    @property
    def name(self):
        return 'B:patch:%s' % self.note


def load_benign(prop, verif_dir):
    import os
    out = []
    base = os.path.join(verif_dir, 'benign', prop)
    if os.path.isdir(base):
        for fn in sorted(os.listdir(base)):
            if fn.endswith('.diff'):
                with open(os.path.join(base, fn)) as f:
                    out.append(BenignPatch(fn[:-5], f.read()))
    return out


class FuzzVariant:
    """Behaviour-preserving transformation (tools/benign_fuzz.py) of one file: must not change the verdict."""
    kind = 'B'
    rule = '-'
    reanchor = False

    def __init__(self, path, fuzz_kind):
        self.path, self.fuzz_kind = path, fuzz_kind
        self.note = '%s:%s' % (fuzz_kind, path)

    @property
    def name(self):
        return 'B:fuzz:' + self.note

    def apply(self, model):
        import os
        import sys
        sys.path.insert(0, os.path.join(os.path.dirname(os.path.dirname(os.path.abspath(__file__))), 'tools'))
        import benign_fuzz
        try:
            new = benign_fuzz.transform(model.source(self.path), self.fuzz_kind)
            ast.parse(new)
        except Exception as e:
            return None, 'transformation failed: %s' % e
        return model.with_overlay({self.path: new}), None


FUZZ_KINDS = ('roundtrip', 'logging', 'swap', 'aug', 'rename', 'invert', 'nest', 'demorgan', 'fromimport', 'fstring', 'intuple', 'static', 'explain', 'tuplebind', 'constname')
