"""Small AST helpers shared by the rule modules."""
import ast

from .cfg import norm, walk_own


def dotted(node):
    """'a.b.c' for Name/Attribute chains, else None."""
    if isinstance(node, ast.Name):
        return node.id
    if isinstance(node, ast.Attribute):
        b = dotted(node.value)
        return b + '.' + node.attr if b else None
    return None


def call_name(call):
    return dotted(call.func) if isinstance(call, ast.Call) else None


def is_call(node, *names):
    """Call whose dotted callee equals, or ends with '.'+name for, one of names."""
    if not isinstance(node, ast.Call):
        return False
    d = dotted(node.func)
    if d is None:
        # method on a non-dotted base, e.g. f().g() or x[0].g()
        if isinstance(node.func, ast.Attribute):
            return any(n == node.func.attr or n.endswith('.' + node.func.attr) and False for n in names)
        return False
    for n in names:
        if d == n or d.endswith('.' + n):
            return True
    return False


def method_call(node, attr):
    """Call of a method named attr on any receiver."""
    return isinstance(node, ast.Call) and isinstance(node.func, ast.Attribute) and node.func.attr == attr


def calls(root, own=True):
    it = walk_own(root) if own else ast.walk(root)
    return [n for n in it if isinstance(n, ast.Call)]


def self_attr(node, name=None):
    return isinstance(node, ast.Attribute) and isinstance(node.value, ast.Name) and node.value.id == 'self' \
        and (name is None or node.attr == name)


def stores(func_node, own=True):
    """[(target node, statement)] for every assignment target in the function
    (Assign, AugAssign, AnnAssign, For targets, With vars, Delete)."""
    out = []
    it = walk_own(func_node) if own else ast.walk(func_node)
    for st in it:
        if isinstance(st, ast.Assign):
            for t in st.targets:
                for x in _flatten(t):
                    out.append((x, st))
        elif isinstance(st, (ast.AugAssign, ast.AnnAssign)):
            out.append((st.target, st))
        elif isinstance(st, ast.For):
            for x in _flatten(st.target):
                out.append((x, st))
        elif isinstance(st, ast.Delete):
            for t in st.targets:
                out.append((t, st))
    return out


def _flatten(t):
    if isinstance(t, (ast.Tuple, ast.List)):
        for e in t.elts:
            yield from _flatten(e)
    elif isinstance(t, ast.Starred):
        yield from _flatten(t.value)
    else:
        yield t


def attr_stores(func_node, attr_text):
    """Statements that store to the attribute whose text is attr_text (e.g. 'self._curr_up')."""
    return [(t, st) for t, st in stores(func_node) if norm(t) == attr_text]


def names_in(node):
    return {n.id for n in ast.walk(node) if isinstance(n, ast.Name)}


def contains(node, pred):
    return any(pred(n) for n in ast.walk(node))


def stmts_of(func_node):
    """All statements of a function body in source order (not nested defs)."""
    out = [n for n in walk_own(func_node) if isinstance(n, ast.stmt) and n is not func_node]
    out.sort(key=lambda s: (s.lineno, s.col_offset))
    return out


def enclosing_stmt(func_node, sub):
    best = None
    for st in stmts_of(func_node):
        if isinstance(st, (ast.If, ast.While, ast.For, ast.Try, ast.With)):
            roots = []
            if isinstance(st, (ast.If, ast.While)):
                roots = [st.test]
            elif isinstance(st, ast.For):
                roots = [st.iter, st.target]
            elif isinstance(st, ast.With):
                roots = [i.context_expr for i in st.items]
        else:
            roots = [st]
        for r in roots:
            for n in ast.walk(r):
                if n is sub:
                    best = st
    return best


def const_int(node):
    return isinstance(node, ast.Constant) and isinstance(node.value, int) and not isinstance(node.value, bool)


def strip_parens_text(node):
    return norm(node)


def handler_names(h):
    if h.type is None:
        return ['<bare>']
    t = h.type
    return [norm(e) for e in (t.elts if isinstance(t, ast.Tuple) else [t])]


def catches_everything(h):
    return any(n in ('<bare>', 'Exception', 'BaseException') for n in handler_names(h))


def is_noise(stmt):
    """Statements without bearing on any property: docstrings, imports, pass, logging / print calls."""
    if isinstance(stmt, (ast.Import, ast.ImportFrom, ast.Pass)):
        return True
    if isinstance(stmt, ast.Assert):
        # documentation-style assertions on a local: `assert x is not None`, `assert isinstance(x, T)`
        t = stmt.test
        if isinstance(t, ast.Compare) and len(t.ops) == 1 and isinstance(t.ops[0], ast.IsNot) and isinstance(t.left, ast.Name) and \
                isinstance(t.comparators[0], ast.Constant) and t.comparators[0].value is None:
            return True
        if isinstance(t, ast.Call) and isinstance(t.func, ast.Name) and t.func.id == 'isinstance' and t.args and isinstance(t.args[0], ast.Name):
            return True
        # a test that only looks: names, attributes, constants, comparisons, and / or / not, isinstance / len, is_alive() / is_set()
        def looks_only(e):
            if isinstance(e, (ast.Name, ast.Constant)):
                return True
            if isinstance(e, ast.Attribute):
                return looks_only(e.value)
            if isinstance(e, ast.UnaryOp) and isinstance(e.op, ast.Not):
                return looks_only(e.operand)
            if isinstance(e, ast.BoolOp):
                return all(looks_only(v) for v in e.values)
            if isinstance(e, ast.Compare):
                return looks_only(e.left) and all(looks_only(c) for c in e.comparators)
            if isinstance(e, (ast.Tuple, ast.List)):
                return all(looks_only(x) for x in e.elts)
            if isinstance(e, ast.Call) and not e.keywords:
                if isinstance(e.func, ast.Name) and e.func.id in ('isinstance', 'len', 'callable', 'type'):
                    return all(looks_only(a) for a in e.args)
                if isinstance(e.func, ast.Attribute) and e.func.attr in ('is_alive', 'is_set', 'locked', 'empty') and not e.args:
                    return looks_only(e.func.value)
            return False
        if looks_only(t):
            return True
    if isinstance(stmt, ast.Expr):
        v = stmt.value
        if isinstance(v, ast.Constant):
            return True
        if isinstance(v, ast.Call):
            d = dotted(v.func) or ''
            if d.startswith(('logger.', 'logging.', '_lg.', 'log.', 'warnings.')) or d == 'print' or '.getLogger(' in norm(v.func):
                return True
    return False


def effective(stmts):
    """Statement list without noise (see is_noise)."""
    return [s for s in stmts if not is_noise(s)]


def aug_form(stmt):
    """(target text, operator class, value node) for `x op= v` and for `x = x op v`; None otherwise."""
    if isinstance(stmt, ast.AugAssign):
        return norm(stmt.target), type(stmt.op), stmt.value
    if isinstance(stmt, ast.Assign) and len(stmt.targets) == 1 and isinstance(stmt.value, ast.BinOp) and norm(stmt.value.left) == norm(stmt.targets[0]):
        return norm(stmt.targets[0]), type(stmt.value.op), stmt.value.right
    return None


def universal(func_node):
    """Recognise a function that answers "does P hold for every element": either ``return all(P for v in L ...)`` or nested loops whose
    innermost body is ``if not P: return False`` with ``return True`` after them.  -> {'gens': [(target text, iter text)], 'pred': P as
    canonical text, 'filters': [canonical texts]} or None."""
    from .cfg import canon_test
    rets = [r for r in walk_own(func_node) if isinstance(r, ast.Return)]
    for r in rets:
        v = r.value
        if isinstance(v, ast.Call) and isinstance(v.func, ast.Name) and v.func.id == 'all' and len(v.args) == 1 and isinstance(v.args[0], (ast.GeneratorExp, ast.ListComp)):
            ge = v.args[0]
            if len(rets) - sum(1 for x in rets if isinstance(x.value, ast.Constant) and x.value.value is False) == 1:
                gens = []
                for g in ge.generators:
                    it = g.iter
                    # `elements = chain.from_iterable(X for a in A)` ... `for e in elements`  is  `for a in A for e in X`
                    if isinstance(it, ast.Name):
                        b = [s_.value for s_ in walk_own(func_node) if isinstance(s_, ast.Assign) and len(s_.targets) == 1 and isinstance(s_.targets[0], ast.Name) and s_.targets[0].id == it.id]
                        if len(b) == 1:
                            it = b[0]
                    if isinstance(it, ast.Call) and norm(it.func) in ('chain.from_iterable', 'itertools.chain.from_iterable') and len(it.args) == 1 and \
                            isinstance(it.args[0], (ast.GeneratorExp, ast.ListComp)) and len(it.args[0].generators) == 1 and not it.args[0].generators[0].ifs:
                        inner = it.args[0]
                        gens.append((norm(inner.generators[0].target), norm(inner.generators[0].iter)))
                        gens.append((norm(g.target), norm(inner.elt)))
                    else:
                        gens.append((norm(g.target), norm(g.iter)))
                return {'gens': gens, 'pred': canon_test(ge.elt),
                        'filters': [canon_test(i) for g in ge.generators for i in g.ifs]}
    loops = [l for l in walk_own(func_node) if isinstance(l, ast.For)]
    if not loops:
        return None
    outer = [l for l in loops if not any(l is not o and any(x is l for x in walk_own(o)) for o in loops)]
    if len(outer) != 1:
        return None
    gens, cur = [], outer[0]
    while True:
        gens.append((norm(cur.target), norm(cur.iter)))
        body = effective(cur.body)
        if cur.orelse or len(body) != 1:
            return None
        if isinstance(body[0], ast.For):
            cur = body[0]
            continue
        leaf = body[0]
        break
    if not (isinstance(leaf, ast.If) and not leaf.orelse and len(effective(leaf.body)) == 1 and isinstance(effective(leaf.body)[0], ast.Return)):
        return None
    rv = effective(leaf.body)[0].value
    if not (isinstance(rv, ast.Constant) and rv.value is False):
        return None
    if any(isinstance(x, (ast.Break, ast.Continue)) for x in walk_own(func_node)):
        return None
    others = [r for r in rets if r is not effective(leaf.body)[0]]
    trues = [r for r in others if isinstance(r.value, ast.Constant) and r.value.value is True]
    if len(trues) != 1 or any(not (isinstance(r.value, ast.Constant) and r.value.value in (True, False)) for r in others):
        return None
    if trues[0].lineno < outer[0].lineno:
        return None
    return {'gens': gens, 'pred': canon_test(ast.UnaryOp(op=ast.Not(), operand=leaf.test)), 'filters': []}


def expand_expression_methods(klass, node, depth=2):
    """Copy of ``node`` in which calls ``self.m(args)`` to methods of ``klass`` whose body is a single ``return <expr>`` (plus docstring)
    are replaced by that expression with the parameters substituted; lets a rule compare formulas whether or not they are written
    through such a one-line helper of the same class."""
    import copy

    def body_expr(f):
        b = effective(f.node.body)
        if len(b) == 1 and isinstance(b[0], ast.Return) and b[0].value is not None and not f.node.decorator_list:
            return b[0].value
        return None

    class T(ast.NodeTransformer):
        def visit_Call(self, n):
            self.generic_visit(n)
            if isinstance(n.func, ast.Attribute) and isinstance(n.func.value, ast.Name) and n.func.value.id == 'self' and klass.has(n.func.attr) and not n.keywords:
                f = klass.method(n.func.attr)
                e = body_expr(f)
                ps = f.params[1:]
                if e is not None and len(ps) == len(n.args):
                    m = dict(zip(ps, n.args))

                    class S(ast.NodeTransformer):
                        def visit_Name(self, x):
                            return copy.deepcopy(m[x.id]) if x.id in m and isinstance(x.ctx, ast.Load) else x
                    return S().visit(copy.deepcopy(e))
            return n
    out = copy.deepcopy(node)
    for _ in range(depth):
        out = T().visit(out)
    return out


def format_template(node):
    """Canonical form of a string built by ``'..%s..' % args``, ``'..{}..'.format(args)`` or an f-string:
    (template with ``{}`` / ``{:spec}`` placeholders, [argument texts]); None if ``node`` is none of these.
    A plain string constant is its own template with no arguments."""
    import re
    if isinstance(node, ast.Constant) and isinstance(node.value, str):
        return node.value, []
    if isinstance(node, ast.JoinedStr):
        t, args = '', []
        for v in node.values:
            if isinstance(v, ast.Constant):
                t += str(v.value).replace('{', '{{').replace('}', '}}')
            elif isinstance(v, ast.FormattedValue):
                spec = ''
                if v.format_spec is not None:
                    if not all(isinstance(x, ast.Constant) for x in v.format_spec.values):
                        return None
                    spec = ''.join(str(x.value) for x in v.format_spec.values)
                conv = {115: '!s', 114: '!r', 97: '!a'}.get(v.conversion, '')
                t += '{%s%s}' % (conv, (':' + spec) if spec else '')
                args.append(norm(v.value))
        return t, args
    def _const_str(e):
        # a string literal, or literals joined with +
        if isinstance(e, ast.Constant) and isinstance(e.value, str):
            return e.value
        if isinstance(e, ast.BinOp) and isinstance(e.op, ast.Add):
            a_, b_ = _const_str(e.left), _const_str(e.right)
            return a_ + b_ if a_ is not None and b_ is not None else None
        return None
    if isinstance(node, ast.Call) and isinstance(node.func, ast.Attribute) and node.func.attr == 'format' and _const_str(node.func.value) is not None and not node.keywords:
        txt = _const_str(node.func.value)
        args, out, pos, auto = [], '', 0, 0
        for mt in re.finditer(r'\{(\d*)((?:![sra])?)((?::[^{}]*)?)\}', txt):
            out += txt[pos:mt.start()]
            idx = int(mt.group(1)) if mt.group(1) else auto
            auto += 1
            if idx >= len(node.args):
                return None
            a_ = node.args[idx]
            if not mt.group(2) and mt.group(3) in ('', ':') and (isinstance(a_, (ast.JoinedStr, ast.BinOp)) or (isinstance(a_, ast.Constant) and isinstance(a_.value, str)) or
                                                                  (isinstance(a_, ast.Call) and isinstance(a_.func, ast.Attribute) and a_.func.attr == 'format')):
                # a plain placeholder filled with a string that is itself a literal / a formatted string: one template
                sub_ = format_template(a_)
                if sub_ is not None:
                    out += sub_[0]
                    args.extend(sub_[1])
                    pos = mt.end()
                    continue
            args.append(norm(a_))
            out += '{%s%s}' % (mt.group(2), mt.group(3) if mt.group(3) != ':' else '')
            pos = mt.end()
        return out + txt[pos:], args
    if isinstance(node, ast.BinOp) and isinstance(node.op, ast.Mod) and isinstance(node.left, ast.Constant) and isinstance(node.left.value, str):
        txt = node.left.value
        vals = list(node.right.elts) if isinstance(node.right, ast.Tuple) else [node.right]
        args, out, pos, i = [], '', 0, 0
        for mt in re.finditer(r'%(0?)(\d*)([sdXxrf])', txt):
            out += txt[pos:mt.start()].replace('{', '{{').replace('}', '}}')
            if i >= len(vals):
                return None
            args.append(norm(vals[i]))
            i += 1
            spec = mt.group(1) + mt.group(2) + (mt.group(3) if mt.group(3) not in 'sr' else '')
            out += '{%s%s}' % ('!r' if mt.group(3) == 'r' else '', (':' + spec) if spec else '')
            pos = mt.end()
        return out + txt[pos:].replace('{', '{{').replace('}', '}}'), args
    return None


def dispatch_table(func, key_text):
    """{key text: (callee text, [argument texts])} of a function that hands its work to one of several callables depending on ``key_text``:
    an if/elif chain of ``key == K`` guarding calls, or a dict literal {K: callable} looked up with the key (``.get(key)`` / ``[key]``)
    whose result is then called.  Both spellings give the same table."""
    from .cfg import cfg_of
    g = cfg_of(func)
    out = {}
    for n in g.nodes:
        if n.kind != 'stmt' or not isinstance(n.ast, ast.Expr) or not isinstance(n.ast.value, ast.Call):
            continue
        c = n.ast.value
        for f in g.facts_at(n):
            if f.op == '==' and f.pol and key_text in (norm(f.left), norm(f.right)):
                k = norm(f.right) if norm(f.left) == key_text else norm(f.left)
                out[k] = (norm(c.func), [norm(a) for a in c.args])
        if isinstance(c.func, ast.Name):
            for d in g.reaching_defs(n, c.func.id):
                v = d.ast.value if isinstance(d.ast, ast.Assign) else None
                tbl = None
                if isinstance(v, ast.Call) and isinstance(v.func, ast.Attribute) and v.func.attr == 'get' and v.args and norm(v.args[0]) == key_text and len(v.args) == 1:
                    tbl = v.func.value
                elif isinstance(v, ast.Subscript) and norm(v.slice) == key_text:
                    tbl = v.value
                if isinstance(tbl, ast.Name):
                    td = g.reaching_defs(d, tbl.id)
                    tbl = td[0].ast.value if len(td) == 1 and isinstance(td[0].ast, ast.Assign) else None
                if isinstance(tbl, ast.Dict):
                    for k_, v_ in zip(tbl.keys, tbl.values):
                        out[norm(k_)] = (norm(v_), [norm(a) for a in c.args])
    return out


def callable_parts(klass, expr, func=None):
    """(first parameter name, [nodes of the body]) of a callable handed over as a value: a lambda, or a method / static function of
    ``klass`` referenced as ``self.name`` / ``Class.name`` whose first parameter (after self) receives the argument; None otherwise."""
    if isinstance(expr, ast.Lambda):
        if not expr.args.args:
            return None
        return expr.args.args[0].arg, [expr.body]
    if isinstance(expr, ast.Name) and func is not None:
        # a function defined in the enclosing function (one definition)
        ds = [s_ for s_ in ast.walk(func.node) if isinstance(s_, ast.FunctionDef) and s_.name == expr.id and s_ is not func.node]
        if len(ds) == 1 and ds[0].args.args:
            return ds[0].args.args[0].arg, list(ds[0].body)
        # ... or a plain function of the module (one definition, not re-bound)
        mod = getattr(func, 'module', None)
        tree = getattr(mod, 'tree', None)
        if not ds and tree is not None:
            ds = [s_ for s_ in tree.body if isinstance(s_, ast.FunctionDef) and s_.name == expr.id]
            rebound = any(isinstance(n_, ast.Name) and n_.id == expr.id and isinstance(n_.ctx, (ast.Store, ast.Del)) for n_ in ast.walk(tree))
            if len(ds) == 1 and ds[0].args.args and not rebound and not ds[0].decorator_list:
                return ds[0].args.args[0].arg, list(ds[0].body)
        return None
    if isinstance(expr, ast.Attribute) and isinstance(expr.value, ast.Name) and klass is not None and klass.has(expr.attr):
        f = klass.method(expr.attr)
        static = any(isinstance(d, ast.Name) and d.id == 'staticmethod' for d in f.node.decorator_list)
        ps = f.params if static else f.params[1:]
        if not ps:
            return None
        return ps[0], list(f.node.body)
    return None


def symbolic_table(module, expr, _depth=0):
    """[(key node, value node)] of a module-level constant look-up table, evaluated symbolically: a dict literal, dict(pairs), or a
    dict comprehension over a constant tuple/list of rows (itself possibly a module constant).  None when ``expr`` is none of these."""
    if _depth > 4:
        return None
    if isinstance(expr, ast.Name) and expr.id in module.consts:
        return symbolic_table(module, module.consts[expr.id], _depth + 1)
    if isinstance(expr, ast.Attribute) and isinstance(expr.value, ast.Name):
        # a class-level table read as self.T / cls.T / Class.T (the only class of the module that defines T, or the named one)
        owners = [k for k in module.classes.values() if expr.attr in k.consts and (expr.value.id in ('self', 'cls') or expr.value.id == k.name)]
        if len(owners) == 1:
            return symbolic_table(module, owners[0].consts[expr.attr], _depth + 1)
    if isinstance(expr, ast.Dict) and all(k is not None for k in expr.keys):
        return list(zip(expr.keys, expr.values))

    def rows_of(e):
        if isinstance(e, ast.Name) and e.id in module.consts:
            return rows_of(module.consts[e.id])
        if isinstance(e, (ast.Tuple, ast.List)) and all(isinstance(r, (ast.Tuple, ast.List)) for r in e.elts):
            return [list(r.elts) for r in e.elts]
        if isinstance(e, ast.Call) and isinstance(e.func, ast.Attribute) and e.func.attr == 'items' and not e.args:
            t = symbolic_table(module, e.func.value, _depth + 1)
            return [list(kv) for kv in t] if t is not None else None
        return None
    if isinstance(expr, ast.DictComp) and len(expr.generators) == 1 and not expr.generators[0].ifs:
        g = expr.generators[0]
        rows = rows_of(g.iter)
        if rows is None or not isinstance(g.target, (ast.Tuple, ast.List)) or not all(isinstance(t, ast.Name) for t in g.target.elts):
            return None
        names = [t.id for t in g.target.elts]
        out = []
        for r in rows:
            if len(r) != len(names):
                return None
            env = dict(zip(names, r))
            k = env.get(expr.key.id) if isinstance(expr.key, ast.Name) else None
            v = env.get(expr.value.id) if isinstance(expr.value, ast.Name) else None
            if k is None or v is None:
                return None
            out.append((k, v))
        return out
    if isinstance(expr, ast.Call) and isinstance(expr.func, ast.Name) and expr.func.id == 'dict' and len(expr.args) == 1 and not expr.keywords:
        rows = rows_of(expr.args[0])
        if rows is not None and all(len(r) == 2 for r in rows):
            return [(r[0], r[1]) for r in rows]
    return None


def table_lookup(module, expr):
    """(table as [(key node, value node)], looked-up key node, default node or None) for ``T[key]`` / ``T.get(key[, default])`` on a
    module-level constant table; None otherwise."""
    if isinstance(expr, ast.Subscript):
        t = symbolic_table(module, expr.value)
        return (t, expr.slice, None) if t is not None else None
    if isinstance(expr, ast.Call) and isinstance(expr.func, ast.Attribute) and expr.func.attr == 'get' and 1 <= len(expr.args) <= 2 and not expr.keywords:
        t = symbolic_table(module, expr.func.value)
        return (t, expr.args[0], expr.args[1] if len(expr.args) == 2 else ast.Constant(value=None)) if t is not None else None
    return None


class _StripCasts(ast.NodeTransformer):
    def visit_Call(self, n):
        self.generic_visit(n)
        if isinstance(n.func, ast.Name) and n.func.id in ('int', 'float', 'bool') and len(n.args) == 1 and not n.keywords and \
                isinstance(n.args[0], (ast.Name, ast.Subscript, ast.Attribute)):
            return n.args[0]
        return n


def strip_casts(node):
    """copy of ``node`` without int(x) / float(x) / bool(x) around a plain name, item or attribute: for rules about *which* value is
    stored or sent, a conversion of a value to the type it already has (bytes of a payload, fields of struct.unpack) says nothing"""
    import copy
    return _StripCasts().visit(copy.deepcopy(node))


def norm_nc(node):
    return norm(strip_casts(node))
