"""Recognition guard: how much of a function (as the rules see it, i.e. after the inverse refactorings) is still the function the
rules were written against?  The rules are statements about paths and facts of particular functions; when a function has been
rewritten so thoroughly that even after normalisation most of its statements are not the reference's, a failing rule instance says
more about the rule's reading of unfamiliar code than about the property.  Such instances end as NO VERDICT (exit 2), never as an
alarm.  The measure is deliberately crude and name-independent: the multiset of statement shapes (every plain name blanked)."""
import ast
import copy
import json
import os
from collections import Counter

HERE = os.path.dirname(os.path.dirname(os.path.abspath(__file__)))
ORACLE = os.path.join(HERE, 'oracles', 'reference_stmts.json')
LIMIT = 12            # statements (shapes) that may differ between a function as written and the reference before its rule instances stop being believed
_REF = {}


class _Blank(ast.NodeTransformer):
    def visit_Name(self, n):
        return ast.copy_location(ast.Name(id='_', ctx=n.ctx), n)

    def visit_arg(self, n):
        n.arg = '_'
        n.annotation = None
        return n

    def visit_Constant(self, n):
        if isinstance(n.value, str) and len(n.value) > 12:
            return ast.copy_location(ast.Constant(value='s'), n)      # message texts do not matter
        return n


def _header(st):
    """a statement without the statements nested in it"""
    st = copy.copy(st)
    for fld in ('body', 'orelse', 'finalbody', 'handlers'):
        if hasattr(st, fld) and isinstance(getattr(st, fld), list):
            setattr(st, fld, [ast.Pass()] if fld == 'body' else [])
    if isinstance(st, (ast.FunctionDef, ast.AsyncFunctionDef)):
        st.decorator_list = []
        st.returns = None
    return st


def stmt_shapes(func_node):
    out = []
    for n in ast.walk(func_node):
        if isinstance(n, ast.stmt) and n is not func_node and not (isinstance(n, ast.Expr) and isinstance(n.value, ast.Constant)) and not isinstance(n, ast.Pass):
            try:
                out.append(ast.unparse(_Blank().visit(copy.deepcopy(_header(n)))).split('\n')[0][:160])
            except Exception:
                out.append(type(n).__name__)
    return out


def reference():
    if not _REF and os.path.exists(ORACLE):
        _REF.update(json.load(open(ORACLE)))
    return _REF


def similarity(path, qualname, func_node):
    """multiset Jaccard of statement shapes; None when the reference has no such function"""
    ref = reference().get(path, {}).get(qualname)
    if ref is None:
        return None
    a, b = Counter(stmt_shapes(func_node)), Counter(ref)
    inter = sum((a & b).values())
    union = sum((a | b).values())
    return 1.0 if union == 0 else inter / union


_RAW = {}


def raw_difference(model, path, qualname):
    """number of statement shapes by which the function AS WRITTEN (before any inverse refactoring) differs from the reference
    function: added + removed.  None when the reference has no such function or the file does not parse."""
    ref = reference().get(path, {}).get(qualname)
    if ref is None:
        return None
    key = (path, hash(model.source(path)))
    if key not in _RAW:
        try:
            from .alpha import functions
            _RAW[key] = dict(functions(ast.parse(model.source(path))))
        except SyntaxError:
            _RAW[key] = None
    fns = _RAW[key]
    if fns is None:
        return None
    fn = fns.get(qualname)
    if fn is None:
        return len(ref)                     # the function is gone (moved, renamed, dissolved)
    a, b = Counter(stmt_shapes(fn)), Counter(ref)
    return sum((a - b).values()) + sum((b - a).values())


def guard(ctx):
    """Mark the failing instances that sit in functions rewritten beyond LIMIT: they give no verdict (ctx.anchor_error), they are
    not violations.  Calibrated on the kept corpora (DESIGN appendix P): of 587 small seeded defects 573 keep their verdict, of the
    36 thorough neutral rewrites of round 11 that alarmed 22 end without a verdict instead."""
    dropped = []
    for i in ctx.instances:
        if i.ok or not i.function or not str(i.file).endswith('.py'):
            continue
        # the function the instance is reported in, and every other function its verdict was read from
        ds = [(raw_difference(ctx.model, p_, q_), q_) for p_, q_ in [(i.file, i.function)] + list(getattr(i, 'reads', ()) or ())]
        ds = [(d, q_) for d, q_ in ds if d is not None and d > LIMIT]
        if ds:
            i.unrecognised = max(ds)
            dropped.append(i)
    if dropped:
        fns = sorted({'%s (%d statements differ)' % (i.unrecognised[1], i.unrecognised[0]) for i in dropped})
        msg = 'rewritten beyond recognition, %d failing rule instance(s) not believed: %s' % (len(dropped), '; '.join(fns)[:300])
        ctx.anchor_error = (ctx.anchor_error + ' | ' if getattr(ctx, 'anchor_error', None) else '') + msg
    return dropped
