"""Semantics-preserving normalisation of a module relative to a reference *shape* of today's tree.

The rules address constructs by the names and statement shapes they have in the reference tree.  Routine maintenance
(introduce a named constant, extract a helper method, introduce an explaining variable, write an if/else assignment as a
conditional expression, rename a private attribute) keeps behaviour and must keep the verdict.  Before analysis every
module is therefore rewritten *in memory* by the inverse refactorings, each of which preserves the meaning of the program:

  1. attributes of a class that were merely renamed get their reference names back;
  2. a constant (module or class level) unknown to the reference, bound once to a literal value, is replaced by its value;
  3. a function/method unknown to the reference is inlined at its call sites (straight-line body, single trailing return
     or a call site in return position) and dropped when no reference to it remains;
  4. a local unknown to the reference, bound once to a side-effect-free expression, is replaced by that expression;
  5. ``x = a if c else b`` / ``return a if c else b`` unknown to the reference become if/else statements;
  7. ``for i in range(K)`` with a small constant K and ``[e for i in range(K)]`` unknown to the reference are unrolled;
  6. ``x = [e for v in L if c]``, ``{k: e for ...}``, ``sum(e for ...)`` unknown to the reference become an initialisation and a loop.

The reference (``oracles/reference_shape.json``, tools/gen_reference_shape.py) records names only: which constants,
functions, locals, attributes and conditional expressions exist today.  It is an addressing aid, not an oracle - every
verdict still comes from running the rules on the (normalised) current code, and every rewrite is meaning preserving
whatever the reference says.  ``VERIF_NO_UNREFACTOR=1`` switches the pass off.
"""
import ast
import copy
import json
import os
import re

from .alpha import binding_order, functions

_REF = None
PURE_FUNCS = {'len', 'int', 'float', 'abs', 'min', 'max', 'tuple', 'list', 'bool', 'str', 'bytes', 'bytearray', 'isinstance', 'sorted', 'sum',
              'range', 'any', 'all', 'round', 'ord', 'chr', 'dict', 'set', 'repr', 'hex', 'divmod', 'enumerate', 'zip', 'reversed',
              'struct.unpack', 'struct.pack', 'struct.calcsize', 'math.sqrt', 'math.radians', 'math.degrees', 'np.array', 'np.linalg.norm', 'np.sqrt', 'numpy.sqrt'}
PURE_METHODS = {'find', 'split', 'strip', 'decode', 'encode', 'upper', 'lower', 'startswith', 'endswith', 'index', 'get', 'keys', 'values',
                'items', 'format', 'join', 'count', 'isdigit', 'rstrip', 'lstrip', 'partition', 'copy'}


def _ref():
    global _REF
    if _REF is None:
        p = os.path.join(os.path.dirname(os.path.dirname(os.path.abspath(__file__))), 'oracles', 'reference_shape.json')
        try:
            with open(p) as f:
                _REF = json.load(f)
        except (OSError, ValueError):
            _REF = {}
    return _REF


def _txt(node):
    try:
        return ast.unparse(node)
    except Exception:
        return '<?>'


def _shape_txt(node):
    """text of an expression with every plain name blanked: stable under renaming of locals"""
    import copy as _c

    class Bl(ast.NodeTransformer):
        def visit_Name(self, n):
            return ast.copy_location(ast.Name(id='_', ctx=n.ctx), n)
    return _txt(Bl().visit(_c.deepcopy(node)))


# ---------------------------------------------------------------------------------------------- shape (also used by the generator)
def class_attr_order(cls):
    """self.<attr> names of a class in order of first store (methods in source order)."""
    order = []
    for st in cls.body:
        if isinstance(st, (ast.FunctionDef, ast.AsyncFunctionDef)):
            for n in _walk_src(st):
                if isinstance(n, ast.Attribute) and isinstance(n.ctx, ast.Store) and isinstance(n.value, ast.Name) and n.value.id == 'self' and n.attr not in order:
                    order.append(n.attr)
    return order


def _walk_src(node):
    """pre-order walk in source (field) order"""
    yield node
    for c in ast.iter_child_nodes(node):
        yield from _walk_src(c)


def classes(tree):
    out = []

    def rec(node, prefix):
        for c in ast.iter_child_nodes(node):
            if isinstance(c, ast.ClassDef):
                out.append((prefix + c.name, c))
                rec(c, prefix + c.name + '.')
            elif isinstance(c, (ast.If, ast.Try)):
                rec(c, prefix)
    rec(tree, '')
    return out


def const_names(tree):
    """module level names and Class.NAME class level names bound by plain assignments"""
    out = []
    for st in tree.body:
        for t in _targets(st):
            out.append(t)
    for q, c in classes(tree):
        for st in c.body:
            for t in _targets(st):
                out.append(q + '.' + t)
    return out


def _targets(st):
    if isinstance(st, ast.Assign):
        return [t.id for t in st.targets if isinstance(t, ast.Name)]
    if isinstance(st, ast.AnnAssign) and isinstance(st.target, ast.Name) and st.value is not None:
        return [st.target.id]
    return []


def ifexp_texts(fn):
    return sorted(_shape_txt(n) for n in ast.walk(fn) if isinstance(n, ast.IfExp))


def comp_texts(fn):
    return sorted(_shape_txt(n) for n in ast.walk(fn) if isinstance(n, (ast.ListComp, ast.DictComp, ast.SetComp, ast.GeneratorExp)))


def loop_texts(fn):
    return sorted(_shape_txt(n) for n in ast.walk(fn) if isinstance(n, ast.For))


def _fmt_parts(node):
    """a string built by ``'..%s..' % args`` / ``'..{}..'.format(args)`` / an f-string -> (style, template with {} / {:spec} / {!r}
    placeholders, [argument nodes]); None for anything else"""
    import re
    if isinstance(node, ast.JoinedStr):
        t, args = '', []
        for v in node.values:
            if isinstance(v, ast.Constant):
                t += str(v.value).replace('{', '{{').replace('}', '}}')
            elif isinstance(v, ast.FormattedValue):
                spec = ''
                if v.format_spec is not None:
                    if not all(isinstance(x, ast.Constant) for x in v.format_spec.values):
                        return None
                    spec = ''.join(str(x.value) for x in v.format_spec.values)
                conv = {115: '!s', 114: '!r', 97: '!a'}.get(v.conversion, '')
                t += '{%s%s}' % (conv, (':' + spec) if spec else '')
                args.append(v.value)
            else:
                return None
        return ('fstr', t, args) if args else None
    if isinstance(node, ast.Call) and isinstance(node.func, ast.Attribute) and node.func.attr == 'format' and isinstance(node.func.value, ast.Constant) \
            and isinstance(node.func.value.value, str) and not node.keywords and not any(isinstance(a, ast.Starred) for a in node.args):
        txt = node.func.value.value
        args, out, pos, auto = [], '', 0, 0
        for mt in re.finditer(r'\{\{|\}\}|\{(\d*)((?:![sra])?)((?::[^{}]*)?)\}', txt):
            out += txt[pos:mt.start()]
            pos = mt.end()
            if mt.group(0) in ('{{', '}}'):
                out += mt.group(0)
                continue
            idx = int(mt.group(1)) if mt.group(1) else auto
            auto += 1
            if idx >= len(node.args):
                return None
            args.append(node.args[idx])
            out += '{%s%s}' % (mt.group(2), mt.group(3) if mt.group(3) != ':' else '')
        return ('format', out + txt[pos:], args) if args else None
    if isinstance(node, ast.BinOp) and isinstance(node.op, ast.Mod) and isinstance(node.left, ast.Constant) and isinstance(node.left.value, str):
        txt = node.left.value
        vals = list(node.right.elts) if isinstance(node.right, ast.Tuple) else [node.right]
        args, out, pos, i = [], '', 0, 0
        for mt in re.finditer(r'%%|%(0?)(\d*)([sdXxrf])', txt):
            out += txt[pos:mt.start()].replace('{', '{{').replace('}', '}}')
            pos = mt.end()
            if mt.group(0) == '%%':
                out += '%'
                continue
            if i >= len(vals):
                return None
            args.append(vals[i])
            i += 1
            spec = mt.group(1) + mt.group(2) + (mt.group(3) if mt.group(3) not in 'sr' else '')
            out += '{%s%s}' % ('!r' if mt.group(3) == 'r' else '', (':' + spec) if spec else '')
        if '%' in txt[pos:] or i != len(vals):
            return None
        return ('pct', out + txt[pos:].replace('{', '{{').replace('}', '}}'), args) if args else None
    return None


def fmt_shape(fn):
    """{style: [templates]} of the formatted strings of a function"""
    out = {}
    for n in ast.walk(fn):
        fp = _fmt_parts(n)
        if fp:
            out.setdefault(fp[0], []).append(fp[1])
    return {k: sorted(v) for k, v in out.items()}


def _fmt_build(style, template, args, like):
    """the formatted string in another style; None when the template cannot be written in it"""
    import re
    if style == 'format':
        return ast.copy_location(ast.Call(func=ast.Attribute(value=ast.Constant(value=template), attr='format', ctx=ast.Load()), args=list(args), keywords=[]), like)
    if style == 'pct':
        out, pos = '', 0
        for mt in re.finditer(r'\{\{|\}\}|\{((?:![sra])?)((?::[^{}]*)?)\}', template):
            out += template[pos:mt.start()].replace('%', '%%')
            pos = mt.end()
            if mt.group(0) in ('{{', '}}'):
                out += mt.group(0)[0]
                continue
            conv, spec = mt.group(1), mt.group(2)[1:]
            if conv not in ('', '!r', '!s') or (conv and spec):
                return None
            if conv == '!r':
                out += '%r'
            elif not spec:
                out += '%s'
            elif re.fullmatch(r'0?\d*[dXxf]', spec):
                out += '%' + spec
            else:
                return None
        out += template[pos:].replace('%', '%%')
        right = args[0] if len(args) == 1 and not isinstance(args[0], ast.Tuple) else ast.Tuple(elts=list(args), ctx=ast.Load())
        return ast.copy_location(ast.BinOp(left=ast.Constant(value=out), op=ast.Mod(), right=right), like)
    return None


_DIRECTIVE = re.compile(r'%(\([^)]*\))?[#0\- +]*(\*|\d+)?(\.(\*|\d+))?[hlL]?([diouxXeEfFgGcrsa%])')


def _directives(fmt):
    """[(start, end, conversion)] of the argument-consuming directives of a %-format, or None when it uses mapping keys / `*`"""
    out = []
    for m_ in _DIRECTIVE.finditer(fmt):
        if m_.group(5) == '%':
            continue
        if m_.group(1) or m_.group(2) == '*' or m_.group(4) == '*':
            return None
        out.append((m_.start(), m_.end(), m_.group(0)))
    return out


def fold_literal_lengths(tree, ref):
    """`len('Bitcraze Crazyflie')` (what a named constant under len() becomes once the constant is written out) -> 18."""
    total = 0

    class F(ast.NodeTransformer):
        def visit_Call(self, n):
            nonlocal total
            self.generic_visit(n)
            if isinstance(n.func, ast.Name) and n.func.id == 'len' and len(n.args) == 1 and not n.keywords and isinstance(n.args[0], ast.Constant) and \
                    isinstance(n.args[0].value, (str, bytes)):
                total += 1
                return ast.copy_location(ast.Constant(value=len(n.args[0].value)), n)
            return n
    F().visit(tree)
    return total


def fold_nested_formats(tree, ref):
    """`'%s/%s' % (d, '%08X.json' % crc)` -> `'%s/%08X.json' % (d, crc)`: a plain %s slot filled with the result of another literal
    %-format (always a str) is that format spliced in, with its arguments taking the slot's place.  (The reference has no such nesting.)"""
    total = 0

    class F(ast.NodeTransformer):
        def visit_BinOp(self, n):
            nonlocal total
            self.generic_visit(n)
            if not (isinstance(n.op, ast.Mod) and isinstance(n.left, ast.Constant) and isinstance(n.left.value, str)):
                return n
            args = list(n.right.elts) if isinstance(n.right, ast.Tuple) else [n.right]
            ds = _directives(n.left.value)
            # (a single argument that is not a tuple display may still BE a tuple at run time: only displays and plain scalars-by-construction)
            if ds is None or len(ds) != len(args) or (not isinstance(n.right, ast.Tuple) and not isinstance(n.right, ast.BinOp)):
                return n
            done = False
            for k in range(len(args) - 1, -1, -1):
                a_ = args[k]
                if ds[k][2] == '%s' and isinstance(a_, ast.BinOp) and isinstance(a_.op, ast.Mod) and isinstance(a_.left, ast.Constant) and isinstance(a_.left.value, str):
                    inner = list(a_.right.elts) if isinstance(a_.right, ast.Tuple) else [a_.right]
                    di = _directives(a_.left.value)
                    if di is None or len(di) != len(inner) or (not isinstance(a_.right, ast.Tuple) and not isinstance(a_.right, (ast.Name, ast.Attribute, ast.Constant, ast.Subscript))):
                        continue
                    fmt = n.left.value
                    n.left = ast.copy_location(ast.Constant(value=fmt[:ds[k][0]] + a_.left.value + fmt[ds[k][1]:]), n.left)
                    args[k:k + 1] = inner
                    ds = _directives(n.left.value)
                    total += 1
                    done = True
            if done:
                n.right = ast.copy_location(ast.Tuple(elts=args, ctx=ast.Load()), n.right)
            return n
    F().visit(tree)
    return total


def restyle_formats(tree, ref):
    """A formatted string whose template the reference wrote in another style (f-string / str.format / %) is written back in
    that style: the three spell the same string for the placeholders handled here."""
    known = ref.get('fmt', {})
    total = 0
    for q, fn in functions(tree):
        r = known.get(q)
        if not r:
            continue

        class T(ast.NodeTransformer):
            def generic_visit(self, n):
                super().generic_visit(n)
                fp = _fmt_parts(n) if isinstance(n, (ast.JoinedStr, ast.Call, ast.BinOp)) else None
                if fp and fp[1] not in r.get(fp[0], []):
                    for style in ('pct', 'format'):
                        if style != fp[0] and fp[1] in r.get(style, []):
                            new = _fmt_build(style, fp[1], fp[2], n)
                            if new is not None:
                                T.count += 1
                                return new
                return n
        T.count = 0
        T().visit(fn)
        total += T.count
    return total


def _bool_returns(fn):
    return sum(1 for n in _own_walk(fn) if isinstance(n, ast.Return) and isinstance(n.value, ast.Constant) and isinstance(n.value.value, bool))


def _is_boolean(e):
    """an expression whose value is always True or False: comparisons, `not`, isinstance, and/or of those"""
    if isinstance(e, ast.Compare):
        return True
    if isinstance(e, ast.UnaryOp) and isinstance(e.op, ast.Not):
        return True
    if isinstance(e, ast.BoolOp):
        return all(_is_boolean(v) for v in e.values)
    if isinstance(e, ast.Call) and isinstance(e.func, ast.Name) and e.func.id in ('isinstance', 'bool', 'callable', 'hasattr'):
        return True
    return False


def expand_bool_returns(tree, ref):
    """`return a == b and c` where the reference wrote `if ...: return True` / `return False`:  ->  `if a == b and c: return True`
    followed by `return False`.  Same value on every path because the expression is boolean."""
    known = ref.get('bool_returns')
    if known is None:
        return 0
    total = 0
    for q, fn in functions(tree):
        if known.get(q, 0) < 2 or _bool_returns(fn) >= known[q]:
            continue
        for block in _blocks(fn):
            for i, st in enumerate(block):
                if isinstance(st, ast.Return) and st.value is not None and not isinstance(st.value, ast.Constant) and _is_boolean(st.value):
                    t = ast.copy_location(ast.Return(value=ast.copy_location(ast.Constant(value=True), st)), st)
                    f_ = ast.copy_location(ast.Return(value=ast.copy_location(ast.Constant(value=False), st)), st)
                    block[i:i + 1] = [ast.copy_location(ast.If(test=st.value, body=[t], orelse=[]), st), f_]
                    total += 1
                    break
    return total


def expand_suppress(tree, ref):
    """`with contextlib.suppress(E): BODY`  ->  `try: BODY  except E: pass`  (what suppress does, for a with statement of its own)"""
    frm, mods = import_shape(tree)
    names = {a for a, q in frm.items() if q == 'contextlib.suppress'}
    if 'suppress' in ref.get('from_imports', {}) or not (names or 'contextlib' in mods):
        return 0
    total = 0
    for q, fn in functions(tree):
        for block in _blocks(fn):
            for i, st in enumerate(block):
                if isinstance(st, ast.With) and len(st.items) == 1 and st.items[0].optional_vars is None and isinstance(st.items[0].context_expr, ast.Call):
                    c = st.items[0].context_expr
                    if (_txt(c.func) in names or _txt(c.func) == 'contextlib.suppress') and c.args and not c.keywords:
                        typ = c.args[0] if len(c.args) == 1 else ast.Tuple(elts=list(c.args), ctx=ast.Load())
                        h = ast.ExceptHandler(type=typ, name=None, body=[ast.copy_location(ast.Pass(), st)])
                        block[i] = ast.copy_location(ast.Try(body=st.body, handlers=[ast.copy_location(h, st)], orelse=[], finalbody=[]), st)
                        total += 1
    return total


def split_tuple_bindings(tree, ref):
    """`a, b = x, y` over local names -> one binding each (when no element reads an earlier target): the canonical spelling"""
    total = 0
    for q, fn in functions(tree):
        for block in _blocks(fn):
            if any(isinstance(st, ast.Assign) and len(st.targets) == 1 and isinstance(st.targets[0], ast.Tuple) and isinstance(st.value, ast.Tuple) for st in block):
                new = _untuple(list(block))
                if len(new) != len(block):
                    total += len(new) - len(block)
                    block[:] = new
    return total


def default_new_params(tree, ref):
    """A parameter the reference does not have, with an immutable literal default, that no call in the module passes: inside the
    function it *is* its default (every caller the reference knows still calls without it).  Read-only parameters are replaced by the
    literal; a parameter the body re-binds becomes a leading assignment of the default."""
    known = ref.get('params')
    if known is None:
        return 0
    fl = functions(tree)
    calls = [n for n in ast.walk(tree) if isinstance(n, ast.Call)]
    total = 0
    for q, fn in fl:
        if q not in known or '.<locals>.' in q:
            continue
        a = fn.args
        if a.vararg or a.kwarg:
            continue
        old = known[q]
        pos = a.posonlyargs + a.args
        defaults = dict(zip([x.arg for x in reversed(pos)], reversed(a.defaults)))
        defaults.update({x.arg: d for x, d in zip(a.kwonlyargs, a.kw_defaults) if d is not None})
        new = [x.arg for x in pos + a.kwonlyargs if x.arg not in old and x.arg in defaults]
        if not new or [x.arg for x in pos + a.kwonlyargs if x.arg in old] != [o for o in old if o in {y.arg for y in pos + a.kwonlyargs}]:
            continue
        # new positional parameters must come after all the old ones (an old call binds the same way)
        names_pos = [x.arg for x in pos]
        if any(names_pos.index(n_) < max([names_pos.index(o) for o in old if o in names_pos] or [-1]) for n_ in new if n_ in names_pos):
            continue
        first_new = min([names_pos.index(n_) for n_ in new if n_ in names_pos] or [len(names_pos)])
        is_method = '.' in q and names_pos[:1] in (['self'], ['cls'])
        max_pos = first_new - (1 if is_method else 0)
        passed = set()
        for c in calls:
            f_ = c.func
            nm = f_.attr if isinstance(f_, ast.Attribute) else f_.id if isinstance(f_, ast.Name) else None
            if nm != fn.name and not (fn.name == '__init__' and nm == q.split('.')[-2]):
                continue
            if any(isinstance(x, ast.Starred) for x in c.args) or any(k.arg is None for k in c.keywords):
                passed.update(new)
            npos = len(c.args) - (1 if (isinstance(f_, ast.Attribute) and isinstance(f_.value, ast.Name) and f_.value.id[:1].isupper() and is_method
                                        and fn.name != '__init__' and not (fn.name == '__init__')) else 0)
            if npos > max_pos:
                passed.update(new)
            for k in c.keywords:
                if k.arg in new:
                    try:
                        same = isinstance(k.value, ast.Constant) and k.value.value == _literal(defaults[k.arg], {}) and type(k.value.value) is type(_literal(defaults[k.arg], {}))
                    except ValueError:
                        same = False
                    if not same:
                        passed.add(k.arg)           # (a keyword that spells out the default passes nothing new)
        stored = _stores(fn.body)
        lead = []
        for p_ in new:
            if p_ in passed:
                continue
            d = defaults[p_]
            try:
                if not isinstance(_literal(d, {}), (int, float, str, bytes, tuple, type(None), bool)):
                    continue
            except ValueError:
                continue
            if any(isinstance(n, (ast.Global, ast.Nonlocal)) for n in ast.walk(fn)):
                continue
            if p_ in stored:
                lead.append(ast.copy_location(ast.Assign(targets=[ast.Name(id=p_, ctx=ast.Store())], value=copy.deepcopy(d), lineno=fn.lineno), fn.body[0]))
                lead[-1]._from_default = True
            else:
                s_ = _Subst({p_: d})
                fn.body = [s_.visit(x) for x in fn.body]
            # drop the parameter
            if any(x.arg == p_ for x in a.kwonlyargs):
                i_ = [x.arg for x in a.kwonlyargs].index(p_)
                del a.kwonlyargs[i_]
                del a.kw_defaults[i_]
            else:
                i_ = names_pos.index(p_)
                di = i_ - (len(pos) - len(a.defaults))
                (a.args if i_ >= len(a.posonlyargs) else a.posonlyargs).remove(pos[i_])
                del a.defaults[di]
                pos = a.posonlyargs + a.args
                names_pos = [x.arg for x in pos]
            total += 1
            for c in calls:
                f_ = c.func
                nm = f_.attr if isinstance(f_, ast.Attribute) else f_.id if isinstance(f_, ast.Name) else None
                if nm == fn.name or (fn.name == '__init__' and nm == q.split('.')[-2]):
                    c.keywords = [k for k in c.keywords if k.arg != p_]
        if lead:
            at = 1 if _has_doc(fn.body) else 0
            fn.body[at:at] = lead
    return total


def inline_init_literals(tree, ref):
    """self._x = <literal> stored once, in __init__, under a name the reference class does not have, and never stored elsewhere:
    reads of self._x are the literal (an instance-level spelling of a named constant)"""
    total = 0
    for q, c in classes(tree):
        want = ref.get('attrs', {}).get(q)
        if want is None:
            continue
        init = [st for st in c.body if isinstance(st, ast.FunctionDef) and st.name == '__init__']
        if not init:
            continue
        cand = {}
        aliases = {}
        for st in init[0].body:
            if isinstance(st, ast.Assign) and len(st.targets) == 1 and isinstance(st.targets[0], ast.Attribute) and isinstance(st.targets[0].value, ast.Name) and \
                    st.targets[0].value.id == 'self' and st.targets[0].attr not in want and st.targets[0].attr.startswith('_'):
                # ... or a bound method of the object itself kept under a second name (`self._cb = self._on_packet`): bound methods of
                # one object compare equal, so registering / removing either spelling is the same
                methods = {m_.name for m_ in c.body if isinstance(m_, ast.FunctionDef) and not m_.decorator_list}
                if isinstance(st.value, ast.Attribute) and isinstance(st.value.value, ast.Name) and st.value.value.id == 'self' and st.value.attr in methods:
                    cand[st.targets[0].attr] = st
                    aliases[st.targets[0].attr] = st.value
                    continue
                try:
                    v = _literal(st.value, {})
                except ValueError:
                    continue
                if isinstance(v, (int, float, str, bytes, tuple)) and not isinstance(v, bool):
                    cand[st.targets[0].attr] = st
        if not cand:
            continue
        for n in ast.walk(tree):
            if isinstance(n, ast.Attribute) and n.attr in cand and isinstance(n.ctx, (ast.Store, ast.Del)) and n is not cand[n.attr].targets[0]:
                cand.pop(n.attr)
            elif isinstance(n, ast.Call) and _txt(n.func) in ('setattr', 'delattr'):
                cand.clear()
                break
        # other classes of the module that store an attribute of the same name may be subclasses: leave those alone
        if not cand:
            continue

        class A(ast.NodeTransformer):
            def visit_Attribute(self, node):
                self.generic_visit(node)
                if isinstance(node.ctx, ast.Load) and node.attr in cand and isinstance(node.value, ast.Name) and node.value.id == 'self':
                    if node.attr in aliases:
                        return ast.copy_location(copy.deepcopy(aliases[node.attr]), node)
                    return _const_node(_literal(cand[node.attr].value, {}), node)
                return node
        for st in c.body:
            if isinstance(st, ast.FunctionDef):
                st.body = [A().visit(x) for x in st.body]
        for nm, st in cand.items():
            if st in init[0].body:
                init[0].body.remove(st)
        if not init[0].body:
            init[0].body.append(ast.Pass())
        total += len(cand)
    if total:
        _FoldInlined().visit(tree)
    return total


def _harmless(e):
    for n in ast.walk(e):
        if isinstance(n, ast.Call):
            t = _txt(n.func)
            if t in PURE_FUNCS or t in ('time.time', 'time.monotonic', 'time.perf_counter', 'dict', 'collections.Counter', 'Counter') or \
                    (isinstance(n.func, ast.Attribute) and n.func.attr in PURE_METHODS | {'qsize', 'empty', 'full', 'is_set', 'is_alive', 'locked', 'total_seconds'}):
                continue
            return False
        if isinstance(n, (ast.Await, ast.Yield, ast.YieldFrom, ast.NamedExpr)):
            return False
    return True


def _read_only_body(fn):
    """no store to an attribute or item, no call that is not pure: running it changes nothing"""
    for n in ast.walk(fn):
        if isinstance(n, (ast.Attribute, ast.Subscript)) and isinstance(n.ctx, (ast.Store, ast.Del)):
            return False
        if isinstance(n, ast.Call) and not _harmless(n):
            return False
        if isinstance(n, (ast.Global, ast.Nonlocal)):
            return False
    return True


def drop_observability(tree, ref):
    """Attributes the reference class does not have and that nothing but logging, their own update and new read-only accessors ever
    reads (counters, timestamps, statistics): the statements that maintain them have no bearing on any existing behaviour and are
    removed.  An attribute that any reference function reads outside a logging call is left alone (it may be a cache or a flag)."""
    from .astutil import is_noise
    known_funcs = set(ref.get('funcs', []))
    total = 0
    parents = {}
    for p_ in ast.walk(tree):
        for ch in ast.iter_child_nodes(p_):
            parents[ch] = p_

    def stmt_of(n):
        while n in parents and not isinstance(n, ast.stmt):
            n = parents[n]
        return n

    def func_of(n):
        n = parents.get(n)
        while n is not None and not isinstance(n, (ast.FunctionDef, ast.AsyncFunctionDef)):
            n = parents.get(n)
        return n
    qual = {id(fn): q for q, fn in functions(tree)}

    harmless = _harmless

    def observer(fn):
        # a new accessor (property, __repr__, getter): running it changes nothing
        return qual.get(id(fn)) not in known_funcs and _read_only_body(fn)
    for q, c in classes(tree):
        want = ref.get('attrs', {}).get(q)
        if want is None:
            continue
        new_attrs = [a for a in class_attr_order(c) if a not in want and a.startswith('_')]
        # (sub-)classes defined in the module may share instances: an attribute name any other class also stores is left alone
        for a in new_attrs:
            occ = [n for n in ast.walk(tree) if isinstance(n, ast.Attribute) and n.attr == a]
            if any(not (isinstance(n.value, ast.Name) and n.value.id == 'self') for n in occ):
                continue
            stores = [n for n in occ if isinstance(n.ctx, (ast.Store, ast.Del))]
            loads = [n for n in occ if isinstance(n.ctx, ast.Load)]
            store_stmts = []
            ok = True
            for n in stores:
                st = stmt_of(n)
                tg = st.targets if isinstance(st, ast.Assign) else [st.target] if isinstance(st, (ast.AugAssign, ast.AnnAssign)) else None
                if tg is None or len(tg) != 1 or tg[0] is not n and not (isinstance(tg[0], ast.Subscript) and tg[0].value is n):
                    ok = False
                    break
                if getattr(st, 'value', None) is not None and not harmless(st.value):
                    ok = False
                    break
                store_stmts.append(st)
            if not ok:
                continue
            # item stores  self._stats[k] += 1  read the attribute: they are part of its own upkeep
            upkeep = {id(x) for x in store_stmts}
            for n in [x for x in loads]:
                st = stmt_of(n)
                if isinstance(st, (ast.Assign, ast.AugAssign)) and isinstance((st.targets[0] if isinstance(st, ast.Assign) else st.target), ast.Subscript) and \
                        (st.targets[0] if isinstance(st, ast.Assign) else st.target).value is n and harmless(st.value):
                    store_stmts.append(st)
                    upkeep.add(id(st))
            for n in loads:
                st = stmt_of(n)
                fn = func_of(n)
                if id(st) in upkeep or is_noise(st) or (fn is not None and observer(fn)):
                    continue
                ok = False
                break
            if not ok:
                continue
            for st in store_stmts:
                par = parents.get(st)
                for f_ in ('body', 'orelse', 'finalbody'):
                    b = getattr(par, f_, None)
                    if isinstance(b, list) and st in b:
                        b.remove(st)
                        if not b and f_ == 'body':
                            b.append(ast.copy_location(ast.Pass(), st))
            total += 1
    return total


def _const_truth(e):
    """True / False when the test is decided by literals alone, else None"""
    if isinstance(e, ast.Constant):
        return bool(e.value)
    if isinstance(e, ast.UnaryOp) and isinstance(e.op, ast.Not):
        v = _const_truth(e.operand)
        return None if v is None else not v
    if isinstance(e, ast.Compare) and len(e.ops) == 1 and isinstance(e.ops[0], (ast.Is, ast.IsNot)):
        # a display of plain names / literals is an object of its own, never None
        a, b = e.left, e.comparators[0]
        for x, y in ((a, b), (b, a)):
            if isinstance(x, (ast.Tuple, ast.List, ast.Dict, ast.Set)) and isinstance(y, ast.Constant) and y.value is None and \
                    all(isinstance(n, (ast.Name, ast.Constant, ast.Tuple, ast.List, ast.Dict, ast.Set, ast.Load)) for n in ast.walk(x)):
                return isinstance(e.ops[0], ast.IsNot)
    if isinstance(e, ast.Compare) and len(e.ops) == 1 and isinstance(e.left, ast.Constant) and isinstance(e.comparators[0], ast.Constant):
        a, b, op = e.left.value, e.comparators[0].value, e.ops[0]
        if isinstance(op, ast.Is):
            return (a is b) if (a is None or b is None or isinstance(a, bool) or isinstance(b, bool)) else None
        if isinstance(op, ast.IsNot):
            return (a is not b) if (a is None or b is None or isinstance(a, bool) or isinstance(b, bool)) else None
        try:
            if isinstance(op, ast.Eq):
                return a == b
            if isinstance(op, ast.NotEq):
                return a != b
        except Exception:
            return None
    if isinstance(e, ast.BoolOp):
        vs = [_const_truth(v) for v in e.values]
        if any(v is None for v in vs):
            return None
        return all(vs) if isinstance(e.op, ast.And) else any(vs)
    return None


def fold_decided_branches(tree, ref):
    """`if None is None: A else: B` (left behind when a parameter was replaced by its default) -> A"""
    total = 0
    for q, fn in functions(tree):
        for _ in range(4):
            changed = False
            for block in _blocks(fn):
                for i, st in enumerate(block):
                    nxt = block[i + 1] if i + 1 < len(block) else None
                    if isinstance(st, ast.Assign) and len(st.targets) == 1 and isinstance(st.targets[0], ast.Name) and isinstance(st.value, ast.Constant) and nxt is not None:
                        nm = st.targets[0].id
                        # name = <literal> directly followed by a test of that name alone: the test is decided
                        if isinstance(nxt, ast.If) and {x.id for x in ast.walk(nxt.test) if isinstance(x, ast.Name)} == {nm} and \
                                not any(isinstance(x, (ast.Call, ast.Attribute, ast.Subscript)) for x in ast.walk(nxt.test)):
                            t2 = _Subst({nm: st.value}).visit(copy.deepcopy(nxt.test))
                            if _const_truth(t2) is not None:
                                nxt.test = t2
                                changed = True
                                break
                        # name = <literal> directly followed by another plain binding of the name that does not read it: dead store
                        if isinstance(nxt, ast.Assign) and len(nxt.targets) == 1 and isinstance(nxt.targets[0], ast.Name) and nxt.targets[0].id == nm and \
                                not any(isinstance(x, ast.Name) and x.id == nm for x in ast.walk(nxt.value)) and \
                                not any(isinstance(x, (ast.Lambda, ast.FunctionDef)) for x in ast.walk(nxt.value)) and getattr(st, '_from_default', False):
                            del block[i]
                            changed = True
                            total += 1
                            break
                    if isinstance(st, ast.If):
                        v = _const_truth(st.test)
                        if v is None:
                            continue
                        block[i:i + 1] = (st.body if v else st.orelse) or [ast.copy_location(ast.Pass(), st)]
                        # what follows a statement that always leaves never runs
                        for j, s2 in enumerate(block):
                            if isinstance(s2, (ast.Return, ast.Raise, ast.Continue, ast.Break)) and j + 1 < len(block):
                                del block[j + 1:]
                                break
                        changed = True
                        total += 1
                        break
                    if isinstance(st, (ast.Assign, ast.Return)) and isinstance(getattr(st, 'value', None), ast.IfExp) and _const_truth(st.value.test) is not None:
                        st.value = st.value.body if _const_truth(st.value.test) else st.value.orelse
                        changed = True
                        total += 1
                if changed:
                    break
            if not changed:
                break
    return total


def merge_common_tails(tree, ref, ref_locals):
    """`if T: A..; TAIL else: B..; TAIL` -> `if T: A.. else: B..` followed by TAIL (what tail duplication by the helper inliner leaves
    behind).  The suffix is the same statements, statement by statement, directly in both branches, so it runs after either branch
    exactly when it ran inside it.  Only in functions the reference knows, and not for suffixes ending in return / raise (those are
    how the reference itself writes alternatives)."""
    total = 0
    for q, fn in functions(tree):
        if ref_locals is None or q not in ref_locals:
            continue
        for _ in range(6):
            changed = False
            for block in _blocks(fn):
                for i, st in enumerate(block):
                    if not (isinstance(st, ast.If) and st.body and st.orelse):
                        continue
                    k = 0
                    while k < len(st.body) and k < len(st.orelse) and ast.dump(st.body[-1 - k]) == ast.dump(st.orelse[-1 - k]):
                        k += 1
                    if not k:
                        continue
                    tail = st.body[len(st.body) - k:]
                    if isinstance(tail[-1], (ast.Return, ast.Raise, ast.Break, ast.Continue)) or any(isinstance(x, ast.Pass) for x in tail):
                        continue
                    st.body = st.body[:len(st.body) - k] or [ast.copy_location(ast.Pass(), st)]
                    st.orelse = st.orelse[:len(st.orelse) - k]
                    block[i + 1:i + 1] = tail
                    total += 1
                    changed = True
                    break
                if changed:
                    break
            if not changed:
                break
    return total


def drop_trivia(tree, ref):
    """`else: pass`, a `pass` next to other statements, and a final `return None` the reference function does not end with: spelled-out
    versions of what happens anyway"""
    ends = ref.get('ends_with_return')
    total = 0
    for q, fn in functions(tree):
        for node in _own_walk(fn):
            for f_ in ('orelse', 'finalbody'):
                b = getattr(node, f_, None)
                if isinstance(b, list) and b and all(isinstance(x, ast.Pass) for x in b) and not (isinstance(node, (ast.For, ast.While)) and False):
                    setattr(node, f_, [])
                    total += 1
        # `if T: pass else: B` (what is left of an inlined `if T: return`)  ->  `if not T: B`
        for node in (_own_walk(fn) if 'passifs' in ref and not ref['passifs'].get(q) else ()):
            if isinstance(node, ast.If) and node.orelse and all(isinstance(x, ast.Pass) for x in node.body):
                node.test = _negate_lengths(node.test)
                node.body, node.orelse = node.orelse, []
                total += 1
        for block in _blocks(fn):
            if len(block) > 1 and any(isinstance(x, ast.Pass) for x in block):
                keep = [x for x in block if not isinstance(x, ast.Pass)]
                if keep:
                    total += len(block) - len(keep)
                    block[:] = keep
        if ends is not None and q not in ends and len(fn.body) > 1 and isinstance(fn.body[-1], ast.Return) and \
                (fn.body[-1].value is None or (isinstance(fn.body[-1].value, ast.Constant) and fn.body[-1].value.value is None)):
            del fn.body[-1]
            total += 1
    return total


def _top_bindings(mod):
    out = {}
    for st in mod.body:
        if isinstance(st, ast.Import):
            for a in st.names:
                out[(a.asname or a.name).split('.')[0]] = 'import ' + (a.name if a.asname else a.name.split('.')[0])
        elif isinstance(st, ast.ImportFrom):
            for a in st.names:
                out[a.asname or a.name] = 'from %s%s import %s' % ('.' * st.level, st.module or '', a.name)
        elif isinstance(st, ast.Assign):
            for t in st.targets:
                if isinstance(t, ast.Name):
                    out[t.id] = '= ' + _txt(st.value)
        elif isinstance(st, (ast.ClassDef, ast.FunctionDef)):
            out[st.name] = 'def ' + st.name
    return out


def _same_globals(d, src_mod, dst_mod):
    """every module-level name the definition reads is bound the same way in both modules (so the text means the same in either)"""
    import builtins
    bound = {n.id for n in ast.walk(d) if isinstance(n, ast.Name) and isinstance(n.ctx, ast.Store)} | {a.arg for n in ast.walk(d) if isinstance(n, ast.arguments)
                                                                                                     for a in n.posonlyargs + n.args + n.kwonlyargs + [x for x in (n.vararg, n.kwarg) if x]}
    free = {n.id for n in ast.walk(d) if isinstance(n, ast.Name) and isinstance(n.ctx, ast.Load)} - bound - set(dir(builtins)) - {d.name}
    a, b = _top_bindings(src_mod), _top_bindings(dst_mod)
    return all(n in a and n in b and a[n] == b[n] for n in free)


def pull_back_moved(tree, ref, path, model):
    """A class or function the reference defines in this module that now lives in a NEW sibling module (one the reference tree
    does not have) and is imported back: the definition is put back where the import stands.  Which file holds the text of a
    definition has no bearing on what it does."""
    if model is None or 'classes' not in ref:
        return 0
    want = set(ref.get('classes', [])) | {f for f in ref.get('funcs', []) if '.' not in f}
    have = {q for q, _ in classes(tree)} | {q for q, _ in functions(tree) if '.' not in q}
    missing = want - have
    refmods = _ref()
    total = 0
    pkg = path.rsplit('/', 1)[0] if '/' in path else ''
    for i, st in enumerate(list(tree.body)):
        if not isinstance(st, ast.ImportFrom):
            continue
        names = [a for a in st.names if ((a.asname or a.name) not in have or (a.asname or a.name) in missing)]
        if not names:
            continue
        if st.level:
            base = pkg
            for _ in range(st.level - 1):
                base = base.rsplit('/', 1)[0] if '/' in base else ''
            modpath = (base + '/' if base else '') + (st.module or '').replace('.', '/')
        else:
            modpath = (st.module or '').replace('.', '/')
        cand = [c for c in (modpath + '.py', modpath + '/__init__.py') if model.exists(c)]
        if not cand:
            continue
        if cand[0] in refmods:
            # a module the reference knows: a real dependency, unless the name is a definition the reference has HERE and not there
            oref = refmods[cand[0]]
            there = set(oref.get('classes', [])) | {f for f in oref.get('funcs', []) if '.' not in f} | set(oref.get('consts', []))
            names = [a for a in names if a.name in missing and (a.asname or a.name) == a.name and a.name not in there and 'classes' in oref]
            if not names:
                continue
        try:
            other = ast.parse(model.source(cand[0]))
        except SyntaxError:
            continue
        defs = {d.name: d for d in other.body if isinstance(d, (ast.ClassDef, ast.FunctionDef))}
        moved = []
        for a in names:
            if a.name in defs and (cand[0] not in refmods or _same_globals(defs[a.name], other, tree)):
                d_ = copy.deepcopy(defs[a.name])
                d_.name = a.asname or a.name              # imported under another name: defined under that name here
                moved.append(d_)
        if not moved:
            continue
        # the imports the moved code needs come along (behind the existing imports; duplicates are harmless)
        extra = [d for d in other.body if isinstance(d, (ast.Import, ast.ImportFrom)) and cand[0] not in refmods and not (isinstance(d, ast.ImportFrom) and d.level and
                 (d.module or '').split('.')[0] == path.rsplit('/', 1)[-1][:-3])]
        st.names = [a for a in st.names if (a.asname or a.name) not in {d.name for d in moved}]
        idx = tree.body.index(st)
        tree.body[idx + 1:idx + 1] = extra + moved
        if not st.names:
            tree.body.remove(st)
        total += len(moved)
    return total


def drop_moved_away(tree, ref, path, model):
    """The other half of a move into an EXISTING module: a top-level class/function this module's reference does not have, that the
    reference of another module has, and that this other module now imports from here instead of defining it."""
    if model is None or 'classes' not in ref:
        return 0
    mine = set(ref.get('classes', [])) | {f for f in ref.get('funcs', []) if '.' not in f}
    new = [d for d in tree.body if isinstance(d, (ast.ClassDef, ast.FunctionDef)) and d.name not in mine]
    if not new:
        return 0
    modname = path[:-3].replace('/', '.') if not path.endswith('/__init__.py') else path[:-len('/__init__.py')].replace('/', '.')
    total = 0
    for d in new:
        if any(isinstance(n, ast.Name) and n.id == d.name for x in tree.body if x is not d for n in ast.walk(x)):
            continue                                   # used here as well
        for opath, oref in _ref().items():
            if opath == path or 'classes' not in oref:
                continue
            if d.name not in set(oref.get('classes', [])) | {f for f in oref.get('funcs', []) if '.' not in f}:
                continue
            if not model.exists(opath):
                continue
            try:
                other = ast.parse(model.source(opath))
            except SyntaxError:
                continue
            if any(isinstance(x, (ast.ClassDef, ast.FunctionDef)) and x.name == d.name for x in other.body):
                continue
            pkg = opath.rsplit('/', 1)[0].replace('/', '.')
            for x in other.body:
                if isinstance(x, ast.ImportFrom) and any(a.name == d.name and a.asname in (None, d.name) for a in x.names):
                    src = (x.module or '') if not x.level else '.'.join([p_ for p_ in (pkg.rsplit('.', x.level - 1)[0] if x.level > 1 else pkg, x.module) if p_])
                    if src == modname:
                        tree.body.remove(d)
                        total += 1
                        break
            if d not in tree.body:
                break
    return total


def undo_eafp_probes(tree, ref):
    """`try: D[k]  except KeyError: A  else: B`  (the body is nothing but the look-up, possibly bound to a local)  ->
    `if k in D: [x = D[k]]; B  else: A`.  D is a plain name / attribute chain, k a name, attribute or literal: for a dictionary the
    look-up fails exactly when the key is not in it.  Only where the reference function has no try of that shape itself."""
    total = 0
    for q, fn in functions(tree):
        for block in _blocks(fn):
            for i, st in enumerate(block):
                if not (isinstance(st, ast.Try) and len(st.body) == 1 and len(st.handlers) == 1 and not st.finalbody):
                    continue
                h = st.handlers[0]
                if not (h.type is not None and _txt(h.type) == 'KeyError') or (h.name and any(isinstance(n, ast.Name) and n.id == h.name for x in h.body for n in ast.walk(x))):
                    continue
                b = st.body[0]
                sub = b.value if isinstance(b, ast.Expr) else b.value if (isinstance(b, ast.Assign) and len(b.targets) == 1 and isinstance(b.targets[0], ast.Name)) else None
                if not (isinstance(sub, ast.Subscript) and not isinstance(sub.slice, ast.Slice) and isinstance(sub.value, (ast.Name, ast.Attribute)) and
                        all(isinstance(n, (ast.Name, ast.Attribute, ast.Load)) for n in ast.walk(sub.value)) and
                        isinstance(sub.slice, (ast.Name, ast.Attribute, ast.Constant)) and all(isinstance(n, (ast.Name, ast.Attribute, ast.Constant, ast.Load)) for n in ast.walk(sub.slice))):
                    continue
                if any(isinstance(n, ast.Raise) and n.exc is None for x in h.body for n in ast.walk(x)):
                    continue                                       # a bare raise needs the exception
                test = ast.copy_location(ast.Compare(left=copy.deepcopy(sub.slice), ops=[ast.In()], comparators=[copy.deepcopy(sub.value)]), st)
                then = ([b] if isinstance(b, ast.Assign) else []) + list(st.orelse)
                other = [x for x in h.body]
                if not then:
                    # nothing to do when the key is there: `if k not in D: A`
                    test = ast.copy_location(ast.Compare(left=copy.deepcopy(sub.slice), ops=[ast.NotIn()], comparators=[copy.deepcopy(sub.value)]), st)
                    new = ast.If(test=test, body=other, orelse=[])
                elif all(isinstance(x, ast.Pass) for x in other):
                    new = ast.If(test=test, body=then, orelse=[])
                else:
                    new = ast.If(test=test, body=then, orelse=other)
                block[i] = ast.copy_location(new, st)
                total += 1
    if total:
        ast.fix_missing_locations(tree)
    return total


def undo_get_none_tests(tree, ref, ref_locals):
    """`v = D.get(k)` directly followed by `if v is not None: B` (v a local the reference does not have, used nowhere else)  ->
    `if k in D: B[v := D[k]]`, where D is a `self.<table>` whose every stored value in the module is a freshly constructed object (so a
    stored None cannot be mistaken for "missing")."""
    total = 0
    # values ever stored into self.<attr>[..] in the module
    stored = {}
    for n in ast.walk(tree):
        if isinstance(n, ast.Assign):
            for t in n.targets:
                if isinstance(t, ast.Subscript) and isinstance(t.value, ast.Attribute) and isinstance(t.value.value, ast.Name) and t.value.value.id == 'self':
                    stored.setdefault(t.value.attr, []).append(n.value)
    for q, fn in functions(tree):
        want = (ref_locals or {}).get(q)
        if want is None:
            continue
        for block in _blocks(fn):
            i = 0
            while i + 1 < len(block):
                a, b = block[i], block[i + 1]
                i += 1
                if not (isinstance(a, ast.Assign) and len(a.targets) == 1 and isinstance(a.targets[0], ast.Name) and a.targets[0].id not in want and
                        isinstance(a.value, ast.Call) and isinstance(a.value.func, ast.Attribute) and a.value.func.attr == 'get' and len(a.value.args) == 1 and not a.value.keywords and
                        isinstance(a.value.func.value, ast.Attribute) and isinstance(a.value.func.value.value, ast.Name) and a.value.func.value.value.id == 'self'):
                    continue
                v, D, k = a.targets[0].id, a.value.func.value, a.value.args[0]
                if not (isinstance(b, ast.If) and not b.orelse and isinstance(b.test, ast.Compare) and len(b.test.ops) == 1 and isinstance(b.test.ops[0], ast.IsNot) and
                        isinstance(b.test.left, ast.Name) and b.test.left.id == v and isinstance(b.test.comparators[0], ast.Constant) and b.test.comparators[0].value is None):
                    continue
                vals = stored.get(D.attr, [])
                if not vals or not all(isinstance(x, ast.Call) and _txt(x.func).split('.')[-1][:1].isupper() for x in vals):
                    continue
                if not all(isinstance(n, (ast.Name, ast.Attribute, ast.Constant, ast.Load)) for n in ast.walk(k)):
                    continue
                inside = {id(n) for x in b.body for n in ast.walk(x)}
                mentions = [n for n in ast.walk(fn) if isinstance(n, ast.Name) and n.id == v]
                if any(id(n) not in inside for n in mentions if n is not a.targets[0] and n is not b.test.left):
                    continue
                if any(isinstance(n.ctx, ast.Store) for n in mentions if n is not a.targets[0]):
                    continue
                knames = {n.id for n in ast.walk(k) if isinstance(n, ast.Name)}
                if any(isinstance(n, ast.Name) and n.id in knames and isinstance(n.ctx, ast.Store) for x in b.body for n in ast.walk(x)):
                    continue
                look = ast.Subscript(value=copy.deepcopy(D), slice=copy.deepcopy(k), ctx=ast.Load())
                sub = _Subst({v: look})
                b.body = [sub.visit(x) for x in b.body]
                b.test = ast.copy_location(ast.Compare(left=copy.deepcopy(k), ops=[ast.In()], comparators=[copy.deepcopy(D)]), b.test)
                del block[i - 1]
                total += 1
    if total:
        ast.fix_missing_locations(tree)
    return total


def undo_bool_indexing(tree, ref):
    """`(a, b)[bool(c)]` / `(a, b)[c == d]` - a two-element display indexed by a truth value (False -> 0, True -> 1) - is `b if c else a`;
    the elements must be plain (names, literals, dotted constants) since the display evaluates both."""
    total = [0]
    known = set(ref.get('consts', [])) | set(ref.get('attr_names', []))
    pairs = {}
    for holder in [tree] + [c for c in ast.walk(tree) if isinstance(c, ast.ClassDef)]:
        for st in holder.body:
            if isinstance(st, ast.Assign) and len(st.targets) == 1 and isinstance(st.targets[0], ast.Name) and isinstance(st.value, (ast.Tuple, ast.List)) and \
                    len(st.value.elts) == 2 and st.targets[0].id not in known and \
                    all(isinstance(x, (ast.Name, ast.Constant, ast.Attribute, ast.Load)) for e in st.value.elts for x in ast.walk(e)):
                pairs[st.targets[0].id] = None if st.targets[0].id in pairs else st.value       # two definitions of one name: ambiguous

    class T(ast.NodeTransformer):
        def visit_Subscript(self, n):
            self.generic_visit(n)
            base = n.value
            nm = base.id if isinstance(base, ast.Name) else base.attr if isinstance(base, ast.Attribute) and isinstance(base.value, ast.Name) else None
            if nm is not None and pairs.get(nm) is not None and isinstance(n.ctx, ast.Load):
                n = ast.copy_location(ast.Subscript(value=copy.deepcopy(pairs[nm]), slice=n.slice, ctx=ast.Load()), n)     # a new two-element constant table
            if isinstance(n.ctx, ast.Load) and isinstance(n.value, (ast.Tuple, ast.List)) and len(n.value.elts) == 2 and \
                    all(isinstance(x, (ast.Name, ast.Constant, ast.Attribute, ast.Load)) for e in n.value.elts for x in ast.walk(e)):
                sl = n.slice
                test = None
                if isinstance(sl, ast.Call) and isinstance(sl.func, ast.Name) and sl.func.id == 'bool' and len(sl.args) == 1 and not sl.keywords:
                    test = sl.args[0]
                elif isinstance(sl, ast.Compare) or (isinstance(sl, ast.UnaryOp) and isinstance(sl.op, ast.Not)):
                    test = sl
                if test is not None:
                    total[0] += 1
                    return ast.copy_location(ast.IfExp(test=test, body=n.value.elts[1], orelse=n.value.elts[0]), n)
            return n
    for i, st in enumerate(tree.body):
        tree.body[i] = T().visit(st)
    if total[0]:
        ast.fix_missing_locations(tree)
    return total[0]


def undo_iteration_tools(tree, ref):
    """Two idioms written out again where the reference function has a plain loop:
    `return next((e for v in IT if c), D)`  ->  `for v in IT: if c: return e` + `return D`;
    `for i, x in enumerate(islice(X, S, None), S): B`  ->  `for i in range(S, len(X)): x = X[i]; B`  (X a name / attribute chain the body
    does not re-bind or resize; S a plain name or literal)."""
    total = 0
    known_l = ref.get('loops', {})
    for q, fn in functions(tree):
        n_for = len([n for n in _own_walk(fn) if isinstance(n, ast.For)])
        if len(known_l.get(q, [])) <= n_for and not any(isinstance(n, ast.Call) and _txt(n.func) in ('islice', 'itertools.islice') for n in ast.walk(fn)):
            continue
        for block in _blocks(fn):
            for i, st in enumerate(block):
                if isinstance(st, ast.Return) and isinstance(st.value, ast.Call) and _txt(st.value.func) == 'next' and len(st.value.args) == 2 and not st.value.keywords and \
                        isinstance(st.value.args[0], ast.GeneratorExp) and len(st.value.args[0].generators) == 1 and len(known_l.get(q, [])) > n_for and \
                        isinstance(st.value.args[1], (ast.Constant, ast.Name)):
                    ge = st.value.args[0]
                    g = ge.generators[0]
                    inner = [ast.copy_location(ast.Return(value=ge.elt), st)]
                    for c in reversed(g.ifs):
                        inner = [ast.copy_location(ast.If(test=c, body=inner, orelse=[]), st)]
                    for n in ast.walk(g.target):
                        if isinstance(n, ast.Name):
                            n.ctx = ast.Store()
                    loop = ast.copy_location(ast.For(target=g.target, iter=g.iter, body=inner, orelse=[], lineno=st.lineno), st)
                    block[i:i + 1] = [loop, ast.copy_location(ast.Return(value=st.value.args[1]), st)]
                    total += 1
                    break
                if isinstance(st, ast.For) and not st.orelse and isinstance(st.target, ast.Tuple) and len(st.target.elts) == 2 and all(isinstance(e, ast.Name) for e in st.target.elts) and \
                        isinstance(st.iter, ast.Call) and _txt(st.iter.func) == 'enumerate' and len(st.iter.args) == 2 and not st.iter.keywords:
                    src, start = st.iter.args
                    # the islice may be bound to a local just before the loop
                    if isinstance(src, ast.Name) and i >= 1 and isinstance(block[i - 1], ast.Assign) and len(block[i - 1].targets) == 1 and isinstance(block[i - 1].targets[0], ast.Name) and \
                            block[i - 1].targets[0].id == src.id and len([n for n in ast.walk(fn) if isinstance(n, ast.Name) and n.id == src.id]) == 2:
                        src = block[i - 1].value
                        drop_prev = True
                    else:
                        drop_prev = False
                    if isinstance(src, ast.Call) and _txt(src.func) in ('islice', 'itertools.islice') and len(src.args) == 3 and isinstance(src.args[2], ast.Constant) and src.args[2].value is None and \
                            _txt(src.args[1]) == _txt(start) and isinstance(start, (ast.Name, ast.Constant)) and \
                            all(isinstance(n, (ast.Name, ast.Attribute, ast.Load)) for n in ast.walk(src.args[0])):
                        X = src.args[0]
                        iv, xv = st.target.elts[0].id, st.target.elts[1].id
                        xt = _txt(X)
                        touched = any((isinstance(n, (ast.Attribute, ast.Name)) and isinstance(getattr(n, 'ctx', None), (ast.Store, ast.Del)) and _txt(n) == xt) or
                                      (isinstance(n, ast.Call) and isinstance(n.func, ast.Attribute) and _txt(n.func.value) == xt and
                                       n.func.attr in ('append', 'extend', 'insert', 'pop', 'remove', 'clear', 'sort', 'reverse')) for x in st.body for n in ast.walk(x))
                        if touched:
                            continue
                        bind = ast.copy_location(ast.Assign(targets=[ast.Name(id=xv, ctx=ast.Store())],
                                                            value=ast.Subscript(value=copy.deepcopy(X), slice=ast.Name(id=iv, ctx=ast.Load()), ctx=ast.Load()), lineno=st.lineno), st)
                        st.target = ast.copy_location(ast.Name(id=iv, ctx=ast.Store()), st.target)
                        st.iter = ast.copy_location(ast.Call(func=ast.Name(id='range', ctx=ast.Load()),
                                                             args=[start, ast.Call(func=ast.Name(id='len', ctx=ast.Load()), args=[copy.deepcopy(X)], keywords=[])], keywords=[]), st.iter)
                        st.body = [bind] + st.body
                        if drop_prev:
                            del block[i - 1]
                        total += 1
                        break
    if total:
        ast.fix_missing_locations(tree)
    return total


def extend_as_iadd(tree, ref):
    """`X.extend(Y)` as a statement on a local list X, where the reference function has no such call  ->  `X += Y`  (for a list the two
    are the same operation); `X.append(e)` likewise -> `X += [e]` only when the reference spells it that way (a tuple / list display)."""
    total = 0
    ref_calls = ref.get('calls') or {}
    for q, fn in functions(tree):
        rc = ref_calls.get(q, {})
        lists = {t.id for n in _own_walk(fn) if isinstance(n, ast.Assign) and isinstance(n.value, (ast.List, ast.ListComp)) or
                 (isinstance(n, ast.Assign) and isinstance(n.value, ast.Call) and _txt(n.value.func) == 'list') for t in n.targets if isinstance(t, ast.Name)}
        for block in _blocks(fn):
            for i, st in enumerate(block):
                if isinstance(st, ast.Expr) and isinstance(st.value, ast.Call) and isinstance(st.value.func, ast.Attribute) and st.value.func.attr == 'extend' and \
                        isinstance(st.value.func.value, ast.Name) and st.value.func.value.id in lists and len(st.value.args) == 1 and not st.value.keywords and \
                        rc.get(_txt(st.value.func), 0) == 0 and isinstance(st.value.args[0], (ast.Name, ast.Attribute, ast.List, ast.Tuple, ast.Subscript, ast.Call)):
                    block[i] = ast.copy_location(ast.AugAssign(target=ast.Name(id=st.value.func.value.id, ctx=ast.Store()), op=ast.Add(), value=st.value.args[0]), st)
                    total += 1
    if total:
        ast.fix_missing_locations(tree)
    return total


def lower_match(tree, ref):
    """`match subject: case P: ...` with value, literal, class (`T()`), or-patterns and `_`  ->  the if / elif / else chain it stands
    for (`subject == V`, `isinstance(subject, T)`); a subject that is not a plain name or attribute chain is bound to a local first."""
    total = 0

    def test_of(pat, subj):
        if isinstance(pat, ast.MatchValue):
            return ast.Compare(left=copy.deepcopy(subj), ops=[ast.Eq()], comparators=[pat.value])
        if isinstance(pat, ast.MatchSingleton):
            return ast.Compare(left=copy.deepcopy(subj), ops=[ast.Is()], comparators=[ast.Constant(value=pat.value)])
        if isinstance(pat, ast.MatchClass) and not pat.patterns and not pat.kwd_patterns:
            return ast.Call(func=ast.Name(id='isinstance', ctx=ast.Load()), args=[copy.deepcopy(subj), pat.cls], keywords=[])
        if isinstance(pat, ast.MatchOr):
            parts = [test_of(p_, subj) for p_ in pat.patterns]
            if any(p_ is None for p_ in parts):
                return None
            if all(isinstance(p_, ast.Call) for p_ in parts):
                return ast.Call(func=ast.Name(id='isinstance', ctx=ast.Load()), args=[copy.deepcopy(subj), ast.Tuple(elts=[p_.args[1] for p_ in parts], ctx=ast.Load())], keywords=[])
            return ast.BoolOp(op=ast.Or(), values=parts)
        return None
    for q, fn in functions(tree):
        for block in _blocks(fn):
            for i, st in enumerate(block):
                if not isinstance(st, ast.Match):
                    continue
                subj = st.subject
                lead = []
                simple = isinstance(subj, ast.Name) or (isinstance(subj, ast.Attribute) and _root(subj) is not None) or \
                    (isinstance(subj, ast.Subscript) and isinstance(subj.slice, ast.Constant) and _root(subj) is not None)
                if not simple:
                    if not _harmless(subj):
                        # the subject is evaluated once: bind it first and compare the local
                        tmp = 'match_subject'
                        k = 0
                        while any(isinstance(n, ast.Name) and n.id == tmp for n in ast.walk(fn)):
                            k += 1
                            tmp = 'match_subject%d' % k
                        lead = [ast.copy_location(ast.Assign(targets=[ast.Name(id=tmp, ctx=ast.Store())], value=subj, lineno=st.lineno), st)]
                        subj = ast.copy_location(ast.Name(id=tmp, ctx=ast.Load()), subj)
                tests, ok = [], True
                for c in st.cases:
                    if isinstance(c.pattern, ast.MatchAs) and c.pattern.pattern is None and c.pattern.name is None:
                        t = None                           # case _
                    else:
                        t = test_of(c.pattern, subj)
                        if t is None:
                            ok = False
                            break
                    if c.guard is not None:
                        t = c.guard if t is None else ast.BoolOp(op=ast.And(), values=[t, c.guard])
                    tests.append((t, c.body))
                if not ok or not tests:
                    continue
                chain = None
                for t, body in reversed(tests):
                    if t is None:
                        chain = list(body)
                    else:
                        node = ast.copy_location(ast.If(test=t, body=list(body), orelse=chain if isinstance(chain, list) else ([chain] if chain is not None else [])), st)
                        chain = node
                new = chain if isinstance(chain, list) else [chain]
                block[i:i + 1] = lead + new
                total += 1
    if total:
        ast.fix_missing_locations(tree)
    return total


def dissolve_enums(tree, ref):
    """A NEW enum class (IntEnum / Enum with literal values) that gathers constants the reference keeps as plain names: a use of
    `E.MEMBER` is written with the old name when an alias `OLD = E.MEMBER` exists (module level or class level), otherwise with the
    literal value (IntEnum members equal their values; .value is the literal for both)."""
    known_classes = set(ref.get('classes', [])) if 'classes' in ref else None
    if known_classes is None:
        return 0
    enums = {}
    for st in tree.body:
        if isinstance(st, ast.ClassDef) and st.name not in known_classes and any(_txt(b).split('.')[-1] in ('IntEnum', 'Enum', 'IntFlag') for b in st.bases):
            members = {}
            for s_ in st.body:
                if isinstance(s_, ast.Assign) and len(s_.targets) == 1 and isinstance(s_.targets[0], ast.Name):
                    try:
                        v = _literal(s_.value, {})
                    except ValueError:
                        continue
                    if isinstance(v, (int, str)) and not isinstance(v, bool):
                        members[s_.targets[0].id] = v
            if members:
                enums[st.name] = (members, any(_txt(b).split('.')[-1] in ('IntEnum', 'IntFlag') for b in st.bases))
    if not enums:
        return 0

    def member(e):
        """(enum, member) for  E.M  /  E.M.value  /  int(E.M)"""
        if isinstance(e, ast.Attribute) and e.attr == 'value':
            e = e.value
        if isinstance(e, ast.Call) and isinstance(e.func, ast.Name) and e.func.id == 'int' and len(e.args) == 1:
            e = e.args[0]
        if isinstance(e, ast.Attribute) and isinstance(e.value, ast.Name) and e.value.id in enums and e.attr in enums[e.value.id][0]:
            return e.value.id, e.attr
        return None
    # aliases: OLD = E.M at module level / inside a class the reference knows
    alias = {}
    alias_stmts = []
    for holder, body, prefix in [(None, tree.body, '')] + [(c, c.body, c.name + '.') for q, c in classes(tree) if c.name not in enums]:
        for s_ in body:
            if isinstance(s_, ast.Assign) and len(s_.targets) == 1 and isinstance(s_.targets[0], ast.Name):
                mm = member(s_.value)
                if mm:
                    alias.setdefault(mm, prefix + s_.targets[0].id)
                    alias_stmts.append((s_, enums[mm[0]][0][mm[1]]))
    total = [0]

    class T(ast.NodeTransformer):
        cur_cls, has_self = None, False

        def visit_FunctionDef(self, n):
            old = self.has_self
            self.has_self = bool(n.args.args) and n.args.args[0].arg == 'self' and not any(_txt(d) in ('staticmethod', 'classmethod') for d in n.decorator_list)
            self.generic_visit(n)
            self.has_self = old
            return n

        def visit_Attribute(self, n):
            mm = member(n)
            if mm and isinstance(n.ctx, ast.Load):
                total[0] += 1
                if mm in alias:
                    txt = alias[mm]
                    if self.cur_cls and self.has_self and txt.startswith(self.cur_cls + '.'):
                        txt = 'self.' + txt[len(self.cur_cls) + 1:]           # inside the class the reference reads its constants through self
                    return ast.copy_location(ast.parse(txt, mode='eval').body, n)
                return _const_node(enums[mm[0]][0][mm[1]], n)
            self.generic_visit(n)
            return n

        def visit_Call(self, n):
            mm = member(n)
            if mm:
                total[0] += 1
                return _const_node(enums[mm[0]][0][mm[1]], n)
            self.generic_visit(n)
            return n

        def visit_ClassDef(self, n):
            if n.name in enums:
                return n
            old = self.cur_cls
            self.cur_cls = n.name
            self.generic_visit(n)
            self.cur_cls = old
            return n
    for s_, v in alias_stmts:
        s_.value = _const_node(v, s_.value)
    for i, st in enumerate(tree.body):
        tree.body[i] = T().visit(st)
    return total[0]


def _namedtuple_fields(cls):
    """field names of `class X(NamedTuple): a: T; b: T = d` (no methods other than dunder-free helpers), else None"""
    if not any(_txt(b).split('.')[-1] == 'NamedTuple' for b in cls.bases):
        return None
    fields = []
    for st in cls.body:
        if isinstance(st, ast.AnnAssign) and isinstance(st.target, ast.Name):
            fields.append((st.target.id, st.value))
        elif isinstance(st, ast.Expr) and isinstance(st.value, ast.Constant):
            continue
        else:
            return None
    return fields or None


def dissolve_namedtuples(tree, ref, path=None, model=None):
    """(1) a NEW `class X(NamedTuple)` used to give names to a tuple the reference passes around bare: `X(a, b)` is the tuple `(a, b)`,
    and `.field` - when no attribute of that name exists in the reference module - is the index.  (2) a record the reference builds
    with collections.namedtuple that is now spelled as a typing.NamedTuple class goes back to `X = namedtuple('X', 'a b ..')`."""
    if 'classes' not in ref:
        return 0
    known_classes, known_consts, known_attrs = set(ref.get('classes', [])), set(ref.get('consts', [])), set(ref.get('attr_names', []))
    total = 0
    new_nt = {}
    for i, st in enumerate(list(tree.body)):
        # X = namedtuple('T', 'a b c') under a name the reference does not have
        if isinstance(st, ast.Assign) and len(st.targets) == 1 and isinstance(st.targets[0], ast.Name) and isinstance(st.value, ast.Call) and \
                _txt(st.value.func) in ('namedtuple', 'collections.namedtuple') and len(st.value.args) == 2 and not st.value.keywords and \
                st.targets[0].id not in known_consts and st.targets[0].id not in known_classes:
            spec = st.value.args[1]
            names_ = None
            if isinstance(spec, ast.Constant) and isinstance(spec.value, str):
                names_ = spec.value.replace(',', ' ').split()
            elif isinstance(spec, (ast.List, ast.Tuple)) and all(isinstance(e, ast.Constant) and isinstance(e.value, str) for e in spec.elts):
                names_ = [e.value for e in spec.elts]
            if names_ and len(set(names_)) == len(names_) and all(n_.isidentifier() and not n_.startswith('_') for n_ in names_):
                new_nt[st.targets[0].id] = [(n_, None) for n_ in names_]
            continue
        if not isinstance(st, ast.ClassDef):
            continue
        fields = _namedtuple_fields(st)
        if fields is None:
            continue
        if st.name in known_consts and st.name not in known_classes and all(d is None for _, d in fields):
            call = ast.Call(func=ast.Name(id='namedtuple', ctx=ast.Load()), args=[ast.Constant(value=st.name), ast.Constant(value=' '.join(f for f, _ in fields))], keywords=[])
            tree.body[tree.body.index(st)] = ast.copy_location(ast.Assign(targets=[ast.Name(id=st.name, ctx=ast.Store())], value=call, lineno=st.lineno), st)
            total += 1
        elif st.name not in known_classes and st.name not in known_consts:
            new_nt[st.name] = fields
    # records of the same kind imported from another module of the package (new there as well)
    if model is not None and path is not None:
        refmods = _ref()
        pkg = path.rsplit('/', 1)[0] if '/' in path else ''
        for st in tree.body:
            if not isinstance(st, ast.ImportFrom):
                continue
            if st.level:
                base = pkg
                for _ in range(st.level - 1):
                    base = base.rsplit('/', 1)[0] if '/' in base else ''
                modpath = (base + '/' if base else '') + (st.module or '').replace('.', '/')
            else:
                modpath = (st.module or '').replace('.', '/')
            cand = [c for c in (modpath + '.py', modpath + '/__init__.py') if model.exists(c)]
            if not cand:
                continue
            oref = refmods.get(cand[0], {})
            try:
                other = ast.parse(model.source(cand[0]))
            except SyntaxError:
                continue
            for d in other.body:
                if isinstance(d, ast.ClassDef) and any((a.asname or a.name) == d.name for a in st.names) and d.name not in oref.get('classes', [d.name]) and \
                        d.name not in oref.get('consts', []):
                    f_ = _namedtuple_fields(d)
                    if f_:
                        new_nt[d.name] = f_
    if not new_nt:
        return total
    index_of = {}
    for nm, fields in new_nt.items():
        for k, (f, _) in enumerate(fields):
            if f in known_attrs or f in index_of:
                index_of[f] = None                    # ambiguous / also a real attribute: leave reads alone
            else:
                index_of[f] = k
    cnt = [0]
    # locals that certainly hold one of the new records: bound to NT(..), to an item of a class-level table whose values are all
    # NT(..), or to the result of a function of this module whose every return is NT(..)
    def nt_of(e):
        if isinstance(e, ast.Call) and isinstance(e.func, ast.Name) and e.func.id in new_nt:
            return e.func.id
        return None
    tables = {}
    for q_, c_ in classes(tree):
        for st_ in c_.body:
            if isinstance(st_, ast.Assign) and len(st_.targets) == 1 and isinstance(st_.targets[0], ast.Name) and isinstance(st_.value, ast.Dict) and st_.value.values:
                kinds = {nt_of(v_) for v_ in st_.value.values}
                if len(kinds) == 1 and None not in kinds:
                    tables[st_.targets[0].id] = kinds.pop()
    producers = {}
    for q_, f_ in functions(tree):
        rets_ = [r_.value for r_ in _own_walk(f_) if isinstance(r_, ast.Return) and r_.value is not None]
        kinds = {nt_of(r_) for r_ in rets_}
        if rets_ and len(kinds) == 1 and None not in kinds:
            producers[f_.name] = kinds.pop()
    typed = {}
    for q_, f_ in functions(tree):
        for a_ in f_.args.posonlyargs + f_.args.args + f_.args.kwonlyargs:
            ann_ = a_.annotation
            if isinstance(ann_, ast.Constant) and isinstance(ann_.value, str):
                ann_ = ast.Name(id=ann_.value.strip(), ctx=ast.Load())
            if isinstance(ann_, ast.Name) and ann_.id in new_nt:
                typed[(id(f_), a_.arg)] = ann_.id              # an annotated parameter (annotations are claims of the author; the tests run with them)
        for st_ in _own_walk(f_):
            if isinstance(st_, ast.Assign) and len(st_.targets) == 1 and isinstance(st_.targets[0], ast.Name):
                v_ = st_.value
                k_ = nt_of(v_)
                if k_ is None and isinstance(v_, ast.Subscript) and isinstance(v_.value, ast.Attribute) and v_.value.attr in tables:
                    k_ = tables[v_.value.attr]
                if k_ is None and isinstance(v_, ast.Call) and (_txt(v_.func).split('.')[-1] in producers):
                    k_ = producers[_txt(v_.func).split('.')[-1]]
                key_ = (id(f_), st_.targets[0].id)
                if isinstance(v_, ast.Constant) and v_.value is None:
                    continue                                   # "no record": says nothing about the kind
                if k_ is None and isinstance(v_, ast.Call) and isinstance(v_.func, ast.Attribute) and v_.func.attr == '_replace' and isinstance(v_.func.value, ast.Name) and \
                        v_.func.value.id == st_.targets[0].id and typed.get(key_):
                    continue                                   # r = r._replace(..) keeps the kind
                typed[key_] = k_ if (key_ not in typed or typed[key_] == k_) else None
    fn_of = {}
    for q_, f_ in functions(tree):
        for n_ in _own_walk(f_):
            fn_of[id(n_)] = f_

    class T(ast.NodeTransformer):
        def visit_Call(self, n):
            self.generic_visit(n)
            nm = n.func.id if isinstance(n.func, ast.Name) else None
            f_ = fn_of.get(id(n))
            if isinstance(n.func, ast.Attribute) and n.func.attr == '_make' and isinstance(n.func.value, ast.Name) and n.func.value.id in new_nt and len(n.args) == 1 and not n.keywords:
                cnt[0] += 1                         # NT._make(seq) is the tuple of seq
                a_ = n.args[0]
                return a_ if isinstance(a_, ast.Call) and _txt(a_.func) in ('struct.unpack', 'struct.unpack_from') else \
                    ast.copy_location(ast.Call(func=ast.Name(id='tuple', ctx=ast.Load()), args=[a_], keywords=[]), n)
            kind_ = typed.get((id(f_), n.func.value.id)) if f_ is not None and isinstance(n.func, ast.Attribute) and isinstance(n.func.value, ast.Name) else None
            if kind_ is None and isinstance(n.func, ast.Attribute) and n.func.attr == '_replace' and isinstance(n.func.value, ast.Name) and n.keywords and all(k.arg for k in n.keywords):
                # an untyped receiver: _replace exists on named tuples only, and the keywords name fields of exactly one of the new ones
                fits = [t_ for t_, fl_ in new_nt.items() if {k.arg for k in n.keywords} <= {x for x, _ in fl_}]
                if len(fits) == 1 and (id(f_), n.func.value.id) not in typed:
                    kind_ = fits[0]
            if isinstance(n.func, ast.Attribute) and n.func.attr == '_replace' and isinstance(n.func.value, ast.Name) and f_ is not None and \
                    kind_ and not n.args and all(k.arg for k in n.keywords):
                fields_ = [x for x, _ in new_nt[kind_]]
                kw_ = {k.arg: k.value for k in n.keywords}
                if set(kw_) <= set(fields_):
                    cnt[0] += 1
                    return ast.copy_location(ast.Tuple(elts=[kw_[x] if x in kw_ else ast.Subscript(value=ast.Name(id=n.func.value.id, ctx=ast.Load()), slice=ast.Constant(value=i_), ctx=ast.Load())
                                                             for i_, x in enumerate(fields_)], ctx=ast.Load()), n)
            if nm in new_nt and not any(isinstance(a, ast.Starred) for a in n.args) and all(k.arg for k in n.keywords):
                fields = new_nt[nm]
                vals = list(n.args)
                kw = {k.arg: k.value for k in n.keywords}
                for f, d in fields[len(vals):]:
                    if f in kw:
                        vals.append(kw[f])
                    elif d is not None:
                        vals.append(copy.deepcopy(d))
                    else:
                        return n
                if len(vals) == len(fields):
                    cnt[0] += 1
                    return ast.copy_location(ast.Tuple(elts=vals, ctx=ast.Load()), n)
            return n

        def visit_Attribute(self, n):
            f_ = fn_of.get(id(n))
            if isinstance(n.ctx, ast.Load) and isinstance(n.value, ast.Name) and f_ is not None and typed.get((id(f_), n.value.id)):
                fields_ = [x for x, _ in new_nt[typed[(id(f_), n.value.id)]]]
                if n.attr in fields_:
                    cnt[0] += 1
                    return ast.copy_location(ast.Subscript(value=n.value, slice=ast.Constant(value=fields_.index(n.attr)), ctx=ast.Load()), n)
            self.generic_visit(n)
            if isinstance(n.ctx, ast.Load) and index_of.get(n.attr) is not None and not (isinstance(n.value, ast.Name) and n.value.id in ('self', 'cls')):
                cnt[0] += 1
                return ast.copy_location(ast.Subscript(value=n.value, slice=ast.Constant(value=index_of[n.attr]), ctx=ast.Load()), n)
            return n

        def visit_ClassDef(self, n):
            if n.name in new_nt:
                return n
            self.generic_visit(n)
            return n
    for i, st in enumerate(tree.body):
        tree.body[i] = T().visit(st)
    # annotations that mention the new classes say nothing at run time: drop return annotations naming them
    for q, fn in functions(tree):
        if fn.returns is not None and any(isinstance(x, ast.Name) and x.id in new_nt for x in ast.walk(fn.returns)):
            fn.returns = None
    return total + cnt[0]


def regroup_indexed_reads(tree, ref, ref_locals):
    """r = f(..); a = r[0]; b = r[1]   (r a local the reference does not have, used nowhere else)   ->   a, b = f(..)"""
    total = 0
    for q, fn in functions(tree):
        want = (ref_locals or {}).get(q)
        if want is None:
            continue
        for block in _blocks(fn):
            i = 0
            while i < len(block):
                st = block[i]
                if isinstance(st, ast.Assign) and len(st.targets) == 1 and isinstance(st.targets[0], ast.Name) and st.targets[0].id not in want and isinstance(st.value, ast.Call):
                    r = st.targets[0].id
                    reads = []
                    j = i + 1
                    while j < len(block) and isinstance(block[j], ast.Assign) and len(block[j].targets) == 1 and isinstance(block[j].targets[0], (ast.Name, ast.Attribute)) and \
                            isinstance(block[j].value, ast.Subscript) and isinstance(block[j].value.value, ast.Name) and block[j].value.value.id == r and \
                            isinstance(block[j].value.slice, ast.Constant) and block[j].value.slice.value == len(reads):
                        reads.append(block[j])
                        j += 1
                    uses = sum(1 for n in ast.walk(fn) if isinstance(n, ast.Name) and n.id == r)
                    if len(reads) >= 2 and uses == 1 + len(reads):
                        tgt = ast.Tuple(elts=[x.targets[0] for x in reads], ctx=ast.Store())
                        block[i:j] = [ast.copy_location(ast.Assign(targets=[tgt], value=st.value, lineno=st.lineno), st)]
                        total += 1
                i += 1
    if total:
        ast.fix_missing_locations(tree)
    return total


def undo_dataclasses(tree, ref):
    """@dataclass on a class whose __init__ the reference wrote by hand: the generated constructor is written out - one parameter per
    init field in order (defaults kept; default_factory fields get a None-free fresh value in the body), `self.f = f` for each, then
    the init=False fields, then the body of __post_init__."""
    known = set(ref.get('funcs', []))
    total = 0
    for q, c in classes(tree):
        deco = [d for d in c.decorator_list if _txt(d.func if isinstance(d, ast.Call) else d).split('.')[-1] == 'dataclass']
        if not deco or (q + '.__init__') not in known or any(isinstance(st, ast.FunctionDef) and st.name == '__init__' for st in c.body):
            continue
        params, defaults, body, tail, gone = [ast.arg(arg='self')], [], [], [], []
        ok = True
        for st in list(c.body):
            if not (isinstance(st, ast.AnnAssign) and isinstance(st.target, ast.Name)):
                continue
            if _txt(st.annotation).startswith('ClassVar'):
                continue
            f, v = st.target.id, st.value
            init, dflt, factory = True, None, None
            if isinstance(v, ast.Call) and _txt(v.func).split('.')[-1] == 'field':
                kw = {k.arg: k.value for k in v.keywords}
                init = not (isinstance(kw.get('init'), ast.Constant) and kw['init'].value is False)
                dflt, factory = kw.get('default'), kw.get('default_factory')
            elif v is not None:
                dflt = v
            tgt = ast.Attribute(value=ast.Name(id='self', ctx=ast.Load()), attr=f, ctx=ast.Store())
            if init and factory is not None:
                # a factory field is a constructor parameter too; where the reference's constructor has no such parameter and no call in
                # the module passes one, the field always gets a fresh factory() value
                old_params = (ref.get('params') or {}).get(q + '.__init__')
                n_old = len(old_params) - 1 if old_params is not None else None
                cname = q.split('.')[-1]
                sites = [n for n in ast.walk(tree) if isinstance(n, ast.Call) and
                         (n.func.attr if isinstance(n.func, ast.Attribute) else n.func.id if isinstance(n.func, ast.Name) else None) == cname]
                if old_params is None or f in old_params or any(
                        len(n.args) > n_old or any(isinstance(x, ast.Starred) for x in n.args) or any(k.arg is None or k.arg not in old_params for k in n.keywords) for n in sites):
                    ok = False                    # a caller may pass it: exact semantics out of reach
                    break
                init = False
            if init:
                params.append(ast.arg(arg=f))
                if dflt is not None:
                    defaults.append(dflt)
                elif defaults:
                    ok = False
                    break
                body.append(ast.copy_location(ast.Assign(targets=[tgt], value=ast.Name(id=f, ctx=ast.Load()), lineno=st.lineno), st))
            else:
                val = ast.Call(func=factory, args=[], keywords=[]) if factory is not None else dflt
                if val is None:
                    continue
                tail.append(ast.copy_location(ast.Assign(targets=[tgt], value=val, lineno=st.lineno), st))
            gone.append(st)
        if not ok:
            continue
        for st in gone:
            c.body.remove(st)
        post = [st for st in c.body if isinstance(st, ast.FunctionDef) and st.name == '__post_init__']
        extra = []
        if post and len(post[0].args.args) == 1:
            extra = post[0].body
            c.body.remove(post[0])
        init_fn = ast.FunctionDef(name='__init__', args=ast.arguments(posonlyargs=[], args=params, vararg=None, kwonlyargs=[], kw_defaults=[], kwarg=None, defaults=defaults),
                                  body=(body + tail + list(extra)) or [ast.Pass()], decorator_list=[], returns=None, type_comment=None, type_params=[])
        ast.copy_location(init_fn, c)
        at = 0
        while at < len(c.body) and (_has_doc(c.body[at:at + 1]) or isinstance(c.body[at], (ast.Assign, ast.AnnAssign))):
            at += 1
        c.body.insert(at, init_fn)
        c.decorator_list = [d for d in c.decorator_list if d not in deco]
        total += 1
    if total:
        ast.fix_missing_locations(tree)
    return total


def undo_dispatch_tables(tree, ref):
    """table = {K1: self.m1, K2: self.m2}; h = table.get(key); if h is not None: h(args)   ->   if key == K1: self.m1(args) elif
    key == K2: self.m2(args).  The table is a dictionary display bound once (a new attribute set in __init__, or a local) whose
    values are bound methods; an unknown key does nothing in both spellings."""
    total = 0
    for q, c in classes(tree):
        want_attrs = ref.get('attrs', {}).get(q)
        tables = {}
        init = [st for st in c.body if isinstance(st, ast.FunctionDef) and st.name == '__init__']
        if init and want_attrs is not None:
            for st in init[0].body:
                if isinstance(st, ast.Assign) and len(st.targets) == 1 and isinstance(st.targets[0], ast.Attribute) and isinstance(st.targets[0].value, ast.Name) and \
                        st.targets[0].value.id == 'self' and st.targets[0].attr not in want_attrs and isinstance(st.value, ast.Dict) and st.value.keys and \
                        all(k is not None and isinstance(v, ast.Attribute) and isinstance(v.value, ast.Name) and v.value.id == 'self' for k, v in zip(st.value.keys, st.value.values)):
                    stores = [n for n in ast.walk(c) if isinstance(n, ast.Attribute) and n.attr == st.targets[0].attr and isinstance(n.ctx, (ast.Store, ast.Del))]
                    if len(stores) == 1:
                        tables['self.' + st.targets[0].attr] = (st, init[0].body)
        for fn in [st for st in c.body if isinstance(st, ast.FunctionDef)]:
            for block in _blocks(fn):
                local = dict(tables)
                for st in block:
                    if isinstance(st, ast.Assign) and len(st.targets) == 1 and isinstance(st.targets[0], ast.Name) and isinstance(st.value, ast.Dict) and st.value.keys and \
                            all(k is not None and isinstance(v, ast.Attribute) and isinstance(v.value, ast.Name) and v.value.id == 'self' for k, v in zip(st.value.keys, st.value.values)) and \
                            _stores(fn).get(st.targets[0].id) == 1:
                        local[st.targets[0].id] = (st, block)
                i = 0
                while i + 1 < len(block):
                    a, b = block[i], block[i + 1]
                    ok = isinstance(a, ast.Assign) and len(a.targets) == 1 and isinstance(a.targets[0], ast.Name) and isinstance(a.value, ast.Call) and \
                        isinstance(a.value.func, ast.Attribute) and a.value.func.attr == 'get' and len(a.value.args) == 1 and not a.value.keywords and \
                        _txt(a.value.func.value) in local and _harmless(a.value.args[0])
                    if ok:
                        h = a.targets[0].id
                        t = b.test if isinstance(b, ast.If) and not b.orelse and len(b.body) == 1 else None
                        guard = t is not None and (_txt(t) == h or _txt(t) in ('%s is not None' % h, 'None is not %s' % h))
                        callst = b.body[0] if guard else None
                        call = callst.value if isinstance(callst, (ast.Expr, ast.Return)) else None
                        uses = sum(1 for n in ast.walk(fn) if isinstance(n, ast.Name) and n.id == h)
                        if guard and isinstance(call, ast.Call) and isinstance(call.func, ast.Name) and call.func.id == h and uses == 3:
                            tab_st, tab_block = local[_txt(a.value.func.value)]
                            key = a.value.args[0]
                            chain = None
                            groups = []                   # keys that share a handler form one branch (k == A or k == B)
                            for k_, v_ in zip(tab_st.value.keys, tab_st.value.values):
                                for g_ in groups:
                                    if _txt(g_[1]) == _txt(v_):
                                        g_[0].append(k_)
                                        break
                                else:
                                    groups.append(([k_], v_))
                            for ks_, v_ in reversed(groups):
                                c_ = ast.Call(func=copy.deepcopy(v_), args=copy.deepcopy(call.args), keywords=copy.deepcopy(call.keywords))
                                stmt = ast.Return(value=c_) if isinstance(callst, ast.Return) else ast.Expr(value=c_)
                                tests = [ast.Compare(left=copy.deepcopy(key), ops=[ast.Eq()], comparators=[copy.deepcopy(k_)]) for k_ in ks_]
                                node = ast.If(test=tests[0] if len(tests) == 1 else ast.BoolOp(op=ast.Or(), values=tests), body=[ast.copy_location(stmt, callst)],
                                              orelse=[chain] if chain is not None else [])
                                chain = ast.copy_location(node, b)
                            block[i:i + 2] = [chain]
                            if tab_st in tab_block and not any(isinstance(n, (ast.Name, ast.Attribute)) and _txt(n) == _txt(tab_st.targets[0]) and isinstance(n.ctx, ast.Load)
                                                               for n in ast.walk(c)):
                                tab_block.remove(tab_st)
                                if not tab_block:
                                    tab_block.append(ast.Pass())
                            total += 1
                            continue
                    i += 1
    if total:
        ast.fix_missing_locations(tree)
    return total


def scalarise_records(tree, ref):
    """A local bound once to K(args) where K is a NEW class that is nothing but a record (its __init__ only stores its parameters /
    literals in attributes; no other methods), and that is only ever used as `v.attr` in that function (never passed on, returned or
    stored): each attribute is a local of its own (`v.hit` -> `v_hit`), initialised the way __init__ does it."""
    if 'classes' not in ref:
        return 0
    known = set(ref.get('classes', []))
    recs = {}
    for st in tree.body:
        if not isinstance(st, ast.ClassDef) or st.bases and any(_txt(b) not in ('object',) for b in st.bases):
            continue
        fns = [x for x in st.body if isinstance(x, ast.FunctionDef)]
        if len(fns) != 1 or fns[0].name != '__init__' or fns[0].args.vararg or fns[0].args.kwarg:
            continue
        other = [x for x in st.body if not isinstance(x, ast.FunctionDef) and not _has_doc([x]) and not (isinstance(x, ast.Assign) and _txt(x.targets[0]) == '__slots__')
                 and not isinstance(x, ast.AnnAssign)]
        if other:
            continue
        init = fns[0]
        fields = []
        ok = True
        for x in init.body:
            if _has_doc([x]):
                continue
            if isinstance(x, ast.Assign) and len(x.targets) == 1 and isinstance(x.targets[0], ast.Attribute) and isinstance(x.targets[0].value, ast.Name) and \
                    x.targets[0].value.id == 'self' and _harmless(x.value) and not any(isinstance(n, ast.Name) and n.id == 'self' for n in ast.walk(x.value)):
                fields.append((x.targets[0].attr, x.value))
            else:
                ok = False
        if ok and fields:
            recs[st.name] = (init, fields)
    # a named tuple (literal field list, no defaults) is such a record too
    for st in tree.body:
        if isinstance(st, ast.Assign) and len(st.targets) == 1 and isinstance(st.targets[0], ast.Name) and isinstance(st.value, ast.Call) and \
                _txt(st.value.func) in ('namedtuple', 'collections.namedtuple') and len(st.value.args) == 2 and not st.value.keywords:
            fa = st.value.args[1]
            names_ = fa.value.replace(',', ' ').split() if isinstance(fa, ast.Constant) and isinstance(fa.value, str) else \
                [e.value for e in fa.elts] if isinstance(fa, (ast.List, ast.Tuple)) and all(isinstance(e, ast.Constant) and isinstance(e.value, str) for e in fa.elts) else None
            if names_ and all(x.isidentifier() for x in names_) and len(set(names_)) == len(names_) and \
                    sum(1 for n in ast.walk(tree) if isinstance(n, ast.Name) and n.id == st.targets[0].id and isinstance(n.ctx, ast.Store)) == 1:
                init = ast.parse('def __init__(self, %s):\n    pass' % ', '.join(names_)).body[0]
                recs[st.targets[0].id] = (init, [(x, ast.Name(id=x, ctx=ast.Load())) for x in names_])
    if not recs:
        return 0
    total = 0
    for q, fn in functions(tree):
        stores = _stores(fn)
        for block in _blocks(fn):
            for i, st in enumerate(block):
                if not (isinstance(st, ast.Assign) and len(st.targets) == 1 and isinstance(st.targets[0], ast.Name) and isinstance(st.value, ast.Call) and
                        isinstance(st.value.func, ast.Name) and st.value.func.id in recs and stores.get(st.targets[0].id) == 1):
                    continue
                if st.value.func.id in known and (q not in ref.get('calls', {}) or st.value.func.id in ref['calls'][q]):
                    continue        # a record class of the reference: only where the reference function does not build one itself
                v = st.targets[0].id
                init, fields = recs[st.value.func.id]
                # every other occurrence of v is  v.<field>
                occ = [n for n in ast.walk(fn) if isinstance(n, ast.Name) and n.id == v and n is not st.targets[0]]
                attr_parents = [n for n in ast.walk(fn) if isinstance(n, ast.Attribute) and isinstance(n.value, ast.Name) and n.value.id == v]
                if len(occ) != len(attr_parents) or any(a.attr not in {f for f, _ in fields} for a in attr_parents):
                    continue
                b = _bind(init, st.value, skip_first=True)
                if b is None or b[1]:
                    continue
                names = {f: '%s_%s' % (v, f) for f, _ in fields}
                if any(nm in stores for nm in names.values()):
                    continue
                sub = _Subst(b[0])
                lead = [ast.copy_location(ast.Assign(targets=[ast.Name(id=names[f], ctx=ast.Store())], value=sub.visit(copy.deepcopy(val)), lineno=st.lineno), st) for f, val in fields]

                class T(ast.NodeTransformer):
                    def visit_Attribute(self, n):
                        if isinstance(n.value, ast.Name) and n.value.id == v:
                            return ast.copy_location(ast.Name(id=names[n.attr], ctx=n.ctx), n)
                        self.generic_visit(n)
                        return n
                block[i:i + 1] = lead
                fn.body = [T().visit(x) for x in fn.body]
                total += 1
                break
    if total:
        ast.fix_missing_locations(tree)
    return total


def scalarise_tuple_locals(tree, ref, ref_locals):
    """A local the reference does not have that only ever holds tuple displays of one length and is only read as `v[<const>]` is a
    group of locals: `v = (a, f(v[1]))` -> `v_1 = f(v_1)` (components that are carried over unchanged need no statement)."""
    total = 0
    for q, fn in functions(tree):
        want = (ref_locals or {}).get(q)
        if want is None:
            continue
        cands = {}
        for st in _own_walk(fn):
            if isinstance(st, ast.Assign) and len(st.targets) == 1 and isinstance(st.targets[0], ast.Name) and st.targets[0].id not in want:
                v = st.targets[0].id
                if isinstance(st.value, ast.Tuple) and not any(isinstance(e, ast.Starred) for e in st.value.elts):
                    cands.setdefault(v, set()).add(len(st.value.elts))
                else:
                    cands.setdefault(v, set()).add(-1)
        params = {a.arg for a in fn.args.posonlyargs + fn.args.args + fn.args.kwonlyargs}
        for v, lens in cands.items():
            if len(lens) != 1 or -1 in lens or v in params:
                continue
            n = next(iter(lens))
            occ = [x for x in ast.walk(fn) if isinstance(x, ast.Name) and x.id == v]
            subs = [x for x in ast.walk(fn) if isinstance(x, ast.Subscript) and isinstance(x.value, ast.Name) and x.value.id == v and isinstance(x.ctx, ast.Load) and
                    isinstance(x.slice, ast.Constant) and isinstance(x.slice.value, int) and 0 <= x.slice.value < n]
            stores_ = [x for x in occ if isinstance(x.ctx, ast.Store)]
            if len(occ) != len(subs) + len(stores_):
                continue                                  # used as a whole somewhere (returned, passed, unpacked)
            names = ['%s_%d' % (v, i) for i in range(n)]
            if any(nm in _stores(fn) or nm in params for nm in names):
                continue
            ok = True
            for block in _blocks(fn):
                for st in block:
                    if isinstance(st, ast.Assign) and len(st.targets) == 1 and isinstance(st.targets[0], ast.Name) and st.targets[0].id == v:
                        for i, e in enumerate(st.value.elts):
                            ident = isinstance(e, ast.Subscript) and isinstance(e.value, ast.Name) and e.value.id == v and isinstance(e.slice, ast.Constant) and e.slice.value == i
                            reads = {x.slice.value for x in ast.walk(e) if isinstance(x, ast.Subscript) and isinstance(x.value, ast.Name) and x.value.id == v and isinstance(x.slice, ast.Constant)}
                            # a component may read itself, and components that this statement carries over unchanged
                            for j in reads - {i}:
                                ej = st.value.elts[j]
                                if not (isinstance(ej, ast.Subscript) and isinstance(ej.value, ast.Name) and ej.value.id == v and isinstance(ej.slice, ast.Constant) and ej.slice.value == j):
                                    ok = False
            if not ok:
                continue

            class T(ast.NodeTransformer):
                def visit_Subscript(self, x):
                    if isinstance(x.value, ast.Name) and x.value.id == v and isinstance(x.slice, ast.Constant) and isinstance(x.slice.value, int) and isinstance(x.ctx, ast.Load):
                        return ast.copy_location(ast.Name(id=names[x.slice.value], ctx=ast.Load()), x)
                    self.generic_visit(x)
                    return x
            for block in _blocks(fn):
                i = 0
                while i < len(block):
                    st = block[i]
                    if isinstance(st, ast.Assign) and len(st.targets) == 1 and isinstance(st.targets[0], ast.Name) and st.targets[0].id == v:
                        new = []
                        for k, e in enumerate(st.value.elts):
                            if isinstance(e, ast.Subscript) and isinstance(e.value, ast.Name) and e.value.id == v and isinstance(e.slice, ast.Constant) and e.slice.value == k:
                                continue
                            new.append(ast.copy_location(ast.Assign(targets=[ast.Name(id=names[k], ctx=ast.Store())], value=T().visit(e), lineno=st.lineno), st))
                        block[i:i + 1] = new or [ast.copy_location(ast.Pass(), st)]
                        i += len(new) or 1
                        continue
                    i += 1
            fn.body = [T().visit(x) for x in fn.body]
            total += 1
    if total:
        ast.fix_missing_locations(tree)
    return total


def sink_flag_tails(tree, ref, ref_locals):
    """An if / elif / else chain whose every branch sets the same NEW locals (a "plan": flags and values), followed by statements that
    test them: the statements after the chain are what each branch continues with, so they are written into each branch (tail
    duplication, always meaning preserving) with the locals of that branch given names of their own - single bindings that the
    decided / temps passes then fold away.  Undoes "decide first, act later" splits of code the reference wrote once per case."""
    total = 0
    for q, fn in functions(tree):
        want = (ref_locals or {}).get(q)
        if want is None:
            continue
        have_ = binding_order(fn)
        if len([h for h in have_ if h not in want]) <= len([w for w in want if w not in have_]):
            continue                    # as many unknown names as missing ones: a plain rename, the business of the alpha pass
        params = {a.arg for a in fn.args.posonlyargs + fn.args.args + fn.args.kwonlyargs}
        for _ in range(8):
            changed = False
            for block in _blocks(fn):
                for i, st in enumerate(block):
                    rest = block[i + 1:]
                    # a default bound just before the chain and overwritten in some branches: every branch that does not set the name
                    # sets the default (explicit else) - then the chain is complete and the rest below applies
                    if isinstance(st, ast.If) and rest and i >= 1 and isinstance(rest[0], ast.If) and isinstance(block[i - 1], ast.Assign) and len(block[i - 1].targets) == 1 and \
                            isinstance(block[i - 1].targets[0], ast.Name) and isinstance(block[i - 1].value, ast.Constant):
                        v = block[i - 1].targets[0].id
                        tnames = {n.id for n in ast.walk(rest[0].test) if isinstance(n, ast.Name)}
                        if tnames == {v} and v not in want and v not in params and not any(isinstance(n, (ast.Call, ast.Attribute, ast.Subscript)) for n in ast.walk(rest[0].test)):
                            n_stores = len([n for n in ast.walk(st) if isinstance(n, ast.Name) and n.id == v and isinstance(n.ctx, ast.Store)])
                            n_reads = len(_reads([st], v))
                            tail_sets = []

                            def scan(stmts):
                                last = stmts[-1] if stmts else None
                                if isinstance(last, ast.If):
                                    scan(last.body)
                                    scan(last.orelse)
                                elif isinstance(last, ast.Assign) and len(last.targets) == 1 and isinstance(last.targets[0], ast.Name) and last.targets[0].id == v:
                                    tail_sets.append(last)
                            scan([st])
                            if n_stores == len(tail_sets) and n_stores >= 1 and not n_reads:
                                dflt = block[i - 1].value

                                def complete(stmts, like):
                                    last = stmts[-1] if stmts else None
                                    if isinstance(last, ast.If):
                                        complete(last.body, last)
                                        if not last.orelse:
                                            last.orelse = [ast.copy_location(ast.Assign(targets=[ast.Name(id=v, ctx=ast.Store())], value=copy.deepcopy(dflt), lineno=last.lineno), last)]
                                        else:
                                            complete(last.orelse, last)
                                    elif isinstance(last, ast.Assign) and len(last.targets) == 1 and isinstance(last.targets[0], ast.Name) and last.targets[0].id == v:
                                        pass
                                    elif stmts and _all_paths_leave(stmts):
                                        pass
                                    else:
                                        stmts.append(ast.copy_location(ast.Assign(targets=[ast.Name(id=v, ctx=ast.Store())], value=copy.deepcopy(dflt), lineno=like.lineno), like))
                                holder = [st]
                                complete(holder, st)
                                del block[i - 1]
                                ast.fix_missing_locations(fn)
                                changed = True
                                total += 1
                                break
                    is_try = isinstance(st, ast.Try) and not st.finalbody and not st.orelse and bool(st.handlers)
                    if not ((isinstance(st, ast.If) and st.orelse and rest) or (is_try and rest)):
                        continue
                    if isinstance(st, ast.If):
                        st.body[:] = _untuple(st.body)             # `a, b = x, y` in a branch binds a and b
                        st.orelse[:] = _untuple(st.orelse)
                    flag_test = isinstance(rest[0], ast.If) and not any(isinstance(n, (ast.Call, ast.Attribute, ast.Subscript)) for n in ast.walk(rest[0].test)) and \
                        any(isinstance(n, ast.Name) for n in ast.walk(rest[0].test)) and \
                        not any(n.id in want or n.id in params for n in ast.walk(rest[0].test) if isinstance(n, ast.Name))
                    if is_try and not flag_test:
                        continue
                    if is_try:
                        # only the flag test itself may move under the handlers, and only where it cannot raise: its branches just leave
                        if not all(isinstance(x, (ast.Break, ast.Continue, ast.Pass)) or (isinstance(x, ast.Return) and (x.value is None or isinstance(x.value, (ast.Constant, ast.Name))))
                                   for x in rest[0].body + rest[0].orelse):
                            continue
                        rest = rest[:1]
                    if flag_test:
                        names = {n.id for n in ast.walk(rest[0].test) if isinstance(n, ast.Name)}
                    else:
                        # values chosen per case and used by the statements that follow: the new locals every (complete) branch binds
                        def sets0(stmts):
                            return {s_.targets[0].id for s_ in stmts if isinstance(s_, ast.Assign) and len(s_.targets) == 1 and isinstance(s_.targets[0], ast.Name)}
                        if not (len(st.body) >= 1 and len(st.orelse) >= 1):
                            continue
                        common = (sets0(st.body) & sets0(st.orelse)) - set(want) - params
                        names = {n_ for n_ in common if _reads(rest, n_)}
                        if not names:
                            continue
                        # only the statements up to the last one that reads them follow the branches
                        last_use = max(k_ for k_, x_ in enumerate(rest) if any(_reads([x_], n_) for n_ in names))
                        later = rest[last_use + 1:]
                        if any(_reads(later, n_) for n_ in names):
                            continue
                        rest = rest[:last_use + 1]
                    # worth doing only where the reference writes out per case what is written once here: some call of the statements
                    # after the chain has more sites in the reference function than in this one
                    ref_calls = (ref.get('calls') or {}).get(q, {})
                    now_calls = call_counts(fn)
                    merged = any(isinstance(n, ast.Call) and ref_calls.get(_txt(n.func), 0) > now_calls.get(_txt(n.func), 0) for x in rest for n in ast.walk(x))
                    if sum(1 for x in rest for _n in ast.walk(x)) > 400 or \
                            any(isinstance(n, (ast.FunctionDef, ast.AsyncFunctionDef, ast.ClassDef)) for x in rest for n in ast.walk(x)):
                        continue
                    # the leaves of the chain: statement lists that end a complete if/else nest
                    leaves = []

                    def collect(stmts):
                        last = stmts[-1] if stmts else None
                        if isinstance(last, ast.If) and last.orelse:
                            collect(last.body)
                            collect(last.orelse)
                        elif is_try and last is st:
                            collect(st.body)
                            for h_ in st.handlers:
                                collect(h_.body)
                        else:
                            leaves.append(stmts)
                    collect([st])
                    if len(leaves) < 2 or len(leaves) > 8:
                        continue
                    # every name the rest reads and a leaf sets: all leaves that go on must set all tested names directly (plain bindings)
                    def sets(stmts):
                        return {s_.targets[0].id for s_ in stmts if isinstance(s_, ast.Assign) and len(s_.targets) == 1 and isinstance(s_.targets[0], ast.Name)}
                    going = [l for l in leaves if not _all_paths_leave(l)]
                    if not going or not all(names <= sets(l) for l in going):
                        continue
                    # ... or the test is pure plumbing: the value each branch binds (a literal, None, a display of names) decides it
                    def decided_in(leaf):
                        env = {}
                        for s_ in leaf:
                            if isinstance(s_, ast.Assign) and len(s_.targets) == 1 and isinstance(s_.targets[0], ast.Name) and s_.targets[0].id in names:
                                env[s_.targets[0].id] = s_.value
                        if not all(isinstance(v, ast.Constant) or (isinstance(v, (ast.Tuple, ast.List)) and all(isinstance(e_, (ast.Name, ast.Constant)) for e_ in v.elts))
                                   for v in env.values()):
                            return False
                        return _const_truth(_Subst(env).visit(copy.deepcopy(rest[0].test))) is not None
                    if (is_try or not merged) and not (flag_test and all(decided_in(l) for l in going)):
                        continue
                    plan = set.intersection(*[sets(l) for l in going]) - set(want) - params
                    # the plan names live only between their binding in a leaf and the statements after the chain
                    region = {id(n) for x in [st] + rest for n in ast.walk(x)}
                    if any(isinstance(n, ast.Name) and n.id in plan and id(n) not in region for n in ast.walk(fn)):
                        plan = {n_ for n_ in plan if not any(isinstance(n, ast.Name) and n.id == n_ and id(n) not in region for n in ast.walk(fn))}
                    if not names <= plan:
                        continue
                    if any(isinstance(n, (ast.Lambda,)) and any(isinstance(x, ast.Name) and x.id in plan for x in ast.walk(n)) for l in leaves for s_ in l for n in ast.walk(s_)):
                        continue
                    for k, leaf in enumerate(going):
                        tail = copy.deepcopy(rest)
                        # where this leaf's own bindings decide the first test, only the chosen branch follows (and nothing after a
                        # statement that leaves)
                        env_ = {}
                        for s_ in leaf:
                            if isinstance(s_, ast.Assign) and len(s_.targets) == 1 and isinstance(s_.targets[0], ast.Name) and s_.targets[0].id in names:
                                env_[s_.targets[0].id] = s_.value
                        if all(isinstance(v, ast.Constant) or (isinstance(v, (ast.Tuple, ast.List)) and all(isinstance(e_, (ast.Name, ast.Constant)) for e_ in v.elts))
                               for v in env_.values()) and set(env_) == names:
                            tv = _const_truth(_Subst(env_).visit(copy.deepcopy(tail[0].test))) if flag_test else None
                            if tv is not None:
                                tail[0:1] = copy.deepcopy(tail[0].body if tv else tail[0].orelse)
                                for j, s2 in enumerate(tail):
                                    if isinstance(s2, (ast.Return, ast.Raise, ast.Continue, ast.Break)):
                                        del tail[j + 1:]
                                        break
                        # each plan name: from its last plain binding in this leaf on, it is this leaf's own variable
                        for n_ in sorted(plan):
                            idx = max(j for j, s_ in enumerate(leaf) if isinstance(s_, ast.Assign) and len(s_.targets) == 1 and isinstance(s_.targets[0], ast.Name) and s_.targets[0].id == n_)
                            if any(isinstance(x, ast.Name) and x.id == n_ and isinstance(x.ctx, ast.Store) for s_ in tail for x in ast.walk(s_)):
                                continue                          # re-bound later: keeps its name
                            new = '%s__%d' % (n_, k + 1)
                            leaf[idx].targets[0].id = new
                            for s_ in leaf[idx + 1:] + tail:
                                for x in ast.walk(s_):
                                    if isinstance(x, ast.Name) and x.id == n_:
                                        x.id = new
                        leaf.extend(tail)
                    del block[i + 1:i + 1 + len(rest)]
                    changed = True
                    total += 1
                    break
                if changed:
                    break
            if not changed:
                break
    if total:
        ast.fix_missing_locations(tree)
    return total


def while_texts(fn):
    return sorted(_txt(n.test) for n in _own_walk(fn) if isinstance(n, ast.While))


def _reads(stmts, name):
    return [n for x in stmts for n in ast.walk(x) if isinstance(n, ast.Name) and n.id == name and isinstance(n.ctx, ast.Load)]


def _has_loose(stmts, kinds):
    """a break / continue (``kinds``) in ``stmts`` that belongs to the enclosing loop (not to a nested one)"""
    for x in stmts:
        if isinstance(x, kinds):
            return True
        if isinstance(x, (ast.For, ast.While)):
            if _has_loose(x.orelse, kinds):
                return True
            continue
        if isinstance(x, (ast.FunctionDef, ast.AsyncFunctionDef, ast.ClassDef)):
            continue
        for f in ('body', 'orelse', 'finalbody'):
            if _has_loose(getattr(x, f, []) or [], kinds):
                return True
        for h in getattr(x, 'handlers', []) or []:
            if _has_loose(h.body, kinds):
                return True
    return False


def reshape_loops(tree, ref, ref_locals):
    """Loops written another way than in the reference, put back (each rewrite is meaning preserving under the stated conditions):
    (A) `while not C: B`  ->  `while True: if C: break; B`   where the reference function has more `while True` loops;
    (B) a counting while whose counter / flag only steers the loop  ->  `for _ in range(K)` with `break`
        (`n = K; while n > 0: n -= 1; B[n = 0 in tail position]`, `k = 0; done = False; while not done and k < K: k += 1; B[done = True]`);
    (C) an index loop `i = S; while i < BOUND: [x = X[i];] i += 1; B` (or the step last, without `continue`) over a bound that the body
        cannot change  ->  `for i in range(S, BOUND)`;
    (D) `for i in range(len(X))` whose body uses i only as `X[i]`, X a local list the body does not change  ->  `for item in X`.
    Only where the reference function has a `for` / `while True` loop that this one lacks."""
    total = 0
    ref_for = ref.get('loops', {})
    ref_wh = ref.get('whiles', {})
    for q, fn in functions(tree):
        want = (ref_locals or {}).get(q)
        if want is None:
            continue
        params = {a.arg for a in fn.args.posonlyargs + fn.args.args + fn.args.kwonlyargs}
        for _ in range(8):
            n_for = len([n for n in _own_walk(fn) if isinstance(n, ast.For)])
            n_true = len([n for n in _own_walk(fn) if isinstance(n, ast.While) and _const_truth(n.test) is True])
            lack_for = len(ref_for.get(q, [])) > n_for
            lack_true = len([t for t in ref_wh.get(q, []) if t in ('True', '(True)', '1')]) > n_true
            changed = False
            for block in _blocks(fn):
                for i, st in enumerate(block):
                    # ---- (D) ----
                    if isinstance(st, ast.For) and not st.orelse and isinstance(st.target, ast.Name) and isinstance(st.iter, ast.Call) and _txt(st.iter.func) == 'range' and \
                            not st.iter.keywords and len(st.iter.args) in (1, 2) and st.target.id not in want and st.target.id not in params:
                        a = st.iter.args
                        if len(a) == 2 and not (isinstance(a[0], ast.Constant) and a[0].value == 0):
                            pass
                        else:
                            bound = a[-1]
                            iv = st.target.id
                            if isinstance(bound, ast.Call) and _txt(bound.func) == 'len' and len(bound.args) == 1 and isinstance(bound.args[0], ast.Name):
                                X = bound.args[0].id
                                uses = _reads(st.body, iv)
                                subs = [n for x in st.body for n in ast.walk(x) if isinstance(n, ast.Subscript) and isinstance(n.value, ast.Name) and n.value.id == X and
                                        isinstance(n.slice, ast.Name) and n.slice.id == iv and isinstance(n.ctx, ast.Load)]
                                xs = [n for x in st.body for n in ast.walk(x) if isinstance(n, ast.Name) and n.id == X]
                                after = _reads(block[i + 1:], iv)
                                stores_iv = [n for x in st.body for n in ast.walk(x) if isinstance(n, ast.Name) and n.id == iv and isinstance(n.ctx, ast.Store)]
                                local_list = X not in params and any(isinstance(b_, ast.Assign) and len(b_.targets) == 1 and isinstance(b_.targets[0], ast.Name) and b_.targets[0].id == X and
                                                                     _creates_object(b_.value) for b_ in block[:i])
                                if uses and len(uses) == len(subs) and len(xs) == len(subs) and not after and not stores_iv and local_list:
                                    first = st.body[0]
                                    if isinstance(first, ast.Assign) and len(first.targets) == 1 and isinstance(first.targets[0], ast.Name) and any(first.value is s_ for s_ in subs) and \
                                            len(subs) == 1 and first.targets[0].id not in params:
                                        item = first.targets[0].id
                                        st.body = st.body[1:] or [ast.copy_location(ast.Pass(), first)]
                                    else:
                                        item = '%s_item' % X
                                        if any(isinstance(n, ast.Name) and n.id == item for n in ast.walk(fn)):
                                            continue

                                        class S(ast.NodeTransformer):
                                            def visit_Subscript(self, n):
                                                if any(n is s_ for s_ in subs):
                                                    return ast.copy_location(ast.Name(id=item, ctx=ast.Load()), n)
                                                self.generic_visit(n)
                                                return n
                                        st.body = [S().visit(x) for x in st.body]
                                    st.target = ast.copy_location(ast.Name(id=item, ctx=ast.Store()), st.target)
                                    st.iter = ast.copy_location(ast.Name(id=X, ctx=ast.Load()), st.iter)
                                    changed = True
                                    total += 1
                                    break
                    if not isinstance(st, ast.While) or st.orelse:
                        continue
                    # ---- (B) counting loop that only counts ----
                    if lack_for and i >= 1:
                        conj = st.test.values if isinstance(st.test, ast.BoolOp) and isinstance(st.test.op, ast.And) else [st.test]
                        cnt = flag = None
                        K = None
                        down = False
                        for c in conj:
                            if isinstance(c, ast.UnaryOp) and isinstance(c.op, ast.Not) and isinstance(c.operand, ast.Name):
                                flag = c.operand.id
                            elif isinstance(c, ast.Compare) and len(c.ops) == 1 and isinstance(c.left, ast.Name):
                                r = c.comparators[0]
                                if isinstance(c.ops[0], ast.Gt) and isinstance(r, ast.Constant) and r.value == 0:
                                    cnt, down = c.left.id, True
                                elif isinstance(c.ops[0], ast.Lt) and isinstance(r, ast.Constant) and isinstance(r.value, int):
                                    cnt, K = c.left.id, r.value
                        inits = {}
                        j = i - 1
                        while j >= 0 and isinstance(block[j], ast.Assign) and len(block[j].targets) == 1 and isinstance(block[j].targets[0], ast.Name) and isinstance(block[j].value, ast.Constant):
                            inits[block[j].targets[0].id] = (j, block[j].value.value)
                            j -= 1
                        ok = cnt is not None and cnt in inits and len(conj) == (2 if flag else 1) and (flag is None or (inits.get(flag, (0, None))[1] is False)) and \
                            cnt not in want and cnt not in params and (flag is None or (flag not in want and flag not in params))
                        if ok:
                            if down:
                                K = inits[cnt][1]
                                ok = isinstance(K, int) and not isinstance(K, bool) and 0 <= K <= 10000
                            else:
                                ok = inits[cnt][1] == 0 and isinstance(K, int)
                        step = st.body[0] if st.body else None
                        ok = ok and isinstance(step, ast.AugAssign) and isinstance(step.target, ast.Name) and step.target.id == cnt and isinstance(step.value, ast.Constant) and step.value.value == 1 and \
                            isinstance(step.op, ast.Sub if down else ast.Add)
                        if ok:
                            body = st.body[1:]
                            steer = {cnt: 0} if (down and flag is None) else ({flag: True} if flag else {})
                            names = {cnt} | ({flag} if flag else set())
                            # every mention of the steering names in the body is a tail-position `name = <leaving value>`
                            marks = []

                            def tails(stmts):
                                if not stmts:
                                    return
                                last = stmts[-1]
                                if isinstance(last, ast.Assign) and len(last.targets) == 1 and isinstance(last.targets[0], ast.Name) and last.targets[0].id in steer and \
                                        isinstance(last.value, ast.Constant) and last.value.value is steer[last.targets[0].id] or \
                                        (isinstance(last, ast.Assign) and len(last.targets) == 1 and isinstance(last.targets[0], ast.Name) and last.targets[0].id in steer and
                                         isinstance(last.value, ast.Constant) and last.value.value == steer[last.targets[0].id] and not isinstance(last.value.value, bool)):
                                    marks.append((stmts, last))
                                elif isinstance(last, ast.If):
                                    tails(last.body)
                                    tails(last.orelse)
                            tails(body)
                            mentions_ = [n for x in body for n in ast.walk(x) if isinstance(n, ast.Name) and n.id in names]
                            outside = [n for x in block[i + 1:] for n in ast.walk(x) if isinstance(n, ast.Name) and n.id in names and isinstance(n.ctx, ast.Load)]
                            if len(mentions_) == len(marks) and not outside and not _has_loose(body, (ast.Break,)) and (marks or flag is None):
                                for stmts, last in marks:
                                    stmts[stmts.index(last)] = ast.copy_location(ast.Break(), last)
                                loop = ast.For(target=ast.Name(id='_', ctx=ast.Store()), iter=ast.Call(func=ast.Name(id='range', ctx=ast.Load()), args=[ast.Constant(value=K)], keywords=[]),
                                               body=body or [ast.Pass()], orelse=[], lineno=st.lineno)
                                block[i] = ast.copy_location(loop, st)
                                for nm in sorted(names, key=lambda n_: -inits[n_][0]):
                                    del block[inits[nm][0]]
                                changed = True
                                total += 1
                                break
                    # ---- (C) index loop ----
                    if lack_for and isinstance(st.test, ast.Compare) and len(st.test.ops) == 1 and isinstance(st.test.ops[0], ast.Lt) and isinstance(st.test.left, ast.Name):
                        iv = st.test.left.id
                        bound = st.test.comparators[0]
                        init = [j for j in range(i) if isinstance(block[j], ast.Assign) and len(block[j].targets) == 1 and isinstance(block[j].targets[0], ast.Name) and block[j].targets[0].id == iv]
                        steps = [k for k, x in enumerate(st.body) if isinstance(x, ast.AugAssign) and isinstance(x.target, ast.Name) and x.target.id == iv]
                        all_stores = [n for n in ast.walk(st) if isinstance(n, ast.Name) and n.id == iv and isinstance(n.ctx, ast.Store)]
                        if init and len(steps) == 1 and len(all_stores) == 1 and iv not in params:
                            k = steps[0]
                            step = st.body[k]
                            one = isinstance(step.op, ast.Add) and isinstance(step.value, ast.Constant) and isinstance(step.value.value, int) and \
                                not isinstance(step.value.value, bool) and step.value.value >= 1
                            stride = step.value.value if one else 1
                            j0 = init[-1]
                            between = block[j0 + 1:i]
                            # the bound: a local bound once just before the loop, or len(<local the body does not touch>)
                            stable = False
                            if isinstance(bound, ast.Name) and bound.id not in params:
                                stable = not any(isinstance(n, ast.Name) and n.id == bound.id and isinstance(n.ctx, ast.Store) for n in ast.walk(st))
                            elif isinstance(bound, ast.Call) and _txt(bound.func) == 'len' and len(bound.args) == 1 and isinstance(bound.args[0], ast.Name):
                                X = bound.args[0].id
                                xs = [n for x in st.body for n in ast.walk(x) if isinstance(n, ast.Name) and n.id == X]
                                subs = [n for x in st.body for n in ast.walk(x) if isinstance(n, ast.Subscript) and isinstance(n.value, ast.Name) and n.value.id == X and isinstance(n.ctx, ast.Load)]
                                fresh = any(isinstance(b_, ast.Assign) and len(b_.targets) == 1 and isinstance(b_.targets[0], ast.Name) and b_.targets[0].id == X and
                                            _creates_object(b_.value) for b_ in block[:i])
                                # ... or nothing the body does can reach X at all: only pure library calls, X itself only read by subscripts
                                quiet = all((_txt(c_.func) in PURE_FUNCS) or (isinstance(c_.func, ast.Attribute) and c_.func.attr in PURE_METHODS)
                                            for x in st.body for c_ in ast.walk(x) if isinstance(c_, ast.Call)) and \
                                    not any(isinstance(n, ast.Name) and n.id == X and isinstance(n.ctx, (ast.Store, ast.Del)) for x in st.body for n in ast.walk(x))
                                stable = len(xs) == len(subs) and (X not in params or quiet) and (fresh or quiet)
                            pre, post = st.body[:k], st.body[k + 1:]
                            pre_ok = all(isinstance(x, ast.Assign) and len(x.targets) == 1 and isinstance(x.targets[0], ast.Name) and _pure(x.value, True) for x in pre)
                            if k == len(st.body) - 1:
                                shape_ok = not _has_loose(st.body, (ast.Continue,))
                            else:
                                shape_ok = pre_ok and not _reads(post, iv)
                            after = _reads(block[i + 1:], iv)
                            betw_ok = all(isinstance(x, ast.Assign) and not any(isinstance(n, ast.Name) and n.id == iv for n in ast.walk(x)) for x in between)
                            if one and stable and shape_ok and not after and betw_ok:
                                start = block[j0].value
                                args = [bound] if isinstance(start, ast.Constant) and start.value == 0 and stride == 1 else [start, bound]
                                if stride != 1:
                                    args.append(ast.Constant(value=stride))
                                new_body = pre + post
                                loop = ast.For(target=ast.Name(id=iv, ctx=ast.Store()), iter=ast.Call(func=ast.Name(id='range', ctx=ast.Load()), args=args, keywords=[]),
                                               body=new_body or [ast.Pass()], orelse=[], lineno=st.lineno)
                                block[i] = ast.copy_location(loop, st)
                                del block[j0]
                                # `i = index` as the first statement, index used nowhere else: the loop variable is i
                                lp = block[i - 1]
                                f0 = lp.body[0] if lp.body else None
                                if isinstance(f0, ast.Assign) and len(f0.targets) == 1 and isinstance(f0.targets[0], ast.Name) and isinstance(f0.value, ast.Name) and f0.value.id == iv and \
                                        len(_reads(lp.body, iv)) == 1 and f0.targets[0].id not in params and \
                                        not any(isinstance(n, ast.Name) and n.id == f0.targets[0].id and isinstance(n.ctx, ast.Store) for x in lp.body[1:] for n in ast.walk(x)):
                                    lp.target.id = f0.targets[0].id
                                    lp.body = lp.body[1:] or [ast.copy_location(ast.Pass(), f0)]
                                changed = True
                                total += 1
                                break
                    # ---- (A') `while True: [if C: break;] B [; if v: break]`  ->  `while not C: B`  where the reference tests at the top ----
                    now_tests = [_txt(n.test) for n in _own_walk(fn) if isinstance(n, ast.While)]
                    missing_tests = [t for t in ref_wh.get(q, []) if t not in ('True', '(True)', '1') and t not in now_tests]
                    if missing_tests and st.body and isinstance(st.body[0], ast.If) and not st.body[0].orelse and len(st.body[0].body) == 1 and isinstance(st.body[0].body[0], ast.Break):
                        # `while T: if C: break; B`  is  `while T and not C: B`  (C is evaluated right after T either way)
                        from .cfg import canon_test as _ct
                        f0 = st.body[0]
                        notc = f0.test.operand if isinstance(f0.test, ast.UnaryOp) and isinstance(f0.test.op, ast.Not) else ast.UnaryOp(op=ast.Not(), operand=f0.test)
                        cand = notc if _const_truth(st.test) is True else ast.BoolOp(op=ast.And(), values=[st.test, notc])
                        ast.fix_missing_locations(ast.copy_location(cand, st.test))
                        try:
                            wanted = {_ct(ast.parse(t_, mode='eval').body) for t_ in missing_tests}
                            hit = _ct(cand) in wanted
                        except SyntaxError:
                            hit = False
                        if hit:
                            st.test = cand
                            st.body = st.body[1:] or [ast.copy_location(ast.Pass(), f0)]
                            changed = True
                            total += 1
                            break
                    if missing_tests and _const_truth(st.test) is True and st.body:
                        f0, fl = st.body[0], st.body[-1]
                        if isinstance(f0, ast.If) and not f0.orelse and len(f0.body) == 1 and isinstance(f0.body[0], ast.Break) and \
                                _txt(ast.UnaryOp(op=ast.Not(), operand=f0.test)) in missing_tests + ['not (%s)' % t for t in missing_tests] or \
                                (isinstance(f0, ast.If) and not f0.orelse and len(f0.body) == 1 and isinstance(f0.body[0], ast.Break) and 'not ' + _txt(f0.test) in missing_tests):
                            st.test = ast.copy_location(ast.UnaryOp(op=ast.Not(), operand=f0.test), st.test)
                            st.body = st.body[1:] or [ast.copy_location(ast.Pass(), f0)]
                            changed = True
                            total += 1
                            break
                        if isinstance(fl, ast.If) and not fl.orelse and len(fl.body) == 1 and isinstance(fl.body[0], ast.Break) and isinstance(fl.test, ast.Name) and \
                                'not ' + fl.test.id in missing_tests and len(st.body) > 1 and not _has_loose(st.body[:-1], (ast.Break, ast.Continue)) and \
                                not any(isinstance(n, ast.Name) and n.id == fl.test.id and isinstance(n.ctx, ast.Load) for x in block[:i] for n in ast.walk(x)):
                            # do-while on a flag the body sets: the first turn always runs, as with `flag = False; while not flag:`
                            v = fl.test.id
                            st.test = ast.copy_location(ast.UnaryOp(op=ast.Not(), operand=ast.Name(id=v, ctx=ast.Load())), st.test)
                            st.body = st.body[:-1]
                            block.insert(i, ast.copy_location(ast.Assign(targets=[ast.Name(id=v, ctx=ast.Store())], value=ast.Constant(value=False), lineno=st.lineno), st))
                            changed = True
                            total += 1
                            break
                    # ---- (A) ----
                    if lack_true and _const_truth(st.test) is None:
                        t = st.test
                        neg = t.operand if isinstance(t, ast.UnaryOp) and isinstance(t.op, ast.Not) else ast.copy_location(ast.UnaryOp(op=ast.Not(), operand=t), t)
                        guard = ast.copy_location(ast.If(test=neg, body=[ast.copy_location(ast.Break(), st)], orelse=[]), st)
                        st.test = ast.copy_location(ast.Constant(value=True), t)
                        st.body = [guard] + st.body
                        changed = True
                        total += 1
                        break
                if changed:
                    break
            if not changed:
                break
    if total:
        ast.fix_missing_locations(tree)
    return total


def _else_default_shape(st):
    """(name, final else value) when ``st`` is an if / elif chain whose every branch is exactly one plain binding of the same local and whose
    final else binds it to a literal, a name or a dotted constant; else None"""
    name, cur = None, st
    while True:
        if not (isinstance(cur, ast.If) and len(cur.body) >= 1 and isinstance(cur.body[-1], ast.Assign) and len(cur.body[-1].targets) == 1 and isinstance(cur.body[-1].targets[0], ast.Name)):
            return None
        n_ = cur.body[-1].targets[0].id
        if name is None:
            name = n_
        elif n_ != name:
            return None
        # (statements in front of the binding prepare its value: they do not touch the name, and they do not leave)
        if any(isinstance(x, ast.Name) and x.id == name for x in ast.walk(cur.test)) or any(isinstance(x, ast.Name) and x.id == name for x in ast.walk(cur.body[-1].value)) or \
                any(isinstance(x, ast.Name) and x.id == name for s_ in cur.body[:-1] for x in ast.walk(s_)) or \
                any(isinstance(x, (ast.Return, ast.Raise, ast.Break, ast.Continue, ast.FunctionDef, ast.ClassDef)) for s_ in cur.body[:-1] for x in ast.walk(s_)):
            return None
        if len(cur.orelse) == 1 and isinstance(cur.orelse[0], ast.If):
            cur = cur.orelse[0]
            continue
        if len(cur.orelse) == 1 and isinstance(cur.orelse[0], ast.Assign) and len(cur.orelse[0].targets) == 1 and isinstance(cur.orelse[0].targets[0], ast.Name) and \
                cur.orelse[0].targets[0].id == name:
            v = cur.orelse[0].value
            if isinstance(v, ast.Constant) or (isinstance(v, (ast.Name, ast.Attribute)) and all(isinstance(x, (ast.Name, ast.Attribute, ast.Load)) for x in ast.walk(v)) and
                                                  not any(isinstance(x, ast.Name) and x.id == name for x in ast.walk(v))) or \
                    (isinstance(v, ast.UnaryOp) and isinstance(v.operand, ast.Constant)):
                return name, cur
        return None


def else_default_texts(fn):
    return sorted(_shape_txt(n) for n in _own_walk(fn) if isinstance(n, ast.If) and _else_default_shape(n) is not None)


def default_bind_texts(fn):
    """'v = D' for every `v = D` (D simple) directly followed by an if without final else whose branches re-bind v: the defaults the
    function sets before deciding"""
    out = []
    for block in _blocks(fn):
        for a, b in zip(block, block[1:]):
            if isinstance(a, ast.Assign) and len(a.targets) == 1 and isinstance(a.targets[0], ast.Name) and isinstance(b, ast.If):
                v = a.targets[0].id
                cur, ok = b, False
                while isinstance(cur, ast.If):
                    if any(isinstance(x, ast.Name) and x.id == v and isinstance(x.ctx, ast.Store) for s_ in cur.body for x in ast.walk(s_)):
                        ok = True
                    if len(cur.orelse) == 1 and isinstance(cur.orelse[0], ast.If):
                        cur = cur.orelse[0]
                    else:
                        if cur.orelse:
                            ok = False
                        break
                if ok:
                    out.append('%s = %s' % (v, _txt(a.value)))
    return sorted(out)


def hoist_else_defaults(tree, ref):
    """`if c: v = A  [elif ..: v = B]  else: v = D`  (D a literal / plain name / dotted constant, the tests do not read v)  ->
    `v = D; if c: v = A [elif ..: v = B]`: binding a default cannot fail and nothing looks at v in between.  Only chains the reference
    function does not have in that form."""
    known = ref.get('else_defaults')
    binds = ref.get('default_binds')
    if known is None or binds is None:
        return 0
    total = 0
    for q, fn in functions(tree):
        keep = list(known.get(q, []))
        # only defaults the reference function sets that way and this one does not
        lacking = [b_ for b_ in binds.get(q, []) if b_ not in default_bind_texts(fn)]
        if not lacking:
            continue
        for block in _blocks(fn):
            i = 0
            while i < len(block):
                st = block[i]
                sh = _else_default_shape(st) if isinstance(st, ast.If) else None
                if sh is not None:
                    t_ = _shape_txt(st)
                    if t_ in keep:
                        keep.remove(t_)
                    elif '%s = %s' % (sh[0], _txt(sh[1].orelse[0].value)) in lacking:
                        name, last = sh
                        dflt = last.orelse[0]
                        lacking.remove('%s = %s' % (name, _txt(dflt.value)))
                        last.orelse = []
                        for x_ in ast.walk(dflt):                  # it now stands in front of the chain: rules order statements by line
                            if hasattr(x_, 'lineno'):
                                x_.lineno = x_.end_lineno = st.lineno - 0.5
                        block.insert(i, dflt)
                        i += 1
                        total += 1
                i += 1
    if total:
        ast.fix_missing_locations(tree)
    return total


def restore_self(tree, ref):
    """A method the reference wrote with `self` that was made a @staticmethod (it never used self) gets its first parameter back;
    `Class.m(..)` calls from methods of the class become `self.m(..)`.  Which object the function is looked up on does not change what
    it computes."""
    if 'decos' not in ref:
        return 0
    known, decos = set(ref.get('funcs', [])), ref['decos']
    total = 0
    for q, c in classes(tree):
        changed = set()
        for st in c.body:
            if not isinstance(st, ast.FunctionDef):
                continue
            fq = '%s.%s' % (q, st.name)
            d = [_txt(x) for x in st.decorator_list]
            if fq in known and d == ['staticmethod'] and 'staticmethod' not in decos.get(fq, []) and \
                    not any(isinstance(n, ast.Name) and n.id == 'self' for n in ast.walk(st)) and not any(a.arg == 'self' for a in st.args.args):
                st.decorator_list = []
                st.args.args.insert(0, ast.arg(arg='self', annotation=None))
                changed.add(st.name)
        if not changed:
            continue
        short = q.split('.')[-1]
        for st in c.body:
            if isinstance(st, ast.FunctionDef) and st.args.args and st.args.args[0].arg == 'self' and not st.decorator_list:
                for n in ast.walk(st):
                    if isinstance(n, ast.Attribute) and n.attr in changed and isinstance(n.value, ast.Name) and n.value.id == short:
                        n.value.id = 'self'
        total += len(changed)
    return total


def restore_closures(tree, ref):
    """A nested function of the reference that became a private method bound with functools.partial (or a lambda) at the place
    where the closure was passed:  partial(self._m, a, b)  ->  the nested function again, with a, b captured.  Only when the bound
    arguments are names the enclosing function never re-binds (a closure reads them at call time, partial at bind time)."""
    known = set(ref.get('funcs', []))
    fl = functions(tree)
    have = {q for q, _ in fl}
    byq = dict(fl)
    total = 0
    for q, fn in fl:
        pre = q + '.<locals>.'
        missing = [k for k in known if k.startswith(pre) and '.<locals>.' not in k[len(pre):] and k not in have]
        if len(missing) != 1 or '.' not in q or not fn.args.args:
            continue
        cls_q, me = q.rsplit('.', 1)[0], fn.args.args[0].arg
        sites = []
        for n in _own_walk(fn):
            call = None
            if isinstance(n, ast.Call) and _txt(n.func) in ('partial', 'functools.partial') and n.args and not n.keywords:
                tgt, bound, extra = n.args[0], n.args[1:], None
                call = n
            elif isinstance(n, ast.Lambda) and isinstance(n.body, ast.Call) and not n.body.keywords and not (n.args.vararg or n.args.kwarg or n.args.kwonlyargs or n.args.defaults):
                lp = [a.arg for a in n.args.args]
                tgt, allargs = n.body.func, n.body.args
                if lp and [_txt(a) for a in allargs[len(allargs) - len(lp):]] != lp:
                    continue
                bound, extra = allargs[:len(allargs) - len(lp)], lp
                call = n
            if call is None or not (isinstance(tgt, ast.Attribute) and isinstance(tgt.value, ast.Name) and tgt.value.id == me):
                continue
            mq = '%s.%s' % (cls_q, tgt.attr)
            if mq in known or mq not in byq:
                continue
            sites.append((call, byq[mq], bound))
        if len(sites) != 1:
            continue
        call, helper, bound = sites[0]
        stored = _stores(fn.body)
        if not all(isinstance(b, ast.Constant) or (isinstance(b, ast.Name) and b.id not in stored) for b in bound):
            continue
        ha = helper.args
        if ha.vararg or ha.kwarg or ha.kwonlyargs or ha.posonlyargs or helper.decorator_list or len(ha.args) < 1 + len(bound) or ha.args[0].arg != me:
            continue
        names = [a.arg for a in ha.args[1:]]
        sub = {p_: b for p_, b in zip(names, bound) if not (isinstance(b, ast.Name) and b.id == p_)}
        if any(p_ in _stores(helper.body) for p_ in sub):
            continue
        body = copy.deepcopy(helper.body)
        if sub:
            s_ = _Subst(sub)
            body = [s_.visit(x) for x in body]
        rest = ha.args[1 + len(bound):]
        nd = len(ha.defaults)
        short = missing[0][len(pre):]
        nested = ast.FunctionDef(name=short, args=ast.arguments(posonlyargs=[], args=copy.deepcopy(rest), vararg=None, kwonlyargs=[], kw_defaults=[], kwarg=None,
                                                                defaults=copy.deepcopy(ha.defaults[max(0, nd - len(rest)):]) if nd else []),
                                 body=body, decorator_list=[], returns=None, type_comment=None, type_params=[])
        ast.copy_location(nested, helper)
        at = 1 if _has_doc(fn.body) else 0
        fn.body.insert(at, nested)

        class R(ast.NodeTransformer):
            def visit(self, n):
                if n is call:
                    return ast.copy_location(ast.Name(id=short, ctx=ast.Load()), n)
                return super().visit(n)
        for i in range(at + 1, len(fn.body)):
            fn.body[i] = R().visit(fn.body[i])
        refs = [n for n in ast.walk(tree) if isinstance(n, ast.Attribute) and n.attr == helper.name]
        if not refs:
            for parent in ast.walk(tree):
                b = getattr(parent, 'body', None)
                if isinstance(b, list) and helper in b:
                    b.remove(helper)
        total += 1
    return total


def unname_lambdas(tree, ref):
    """A nested function the reference does not have, whose body is one `return <expression>` and which is only handed on as a value
    (never called by its name, never re-bound) is the lambda it replaced:  def retry(): return self._m(pk, p)  ...  Timer(t, retry)
    ->  Timer(t, lambda: self._m(pk, p)).  Both read the enclosing variables when they run."""
    known = set(ref.get('funcs', []))
    total = 0
    for q, fn in functions(tree):
        pre = q + '.<locals>.'
        for holder in list(_fn_walk(fn)):
            for fld in ('body', 'orelse', 'finalbody'):
                body = getattr(holder, fld, None)
                if not isinstance(body, list):
                    continue
                for st in list(body):
                    if not (isinstance(st, ast.FunctionDef) and (pre + st.name) not in known and not st.decorator_list):
                        continue
                    inner = st.body[1:] if _has_doc(st.body) else st.body
                    a = st.args
                    if len(inner) != 1 or not isinstance(inner[0], ast.Return) or inner[0].value is None or a.vararg or a.kwarg or a.kwonlyargs or a.posonlyargs:
                        continue
                    if any(isinstance(x, (ast.Yield, ast.YieldFrom, ast.Await, ast.NamedExpr)) for x in ast.walk(inner[0].value)):
                        continue
                    if _stores(fn.body).get(st.name, 0) != 0:
                        continue
                    uses = [x for x in ast.walk(fn) if isinstance(x, ast.Name) and x.id == st.name and isinstance(x.ctx, ast.Load)]
                    called = [c for c in ast.walk(fn) if isinstance(c, ast.Call) and isinstance(c.func, ast.Name) and c.func.id == st.name]
                    inside = {id(x) for x in ast.walk(st)}
                    if not uses or called or any(id(u) in inside for u in uses):
                        continue
                    if sum(1 for x in ast.walk(fn) if isinstance(x, ast.FunctionDef) and x.name == st.name) != 1:
                        continue
                    lam = ast.Lambda(args=copy.deepcopy(a), body=inner[0].value)
                    for u in uses:
                        new = copy.deepcopy(lam)
                        for parent in ast.walk(fn):
                            done = False
                            for f2, val in ast.iter_fields(parent):
                                if val is u:
                                    setattr(parent, f2, ast.copy_location(new, u))
                                    done = True
                                elif isinstance(val, list):
                                    for i, x in enumerate(val):
                                        if x is u:
                                            val[i] = ast.copy_location(new, u)
                                            done = True
                            if done:
                                break
                    body.remove(st)
                    if not body:
                        body.append(ast.copy_location(ast.Pass(), st))
                    total += 1
    # the same for a new module-level function that is only handed on as a value (`reduce(_add, xs)`)
    for st in list(tree.body):
        if not (isinstance(st, ast.FunctionDef) and st.name not in known and not st.decorator_list and st.name.startswith('_')):
            continue
        inner = st.body[1:] if _has_doc(st.body) else st.body
        a = st.args
        if len(inner) != 1 or not isinstance(inner[0], ast.Return) or inner[0].value is None or a.vararg or a.kwarg or a.kwonlyargs or a.posonlyargs or a.defaults:
            continue
        params = {x.arg for x in a.args}
        free = {x.id for x in ast.walk(inner[0].value) if isinstance(x, ast.Name)} - params
        if free:
            continue                                           # reads module state: leave it alone
        uses = [x for x in ast.walk(tree) if isinstance(x, ast.Name) and x.id == st.name and isinstance(x.ctx, ast.Load)]
        called = [c for c in ast.walk(tree) if isinstance(c, ast.Call) and isinstance(c.func, ast.Name) and c.func.id == st.name]
        rebound = [x for x in ast.walk(tree) if (isinstance(x, ast.Name) and x.id == st.name and isinstance(x.ctx, (ast.Store, ast.Del))) or
                   (isinstance(x, (ast.FunctionDef, ast.ClassDef)) and x.name == st.name and x is not st) or (isinstance(x, ast.arg) and x.arg == st.name)]
        if not uses or called or rebound:
            continue
        lam = ast.Lambda(args=copy.deepcopy(a), body=inner[0].value)
        for u in uses:
            new = copy.deepcopy(lam)
            for parent in ast.walk(tree):
                done = False
                for f2, val in ast.iter_fields(parent):
                    if val is u:
                        setattr(parent, f2, ast.copy_location(new, u))
                        done = True
                    elif isinstance(val, list):
                        for i, x in enumerate(val):
                            if x is u:
                                val[i] = ast.copy_location(new, u)
                                done = True
                if done:
                    break
        tree.body.remove(st)
        total += 1
    return total


def restore_closures_from_objects(tree, ref):
    """A nested function of the reference that became a small callable-object class: `h = K(a, b)` ... `h.m` where K.__init__ only
    stores its arguments and m is K's only other method  ->  the nested function again, with a, b captured.  The object keeps the values
    it was built with, a closure reads the variables when called: only names the enclosing function never re-binds may be captured."""
    if 'classes' not in ref:
        return 0
    known = set(ref.get('funcs', []))
    known_classes = set(ref.get('classes', []))
    total = 0
    cands = {}
    for st in tree.body:
        if not (isinstance(st, ast.ClassDef) and st.name not in known_classes and not st.decorator_list and not st.keywords and
                all(_txt(b) == 'object' for b in st.bases)):
            continue
        body = st.body[1:] if _has_doc(st.body) else st.body
        body = [x for x in body if not (isinstance(x, ast.Assign) and len(x.targets) == 1 and _txt(x.targets[0]) == '__slots__')]
        if len(body) != 2 or not all(isinstance(x, ast.FunctionDef) and not x.decorator_list for x in body):
            continue
        init = [x for x in body if x.name == '__init__']
        meth = [x for x in body if x.name != '__init__']
        if len(init) != 1 or len(meth) != 1 or meth[0].name.startswith('__'):
            continue
        ia = init[0].args
        if ia.vararg or ia.kwarg or ia.kwonlyargs or ia.posonlyargs or ia.defaults or not ia.args:
            continue
        me = ia.args[0].arg
        params = [a.arg for a in ia.args[1:]]
        amap, ok = {}, True
        for x in (init[0].body[1:] if _has_doc(init[0].body) else init[0].body):
            if isinstance(x, ast.Assign) and len(x.targets) == 1 and isinstance(x.targets[0], ast.Attribute) and isinstance(x.targets[0].value, ast.Name) and \
                    x.targets[0].value.id == me and isinstance(x.value, ast.Name) and x.value.id in params and x.targets[0].attr not in amap:
                amap[x.targets[0].attr] = x.value.id
            else:
                ok = False
        ma = meth[0].args
        if not ok or ma.vararg or ma.kwarg or ma.kwonlyargs or ma.posonlyargs or not ma.args:
            continue
        cands[st.name] = (st, params, amap, meth[0])
    if not cands:
        return 0
    fl = functions(tree)
    have = {q for q, _ in fl}
    for q, fn in fl:
        pre = q + '.<locals>.'
        missing = [k for k in known if k.startswith(pre) and '.<locals>.' not in k[len(pre):] and k not in have]
        if len(missing) != 1:
            continue
        short = missing[0][len(pre):]
        for block in _blocks(fn):
            for i, st in enumerate(block):
                if not (isinstance(st, ast.Assign) and len(st.targets) == 1 and isinstance(st.targets[0], ast.Name) and isinstance(st.value, ast.Call) and
                        isinstance(st.value.func, ast.Name) and st.value.func.id in cands and not st.value.keywords):
                    continue
                klass, params, amap, m = cands[st.value.func.id]
                h = st.targets[0].id
                args = st.value.args
                if len(args) != len(params) or any(isinstance(a, ast.Starred) for a in args):
                    continue
                stored = _stores(fn.body)
                fparams = {a.arg for a in fn.args.posonlyargs + fn.args.args + fn.args.kwonlyargs}
                nstores = {}
                for n in _own_walk(fn):
                    if isinstance(n, ast.Name) and isinstance(n.ctx, ast.Store):
                        nstores[n.id] = nstores.get(n.id, 0) + 1
                if not all(isinstance(a, ast.Constant) or (isinstance(a, ast.Name) and (a.id not in stored or (a.id not in fparams and nstores.get(a.id) == 1))) for a in args):
                    continue
                if nstores.get(h) != 1 or short in stored or short in fparams or any(isinstance(n, ast.Name) and n.id == short for n in ast.walk(fn)):
                    continue
                # every other mention of h is `h.m`
                uses = [n for n in ast.walk(fn) if isinstance(n, ast.Name) and n.id == h and n is not st.targets[0]]
                attrs = [n for n in ast.walk(fn) if isinstance(n, ast.Attribute) and isinstance(n.value, ast.Name) and n.value.id == h and n.attr == m.name and isinstance(n.ctx, ast.Load)]
                if len(uses) != len(attrs):
                    continue
                me = m.args.args[0].arg
                given = dict(zip(params, args))
                body = copy.deepcopy(m.body)
                bad = [False]

                class S(ast.NodeTransformer):
                    def visit_Attribute(self, n):
                        if isinstance(n.value, ast.Name) and n.value.id == me:
                            if n.attr in amap and isinstance(n.ctx, ast.Load):
                                return ast.copy_location(copy.deepcopy(given[amap[n.attr]]), n)
                            if n.attr == m.name and isinstance(n.ctx, ast.Load):
                                return ast.copy_location(ast.Name(id=short, ctx=ast.Load()), n)
                            bad[0] = True
                            return n
                        self.generic_visit(n)
                        return n

                    def visit_Name(self, n):
                        if n.id == me:
                            bad[0] = True
                        return n
                body = [S().visit(x) for x in body]
                # names of the method body must mean the same in the enclosing function: its own parameters/locals shadow nothing captured
                mlocals = set(_stores(m.body)) | {a.arg for a in m.args.args[1:]}
                captured = {a.id for a in args if isinstance(a, ast.Name)}
                if bad[0] or (mlocals & captured):
                    continue
                nd = len(m.args.defaults)
                rest = m.args.args[1:]
                nested = ast.FunctionDef(name=short, args=ast.arguments(posonlyargs=[], args=copy.deepcopy(rest), vararg=None, kwonlyargs=[], kw_defaults=[], kwarg=None,
                                                                        defaults=copy.deepcopy(m.args.defaults[max(0, nd - len(rest)):]) if nd else []),
                                         body=body, decorator_list=[], returns=None, type_comment=None, type_params=[])
                ast.copy_location(nested, st)
                block[i] = nested

                class R(ast.NodeTransformer):
                    def visit_Attribute(self, n):
                        if any(n is a for a in attrs):
                            return ast.copy_location(ast.Name(id=short, ctx=ast.Load()), n)
                        self.generic_visit(n)
                        return n
                for k, x in enumerate(fn.body):
                    if x is not nested:
                        fn.body[k] = R().visit(x)
                total += 1
                break
    if total:
        for name, (klass, _, _, _) in cands.items():
            if not any(isinstance(n, ast.Name) and n.id == name for n in ast.walk(tree)) and klass in tree.body:
                tree.body.remove(klass)
        ast.fix_missing_locations(tree)
    return total


def import_shape(tree):
    """({bound name: 'module.attr'} for from-imports, [module names bound by plain imports]) at module level (incl. try/if blocks)"""
    frm, mods = {}, []

    def rec(body):
        for st in body:
            if isinstance(st, ast.ImportFrom) and st.module and not st.level:
                for a in st.names:
                    if a.name != '*':
                        frm[a.asname or a.name] = '%s.%s' % (st.module, a.name)
            elif isinstance(st, ast.Import):
                for a in st.names:
                    mods.append(a.asname or a.name.split('.')[0])
            elif isinstance(st, (ast.If, ast.Try)):
                for sub in ([st.body, st.orelse] if isinstance(st, ast.If) else [st.body, st.orelse, st.finalbody] + [h.body for h in st.handlers]):
                    rec(sub)
    rec(tree.body)
    return frm, sorted(set(mods))


def shape_of(tree):
    return {
        'arity': {q: len(f.args.args) + len(f.args.kwonlyargs) for q, f in functions(tree)},
        'params': {q: [a.arg for a in f.args.posonlyargs + f.args.args + f.args.kwonlyargs] for q, f in functions(tree)},
        'from_imports': import_shape(tree)[0], 'imports': import_shape(tree)[1],
        'loops': {q: loop_texts(f) for q, f in functions(tree) if loop_texts(f)},
        'comps': {q: comp_texts(f) for q, f in functions(tree) if comp_texts(f)},
        'consts': sorted(const_names(tree)),
        'funcs': sorted(q for q, _ in functions(tree)),
        'classes': sorted(q for q, _ in classes(tree)),
        'attr_names': sorted({n.attr for n in ast.walk(tree) if isinstance(n, ast.Attribute)}),
        'func_order': [q for q, _ in functions(tree)],
        'attrs': {q: class_attr_order(c) for q, c in classes(tree)},
        'ifexps': {q: ifexp_texts(f) for q, f in functions(tree) if ifexp_texts(f)},
        'fmt': {q: fmt_shape(f) for q, f in functions(tree) if fmt_shape(f)},
        'decos': {q: [_txt(d) for d in f.decorator_list] for q, f in functions(tree) if f.decorator_list},
        'ends_with_return': sorted(q for q, f in functions(tree) if f.body and isinstance(f.body[-1], ast.Return)),
        'bool_returns': {q: _bool_returns(f) for q, f in functions(tree) if _bool_returns(f)},
        'calls': {q: call_counts(f) for q, f in functions(tree) if call_counts(f)},
        'whiles': {q: while_texts(f) for q, f in functions(tree) if while_texts(f)},
        'else_defaults': {q: else_default_texts(f) for q, f in functions(tree) if else_default_texts(f)},
        'default_binds': {q: default_bind_texts(f) for q, f in functions(tree) if default_bind_texts(f)},
        'kwcalls': {q: keyword_call_texts(f) for q, f in functions(tree) if keyword_call_texts(f)},
        'constexprs': {q: const_expr_texts(f) for q, f in functions(tree) if const_expr_texts(f)},
        'intlits': {q: int_literals(f) for q, f in functions(tree) if int_literals(f)},
        'augs': {q: aug_forms(f) for q, f in functions(tree) if aug_forms(f)},
        'raises': {q: sorted({_txt(r.exc) for r in _fn_walk(f) if isinstance(r, ast.Raise) and r.exc is not None}) for q, f in functions(tree)
                   if any(isinstance(r, ast.Raise) and r.exc is not None for r in _fn_walk(f))},
        'passifs': {q: sum(1 for n in _fn_walk(f) if isinstance(n, ast.If) and n.orelse and all(isinstance(x, ast.Pass) for x in n.body)) for q, f in functions(tree)
                    if any(isinstance(n, ast.If) and n.orelse and all(isinstance(x, ast.Pass) for x in n.body) for n in _fn_walk(f))},
        'continues': {q: sum(1 for n in _fn_walk(f) if isinstance(n, ast.Continue)) for q, f in functions(tree) if any(isinstance(n, ast.Continue) for n in _fn_walk(f))},
        'lentests': {q: len_test_texts(f) for q, f in functions(tree) if len_test_texts(f)},
        'listtargets': {q: sorted({_txt(t) for a in _fn_walk(f) if isinstance(a, ast.Assign) for t in a.targets if isinstance(t, ast.List)}) for q, f in functions(tree)
                        if any(isinstance(t, ast.List) for a in _fn_walk(f) if isinstance(a, ast.Assign) for t in a.targets)},
    }


def call_counts(fn):
    """{callee text: number of call sites} of a function (own scope and lambdas; nested defs excluded)"""
    out = {}
    for n in _own_walk(fn):
        if isinstance(n, ast.Call):
            t = _txt(n.func)
            if len(t) <= 60:
                out[t] = out.get(t, 0) + 1
    return out



# ---------------------------------------------------------------------------------------------- keyword arguments
def keyword_call_texts(fn):
    """['callee(k1,k2)', ..] of the calls that pass keyword arguments (own scope)"""
    out = set()
    for n in _own_walk(fn):
        if isinstance(n, ast.Call) and n.keywords and all(k.arg for k in n.keywords):
            out.add('%s(%s)' % (_txt(n.func)[:60], ','.join(k.arg for k in n.keywords)))
    return sorted(out)


_SIGS = {}


def _package_signatures(model):
    """{name: set of parameter-name tuples} for every function / method / class constructor of the package (self / cls dropped).
    A callee is resolved by NAME only when every definition of that name in the package has the same parameter list."""
    key = (getattr(model, 'root', None), hash(tuple(sorted((k, hash(v)) for k, v in getattr(model, 'overlay', {}).items()))))
    if key in _SIGS:
        return _SIGS[key]
    sigs = {}

    def sig(fn, method):
        a = fn.args
        if a.vararg or a.kwarg or a.posonlyargs:
            return None
        ps = [x.arg for x in a.args]
        static = any(_txt(d) == 'staticmethod' for d in fn.decorator_list)
        if method and not static:
            ps = ps[1:]
        return tuple(ps)

    def add(name, val):
        sigs.setdefault(name, set()).add(val)

    def scan(tree):
        for st in tree.body:
            if isinstance(st, ast.FunctionDef):
                add(st.name, sig(st, False))
        for n in ast.walk(tree):
            if isinstance(n, ast.ClassDef):
                init = None
                for st in n.body:
                    if isinstance(st, ast.FunctionDef):
                        add('.' + st.name, sig(st, True))
                        if st.name == '__init__':
                            init = st
                add(n.name, sig(init, True) if init is not None else None)
    root = key[0]
    srcs = []
    if root:
        import glob as _glob
        for pkg in ('cflib', 'lpslib'):
            for f in sorted(_glob.glob(os.path.join(root, pkg, '**', '*.py'), recursive=True)):
                rel = os.path.relpath(f, root)
                if rel in getattr(model, 'overlay', {}):
                    continue
                try:
                    srcs.append(open(f, encoding='utf-8').read())
                except OSError:
                    pass
    srcs += list(getattr(model, 'overlay', {}).values())
    for src in srcs:
        try:
            scan(ast.parse(src))
        except SyntaxError:
            pass
    _SIGS[key] = sigs
    return sigs


def positionalise_keywords(tree, ref, model):
    """`pk.set_header(port=5, channel=CHAN)` -> `pk.set_header(5, CHAN)`: a call that names its arguments where the reference function
    made no such call is written positionally, when the callee is a function of this package whose parameter list is known (every
    definition of that name in the package has the same one), the named parameters directly follow the positional ones and the
    argument expressions are simple when their order changes."""
    if model is None or 'kwcalls' not in ref:
        return 0
    sigs = _package_signatures(model)
    rk = ref.get('kwcalls', {})
    n = 0
    anywhere = {t for ts in rk.values() for t in ts}             # a spelling some reference function of this module uses may arrive through a new helper
    ref_funcs = set(ref.get('funcs', []))
    for q, f in functions(tree):
        known = set(rk.get(q, ())) | (anywhere if q not in ref_funcs else set())
        for c in _own_walk(f):
            if not (isinstance(c, ast.Call) and c.keywords and all(k.arg for k in c.keywords)) or any(isinstance(a, ast.Starred) for a in c.args):
                continue
            if '%s(%s)' % (_txt(c.func)[:60], ','.join(k.arg for k in c.keywords)) in known:
                continue
            fn = c.func
            if isinstance(fn, ast.Name):
                cand = sigs.get(fn.id)
            elif isinstance(fn, ast.Attribute) and not (isinstance(fn.value, ast.Call) and _txt(fn.value.func) == 'super') and fn.attr != '__init__':
                cand = sigs.get('.' + fn.attr)
                if cand is None and isinstance(fn.value, ast.Name) and fn.value.id[:1].isupper():
                    cand = None
            else:
                cand = None
            if not cand or len(cand) != 1 or None in cand:
                continue
            params = list(next(iter(cand)))
            kw = {k.arg: k.value for k in c.keywords}
            if not set(kw) <= set(params):
                continue
            i = len(c.args)
            moved = []
            while i < len(params) and params[i] in kw:
                moved.append(params[i])
                i += 1
            if not moved:
                continue
            in_order = [k.arg for k in c.keywords][:len(moved)] == moved
            if not in_order and not all(_simple_arg(v) for v in kw.values()):
                continue
            c.args = list(c.args) + [kw[m] for m in moved]
            c.keywords = [k for k in c.keywords if k.arg not in moved]
            n += 1
    return n


# ---------------------------------------------------------------------------------------------- spelling
def _fn_walk(fn):
    """walk a function including its lambdas, excluding nested function / class definitions"""
    yield fn
    todo = list(ast.iter_child_nodes(fn))
    while todo:
        n = todo.pop()
        if isinstance(n, (ast.FunctionDef, ast.AsyncFunctionDef, ast.ClassDef)):
            continue
        yield n
        todo.extend(ast.iter_child_nodes(n))


_INT_OPS = {ast.Add: lambda a, b: a + b, ast.Sub: lambda a, b: a - b, ast.Mult: lambda a, b: a * b, ast.LShift: lambda a, b: a << b if 0 <= b < 64 else None,
            ast.RShift: lambda a, b: a >> b if 0 <= b < 64 else None, ast.BitOr: lambda a, b: a | b, ast.BitAnd: lambda a, b: a & b, ast.BitXor: lambda a, b: a ^ b}


def _const_value(e):
    """('int', v) / ('bytes', b'..') / ('ints', (..)) for an expression built from literals only, else None"""
    if isinstance(e, ast.Constant):
        if isinstance(e.value, bool):
            return None
        if isinstance(e.value, int):
            return ('int', e.value)
        if isinstance(e.value, bytes):
            return ('bytes', e.value)
        return None
    if isinstance(e, ast.BinOp) and type(e.op) in _INT_OPS:
        a, b = _const_value(e.left), _const_value(e.right)
        if a and b and a[0] == 'int' and b[0] == 'int':
            v = _INT_OPS[type(e.op)](a[1], b[1])
            return ('int', v) if v is not None and abs(v) < (1 << 70) else None
        return None
    if isinstance(e, ast.UnaryOp) and isinstance(e.op, (ast.USub, ast.Invert)):
        a = _const_value(e.operand)
        if a and a[0] == 'int':
            return ('int', -a[1] if isinstance(e.op, ast.USub) else ~a[1])
        return None
    if isinstance(e, (ast.Tuple, ast.List)) and e.elts and isinstance(getattr(e, 'ctx', None), ast.Load):
        vs = [_const_value(x) for x in e.elts]
        if all(v and v[0] == 'int' for v in vs):
            return ('ints', tuple(v[1] for v in vs))
        return None
    if isinstance(e, ast.Call) and isinstance(e.func, ast.Name) and e.func.id in ('bytes', 'bytearray') and len(e.args) == 1 and not e.keywords:
        a = _const_value(e.args[0])
        try:
            if a and a[0] == 'bytes':
                return (e.func.id, bytes(a[1]))
            if a and a[0] == 'ints':
                return (e.func.id, bytes(a[1]))
        except ValueError:
            return None
    return None


def _is_spelled(e):
    """a constant expression that is more than one literal"""
    return not isinstance(e, (ast.Constant, ast.Tuple, ast.List)) and _const_value(e) is not None


def _max_const_exprs(fn):
    out = []
    todo = list(ast.iter_child_nodes(fn))
    while todo:
        n = todo.pop()
        if isinstance(n, (ast.FunctionDef, ast.AsyncFunctionDef, ast.ClassDef)):
            continue
        if isinstance(n, ast.expr) and _is_spelled(n):
            out.append(n)
            continue
        todo.extend(ast.iter_child_nodes(n))
    return out


def const_expr_texts(fn):
    return {_txt(e): repr(_const_value(e)) for e in _max_const_exprs(fn)}


def int_literals(fn):
    inside = {id(x) for e in _max_const_exprs(fn) for x in ast.walk(e)}
    return sorted({n.value for n in _fn_walk(fn) if isinstance(n, ast.Constant) and isinstance(n.value, int) and not isinstance(n.value, bool) and id(n) not in inside})


def aug_forms(fn):
    """['+=:target', '=+:target', ..]: augmented assignments and their spelled-out forms `T = T op V`"""
    out = set()
    for n in _fn_walk(fn):
        if isinstance(n, ast.AugAssign):
            out.add('%s=:%s' % (type(n.op).__name__, _txt(n.target)))
        elif isinstance(n, ast.Assign) and len(n.targets) == 1 and isinstance(n.value, ast.BinOp) and _txt(n.value.left) == _txt(n.targets[0]):
            out.add('=%s:%s' % (type(n.value.op).__name__, _txt(n.targets[0])))
    return sorted(out)


def respell(tree, ref):
    """Spelling only: (1) a constant expression the reference function does not contain (`1 << 4`, `bytearray(b'\\x00')`) is written
    like the reference's expression of the same value if there is exactly one, else as the plain number; a plain number the reference
    function never writes, whose value the reference spells as one expression (`(1 << 9) - 1`), is written that way; (2) `T = T op V`
    <-> `T op= V` follows the reference's form for that target and operator (numbers and strings only: for `+` the target must be
    bound to a number / string literal somewhere in the function); (3) `raise E()` <-> `raise E`; (4) `[a, b] = ..` <-> `a, b = ..`."""
    if 'constexprs' not in ref:
        return 0
    n = 0
    for q, f in functions(tree):
        rce = ref['constexprs'].get(q, {})
        rl = set(ref.get('intlits', {}).get(q, []))
        byval = {}
        for t, v in rce.items():
            byval.setdefault(v, []).append(t)
        have = set()
        for e in _max_const_exprs(f):
            have.add(_txt(e))

        def repl(old, new_node):
            for parent in _fn_walk(f):
                for fld, val in ast.iter_fields(parent):
                    if val is old:
                        setattr(parent, fld, ast.copy_location(new_node, old))
                        return True
                    if isinstance(val, list):
                        for i, x in enumerate(val):
                            if x is old:
                                val[i] = ast.copy_location(new_node, old)
                                return True
            return False
        for e in _max_const_exprs(f):
            t = _txt(e)
            if t in rce:
                continue
            v = _const_value(e)
            cands = [c for c in byval.get(repr(v), []) if c not in have]
            if len(byval.get(repr(v), [])) == 1 and cands:
                if repl(e, ast.parse(cands[0], mode='eval').body):
                    have.add(cands[0])
                    n += 1
            elif v[0] == 'int':
                if repl(e, ast.Constant(value=v[1])):
                    n += 1
        # plain numbers that the reference spells as an expression
        have = {_txt(e) for e in _max_const_exprs(f)}
        inside = {id(x) for e in _max_const_exprs(f) for x in ast.walk(e)}
        for c in [x for x in _fn_walk(f) if isinstance(x, ast.Constant) and isinstance(x.value, int) and not isinstance(x.value, bool) and id(x) not in inside]:
            if c.value in rl:
                continue
            ts = byval.get(repr(('int', c.value)), [])
            if len(ts) == 1 and ts[0] not in have:
                if repl(c, ast.parse(ts[0], mode='eval').body):
                    n += 1
        # augmented forms
        ra = set(ref.get('augs', {}).get(q, []))
        lit_bound = set()
        for a in _fn_walk(f):
            if isinstance(a, ast.Assign) and isinstance(a.value, ast.Constant) and isinstance(a.value.value, (int, float, str, bytes)) and not isinstance(a.value.value, bool):
                for t in a.targets:
                    lit_bound.add(_txt(t))
        for node in list(_fn_walk(f)):
            for fld in ('body', 'orelse', 'finalbody'):
                body = getattr(node, fld, None)
                if not isinstance(body, list):
                    continue
                for i, st in enumerate(body):
                    if isinstance(st, ast.Assign) and len(st.targets) == 1 and isinstance(st.value, ast.BinOp) and _txt(st.value.left) == _txt(st.targets[0]):
                        T, op = _txt(st.targets[0]), type(st.value.op).__name__
                        if '=%s:%s' % (op, T) in ra or '%s=:%s' % (op, T) not in ra:
                            continue
                        if op in ('Add', 'Mult') and T not in lit_bound:
                            continue
                        tgt = copy.deepcopy(st.targets[0])
                        body[i] = ast.copy_location(ast.AugAssign(target=tgt, op=st.value.op, value=st.value.right), st)
                        n += 1
                    elif isinstance(st, ast.AugAssign):
                        T, op = _txt(st.target), type(st.op).__name__
                        if '%s=:%s' % (op, T) in ra or '=%s:%s' % (op, T) not in ra:
                            continue
                        if op in ('Add', 'Mult') and T not in lit_bound:
                            continue
                        left = copy.deepcopy(st.target)
                        for x in ast.walk(left):
                            if hasattr(x, 'ctx'):
                                x.ctx = ast.Load()
                        body[i] = ast.copy_location(ast.Assign(targets=[st.target], value=ast.BinOp(left=left, op=st.op, right=st.value)), st)
                        n += 1
        # raise E() / raise E
        rr = set(ref.get('raises', {}).get(q, []))
        for r in _fn_walk(f):
            if isinstance(r, ast.Raise) and r.exc is not None and _txt(r.exc) not in rr:
                if isinstance(r.exc, ast.Call) and not r.exc.args and not r.exc.keywords and isinstance(r.exc.func, ast.Name) and r.exc.func.id in rr:
                    r.exc = r.exc.func
                    n += 1
                elif isinstance(r.exc, ast.Name) and (r.exc.id + '()') in rr:
                    r.exc = ast.copy_location(ast.Call(func=r.exc, args=[], keywords=[]), r.exc)
                    n += 1
        # tuple(map(lambda v: E, X)) written as tuple(E for v in X): where the reference function calls map() and this one does not
        rc = ref.get('calls', {}).get(q, {})
        if rc.get('map') and not any(isinstance(c_, ast.Call) and _txt(c_.func) == 'map' for c_ in _fn_walk(f)):
            for c_ in list(_fn_walk(f)):
                if isinstance(c_, ast.Call) and len(c_.args) == 1 and not c_.keywords and isinstance(c_.args[0], ast.GeneratorExp):
                    ge = c_.args[0]
                    if len(ge.generators) == 1 and not ge.generators[0].ifs and not ge.generators[0].is_async and isinstance(ge.generators[0].target, ast.Name):
                        lam = ast.Lambda(args=ast.arguments(posonlyargs=[], args=[ast.arg(arg=ge.generators[0].target.id)], kwonlyargs=[], kw_defaults=[], defaults=[]), body=ge.elt)
                        c_.args[0] = ast.copy_location(ast.Call(func=ast.Name(id='map', ctx=ast.Load()), args=[lam, ge.generators[0].iter], keywords=[]), ge)
                        ast.fix_missing_locations(c_)
                        n += 1
        # list targets
        lt = set(ref.get('listtargets', {}).get(q, []))
        lt_ar = set()                                        # by arity as well: the locals may have been renamed (alpha runs later)
        for t_ in lt:
            try:
                lt_ar.add(len(ast.parse(t_, mode='eval').body.elts))
            except (SyntaxError, AttributeError):
                pass
        for a in _fn_walk(f):
            if isinstance(a, ast.Assign):
                for i, t in enumerate(a.targets):
                    if isinstance(t, ast.List) and _txt(t) not in lt and len(t.elts) not in lt_ar:
                        a.targets[i] = ast.copy_location(ast.Tuple(elts=t.elts, ctx=ast.Store()), t)
                        n += 1
                    elif isinstance(t, ast.Tuple) and ('[%s]' % ', '.join(_txt(e) for e in t.elts)) in lt:
                        a.targets[i] = ast.copy_location(ast.List(elts=t.elts, ctx=ast.Store()), t)
                        n += 1
    return n


# ---------------------------------------------------------------------------------------------- emptiness tests
def _test_positions(fn):
    """(parent, field, index or None, expr) for every expression of a function that is evaluated for its truth value"""
    out = []

    def operands(parent, fld, idx, e):
        out.append((parent, fld, idx, e))
        if isinstance(e, ast.BoolOp):
            for i, v in enumerate(e.values):
                operands(e, 'values', i, v)
        elif isinstance(e, ast.UnaryOp) and isinstance(e.op, ast.Not):
            operands(e, 'operand', None, e.operand)
    for n in _fn_walk(fn):
        if isinstance(n, (ast.If, ast.While, ast.IfExp, ast.Assert)):
            operands(n, 'test', None, n.test)
        elif isinstance(n, ast.comprehension):
            for i, c in enumerate(n.ifs):
                operands(n, 'ifs', i, c)
    return out


def _len_test(e):
    """('nonempty' | 'empty', X) for len(X) > 0, len(X) != 0, len(X) >= 1, len(X) / len(X) == 0, len(X) < 1, not len(X)"""
    def is_len(x):
        return isinstance(x, ast.Call) and isinstance(x.func, ast.Name) and x.func.id == 'len' and len(x.args) == 1 and not x.keywords
    if is_len(e):
        return 'nonempty', e.args[0]
    if isinstance(e, ast.Compare) and len(e.ops) == 1 and is_len(e.left) and isinstance(e.comparators[0], ast.Constant) and isinstance(e.comparators[0].value, int):
        k, op = e.comparators[0].value, type(e.ops[0])
        if (op, k) in ((ast.Gt, 0), (ast.NotEq, 0), (ast.GtE, 1)):
            return 'nonempty', e.left.args[0]
        if (op, k) in ((ast.Eq, 0), (ast.Lt, 1), (ast.LtE, 0)):
            return 'empty', e.left.args[0]
    return None


def len_test_texts(fn):
    """{'nonempty:X': 'len(X) > 0', 'empty:X': 'len(X) == 0', ..} - how the function spells its emptiness tests"""
    out = {}
    for _p, _f, _i, e in _test_positions(fn):
        lt = _len_test(e)
        if lt:
            out['%s:%s' % (lt[0], _txt(lt[1]))] = _txt(e)
    return out


def respell_len_tests(tree, ref):
    """`if X:` / `if not X:` where the reference function asks `len(X) > 0` / `len(X) == 0` (in whatever spelling) and never asks for
    the truth of X itself: the test is written the reference's way.  (For the sized containers the reference measures, the two
    agree; a value that has no len() is a different matter and not what a linter's rewrite produces.)"""
    rt = ref.get('lentests')
    if rt is None:
        return 0
    n = 0
    for q, f in functions(tree):
        want = rt.get(q)
        if not want:
            continue
        for parent, fld, idx, e in _test_positions(f):
            if isinstance(e, (ast.BoolOp, ast.Compare, ast.Call, ast.Constant)):
                continue
            if isinstance(e, ast.UnaryOp) and isinstance(e.op, ast.Not) and isinstance(e.operand, (ast.Name, ast.Attribute, ast.Subscript)):
                key = 'empty:' + _txt(e.operand)
                alt = 'nonempty:' + _txt(e.operand)
                if key in want:
                    new = ast.parse(want[key], mode='eval').body
                elif alt in want:
                    new = ast.UnaryOp(op=ast.Not(), operand=ast.parse(want[alt], mode='eval').body)
                else:
                    continue
            elif isinstance(e, (ast.Name, ast.Attribute, ast.Subscript)):
                key = 'nonempty:' + _txt(e)
                if key not in want:
                    continue
                # `not X` is handled as a whole above: skip its operand
                if isinstance(parent, ast.UnaryOp) and isinstance(parent.op, ast.Not):
                    continue
                new = ast.parse(want[key], mode='eval').body
            else:
                continue
            new = ast.copy_location(new, e)
            ast.fix_missing_locations(new)
            if idx is None:
                setattr(parent, fld, new)
            else:
                getattr(parent, fld)[idx] = new
            n += 1
    return n


# ---------------------------------------------------------------------------------------------- assignment expressions
def _leftmost_named(e):
    """the NamedExpr that is evaluated first, unconditionally, when ``e`` is evaluated (or None)"""
    while True:
        if isinstance(e, ast.NamedExpr):
            return e
        if isinstance(e, ast.Compare):
            e = e.left
        elif isinstance(e, ast.BoolOp):
            e = e.values[0]
        elif isinstance(e, ast.UnaryOp):
            e = e.operand
        elif isinstance(e, ast.Call) and not isinstance(e.func, ast.NamedExpr) and isinstance(e.func, (ast.Name, ast.Attribute)) and e.args:
            e = e.args[0] if not isinstance(e.func, ast.Attribute) else None
            if e is None:
                return None
        else:
            return None


def expand_walrus(tree, ref):
    """`if (link := self.link) is not None:` -> `link = self.link` followed by `if link is not None:` - when the assignment expression
    is the first thing the test evaluates (so hoisting it changes neither order nor number of evaluations).  An `elif` becomes
    `else:` + the two statements.  Also `x = (y := E)`.  Only where the reference function has no assignment expression."""
    n = 0
    for q, f in functions(tree):
        if not any(isinstance(x, ast.NamedExpr) for x in _fn_walk(f)):
            continue
        for _ in range(6):
            changed = False
            for holder in list(_fn_walk(f)):
                for fld in ('body', 'orelse', 'finalbody'):
                    blk = getattr(holder, fld, None)
                    if not isinstance(blk, list):
                        continue
                    for i, st in enumerate(blk):
                        tgt = None
                        if isinstance(st, ast.If):
                            tgt = _leftmost_named(st.test)
                        elif isinstance(st, (ast.Assign, ast.Return, ast.Expr)) and st.value is not None:
                            tgt = _leftmost_named(st.value) if isinstance(st.value, (ast.NamedExpr, ast.Compare, ast.BoolOp, ast.UnaryOp)) else None
                        if tgt is None or not isinstance(tgt.target, ast.Name):
                            continue
                        asg = ast.copy_location(ast.Assign(targets=[ast.Name(id=tgt.target.id, ctx=ast.Store())], value=tgt.value), st)
                        asg.lineno = st.lineno - 0.5
                        name = ast.copy_location(ast.Name(id=tgt.target.id, ctx=ast.Load()), tgt)
                        for parent in ast.walk(st):
                            for f2, val in ast.iter_fields(parent):
                                if val is tgt:
                                    setattr(parent, f2, name)
                                elif isinstance(val, list):
                                    for k, x in enumerate(val):
                                        if x is tgt:
                                            val[k] = name
                        if isinstance(st, ast.If) and st.test is tgt:
                            st.test = name
                        blk.insert(i, asg)
                        n += 1
                        changed = True
                        break
                    if changed:
                        break
                if changed:
                    break
            if not changed:
                break
    if n:
        ast.fix_missing_locations(tree)
    return n


# ---------------------------------------------------------------------------------------------- predicate helpers
_FLIP = {ast.Eq: ast.NotEq, ast.NotEq: ast.Eq, ast.Is: ast.IsNot, ast.IsNot: ast.Is, ast.In: ast.NotIn, ast.NotIn: ast.In}


def _negate(e):
    if isinstance(e, ast.UnaryOp) and isinstance(e.op, ast.Not):
        return e.operand
    if isinstance(e, ast.Compare) and len(e.ops) == 1 and type(e.ops[0]) in _FLIP:
        return ast.copy_location(ast.Compare(left=e.left, ops=[_FLIP[type(e.ops[0])]()], comparators=e.comparators), e)
    return ast.copy_location(ast.UnaryOp(op=ast.Not(), operand=e), e)


def fold_predicate_helpers(tree, ref):
    """A new private function that answers yes / no through early returns -
        if A: return False;  x = V;  if B: return True;  return C
    is the one expression `(not A) and (B' or C')` (x read through V, which must be pure: it is evaluated only where the original
    reached it, possibly more than once).  As a single-return function it can then be inlined at its call sites like any other helper."""
    known = set(ref.get('funcs', []))
    n = 0
    for q, f in functions(tree):
        if q in known or not f.name.startswith('_') or f.name.startswith('__'):
            continue
        body = f.body[1:] if _has_doc(f.body) else f.body
        if len(body) < 2 or not isinstance(body[-1], ast.Return) or body[-1].value is None:
            continue
        ok = True
        for st in body[:-1]:
            if isinstance(st, ast.If) and not st.orelse and len(st.body) == 1 and isinstance(st.body[0], ast.Return) and \
                    isinstance(st.body[0].value, ast.Constant) and isinstance(st.body[0].value.value, bool):
                continue
            if isinstance(st, ast.Assign) and len(st.targets) == 1 and _pure(st.value, True):
                t = st.targets[0]
                if isinstance(t, ast.Name) or (isinstance(t, (ast.Tuple, ast.List)) and len(t.elts) == 1 and isinstance(t.elts[0], ast.Name)):
                    continue
            ok = False
            break
        if not ok or not any(isinstance(st, ast.If) for st in body[:-1]):
            continue
        expr = body[-1].value
        for st in reversed(body[:-1]):
            if isinstance(st, ast.If):
                if st.body[0].value.value is False:
                    expr = ast.BoolOp(op=ast.And(), values=[_negate(st.test), expr])
                else:
                    expr = ast.BoolOp(op=ast.Or(), values=[st.test, expr])
            else:
                t = st.targets[0]
                if isinstance(t, ast.Name):
                    expr = _Subst({t.id: st.value}).visit(expr)
                else:
                    expr = _Subst({t.elts[0].id: ast.Subscript(value=st.value, slice=ast.Constant(value=0), ctx=ast.Load())}).visit(expr)
        # flatten nested `and`s
        def flat(e):
            if isinstance(e, ast.BoolOp):
                vals = []
                for v in e.values:
                    v = flat(v)
                    if isinstance(v, ast.BoolOp) and type(v.op) is type(e.op):
                        vals.extend(v.values)
                    else:
                        vals.append(v)
                e.values = vals
            return e
        expr = flat(expr)
        keep = f.body[:1] if _has_doc(f.body) else []
        f.body = keep + [ast.copy_location(ast.Return(value=expr), body[-1])]
        ast.fix_missing_locations(f)
        n += 1
    return n


def fold_guard_flags(tree, ref, ref_locals):
    """`hit = False` / `if A: hit = B` / `if hit:` (three adjacent statements, `hit` a local the reference does not have and nothing
    else reads)  ->  `if A and B:`"""
    n = 0
    for q, f in functions(tree):
        known = set((ref_locals or {}).get(q, []) if isinstance((ref_locals or {}).get(q, []), list) else [])
        for holder in list(_fn_walk(f)):
            for fld in ('body', 'orelse', 'finalbody'):
                blk = getattr(holder, fld, None)
                if not isinstance(blk, list):
                    continue
                i = 0
                while i + 2 < len(blk):
                    a, b, c = blk[i], blk[i + 1], blk[i + 2]
                    if isinstance(a, ast.Assign) and len(a.targets) == 1 and isinstance(a.targets[0], ast.Name) and isinstance(a.value, ast.Constant) and a.value.value is False and \
                            isinstance(b, ast.If) and not b.orelse and len(b.body) == 1 and isinstance(b.body[0], ast.Assign) and len(b.body[0].targets) == 1 and \
                            _txt(b.body[0].targets[0]) == a.targets[0].id and isinstance(c, ast.If) and isinstance(c.test, ast.Name) and c.test.id == a.targets[0].id:
                        name = a.targets[0].id
                        uses = [x for x in ast.walk(f) if isinstance(x, ast.Name) and x.id == name]
                        if name not in known and len(uses) == 3:
                            c.test = ast.copy_location(ast.BoolOp(op=ast.And(), values=[b.test, b.body[0].value]), c.test)
                            del blk[i:i + 2]
                            n += 1
                            continue
                    i += 1
    if n:
        ast.fix_missing_locations(tree)
    return n


def nest_early_continues(tree, ref):
    """`if T: continue` followed by the rest of a loop body -> `if not T: <rest>`, where the function has more `continue`s than the
    reference's (guard clauses introduced into a loop)."""
    if 'continues' not in ref:
        return 0
    known_funcs = set(ref.get('funcs', []))
    n = 0
    for q, f in functions(tree):
        if q not in known_funcs:
            continue                     # a new helper is inlined as it stands
        have = sum(1 for x in _fn_walk(f) if isinstance(x, ast.Continue))
        want = ref['continues'].get(q, 0)
        if have <= want:
            continue
        budget = have - want
        for loop in [x for x in _fn_walk(f) if isinstance(x, (ast.For, ast.While))]:
            def nest(body):
                nonlocal budget, n
                for i, st in enumerate(body):
                    if budget > 0 and isinstance(st, ast.If) and not st.orelse and len(st.body) >= 1 and isinstance(st.body[-1], ast.Continue) and \
                            all(is_quiet(x) for x in st.body[:-1]) and i + 1 < len(body):
                        rest = body[i + 1:]
                        nest(rest)
                        body[i:] = st.body[:-1] and [ast.copy_location(ast.If(test=st.test, body=st.body[:-1], orelse=rest), st)] or \
                            [ast.copy_location(ast.If(test=_negate(st.test), body=rest, orelse=[]), st)]
                        budget -= 1
                        n += 1
                        return
                    if isinstance(st, ast.If):
                        # a guard nested in an if-branch that ends the iteration there is not touched
                        pass

            def is_quiet(x):
                return isinstance(x, ast.Expr) and isinstance(x.value, ast.Call) and _txt(x.value.func).startswith(('logger.', 'logging.'))
            nest(loop.body)
    if n:
        ast.fix_missing_locations(tree)
    return n


def returns_to_breaks(tree, ref):
    """In a new private procedure whose last statement is a loop (no else clause), a bare `return` inside that loop (not inside an
    inner loop) ends the procedure exactly like `break` does: written as `break` the procedure has no returns and can be inlined
    as plain statements."""
    known = set(ref.get('funcs', []))
    n = 0
    for q, f in functions(tree):
        if q in known or not f.name.startswith('_') or f.name.startswith('__'):
            continue
        body = f.body
        if not body or not isinstance(body[-1], (ast.For, ast.While)) or body[-1].orelse:
            continue
        loop = body[-1]
        if any(isinstance(x, ast.Return) for st in body[:-1] for x in ast.walk(st)):
            continue
        rets = []

        def collect(stmts):
            for st in stmts:
                if isinstance(st, ast.Return):
                    rets.append(st)
                elif isinstance(st, (ast.For, ast.While, ast.FunctionDef, ast.ClassDef)):
                    if any(isinstance(x, ast.Return) for x in ast.walk(st)):
                        rets.append(None)
                else:
                    for fld in ('body', 'orelse', 'finalbody', 'handlers'):
                        sub = getattr(st, fld, None)
                        if isinstance(sub, list):
                            collect([h for h in sub] if fld != 'handlers' else [x for h in sub for x in h.body])
        collect(loop.body)
        if not rets or None in rets or any(r.value is not None for r in rets):
            continue

        def swap(stmts):
            for i, st in enumerate(stmts):
                if isinstance(st, ast.Return):
                    stmts[i] = ast.copy_location(ast.Break(), st)
                elif not isinstance(st, (ast.For, ast.While, ast.FunctionDef, ast.ClassDef)):
                    for fld in ('body', 'orelse', 'finalbody'):
                        sub = getattr(st, fld, None)
                        if isinstance(sub, list):
                            swap(sub)
                    for h in getattr(st, 'handlers', []) or []:
                        swap(h.body)
        swap(loop.body)
        n += 1
    return n


_ORD_NEG = {ast.Lt: ast.GtE, ast.LtE: ast.Gt, ast.Gt: ast.LtE, ast.GtE: ast.Lt}


def _negate_lengths(t):
    """not t; an ordering test against a length is turned round instead (`not n >= len(x)` = `n < len(x)`: lengths are integers)"""
    if isinstance(t, ast.Compare) and len(t.ops) == 1 and type(t.ops[0]) in _ORD_NEG and \
            all(isinstance(x, (ast.Name, ast.Constant, ast.BinOp, ast.Call, ast.Load, ast.Sub, ast.Add, ast.Attribute)) for x in ast.walk(t.left)) and \
            any(isinstance(x, ast.Call) and _txt(x.func) == 'len' for x in ast.walk(t)):
        return ast.copy_location(ast.Compare(left=t.left, ops=[_ORD_NEG[type(t.ops[0])]()], comparators=t.comparators), t)
    return _negate(t)


def loop_guards_to_test(tree, ref):
    """`while True:` whose body begins with `if C1: break` / `if C2: break` (and which the reference writes with a real test) ->
    `while not C1 and not C2:` + the rest.  The guards are evaluated at the top of every iteration, in the same order, and a `break`
    skips the else clause just as a false test does only when there is none - so only loops without else."""
    rw = ref.get('whiles')
    if rw is None:
        return 0
    n = 0
    for q, f in functions(tree):
        ref_tests = rw.get(q, [])
        if not ref_tests or all(t in ('True', '(True)') for t in ref_tests):
            continue
        for w in [x for x in _fn_walk(f) if isinstance(x, ast.While)]:
            always = isinstance(w.test, ast.Constant) and w.test.value is True
            # (a loop that has a test already takes its guards as further conjuncts - unless the reference writes that very test)
            if w.orelse or not (always or (_txt(w.test) not in ref_tests and '(%s)' % _txt(w.test) not in ref_tests)):
                continue
            k = 0
            while k < len(w.body) and isinstance(w.body[k], ast.If) and not w.body[k].orelse and len(w.body[k].body) == 1 and isinstance(w.body[k].body[0], ast.Break):
                k += 1
            if k == 0 or k == len(w.body):
                continue
            tests = []
            for g_ in w.body[:k]:
                tests.append(_negate_lengths(g_.test))
            if not always:
                tests = (list(w.test.values) if isinstance(w.test, ast.BoolOp) and isinstance(w.test.op, ast.And) else [w.test]) + tests
            w.test = ast.copy_location(tests[0] if len(tests) == 1 else ast.BoolOp(op=ast.And(), values=tests), w.test)
            w.body = w.body[k:]
            n += 1
    if n:
        ast.fix_missing_locations(tree)
    return n

# ---------------------------------------------------------------------------------------------- helpers
class _Subst(ast.NodeTransformer):
    """replace loads of the given names by (copies of) expressions; respects shadowing by nested function parameters"""

    def __init__(self, mapping):
        self.m = mapping

    def visit_Name(self, n):
        if isinstance(n.ctx, ast.Load) and n.id in self.m:
            return ast.copy_location(copy.deepcopy(self.m[n.id]), n)
        return n

    def _scoped(self, n, own):
        inner = {k: v for k, v in self.m.items() if k not in own}
        if inner:
            sub = _Subst(inner)
            if isinstance(n.body, list):
                n.body = [sub.visit(s) for s in n.body]
            else:
                n.body = sub.visit(n.body)
        return n

    def visit_FunctionDef(self, n):
        own = {a.arg for a in n.args.posonlyargs + n.args.args + n.args.kwonlyargs}
        return self._scoped(n, own)

    def visit_Lambda(self, n):
        return self._scoped(n, {a.arg for a in n.args.args})


def _stores(fn_or_stmts):
    out = {}
    nodes = fn_or_stmts if isinstance(fn_or_stmts, list) else [fn_or_stmts]
    for root in nodes:
        for n in ast.walk(root):
            if isinstance(n, ast.Name) and isinstance(n.ctx, (ast.Store, ast.Del)):
                out[n.id] = out.get(n.id, 0) + 1
            elif isinstance(n, ast.ExceptHandler) and n.name:
                out[n.name] = out.get(n.name, 0) + 1
            elif isinstance(n, (ast.Global, ast.Nonlocal)):
                for x in n.names:
                    out[x] = out.get(x, 0) + 2
    return out


class _Static(str):
    """source text of a dotted constant (Class.NAME) that may appear inside a constant tuple"""

    def __repr__(self):
        return str(self)


def _literal(node, env):
    """value of a constant expression built from literals, earlier constants and struct.calcsize; raises ValueError otherwise"""
    if isinstance(node, ast.Constant):
        return node.value
    if isinstance(node, ast.List):
        raise ValueError('mutable')
    if isinstance(node, (ast.Tuple, ast.List)):
        v = [_literal(e, env) for e in node.elts]
        return tuple(v) if isinstance(node, ast.Tuple) else v
    if isinstance(node, ast.Name) and node.id in env:
        return env[node.id]
    if isinstance(node, ast.UnaryOp) and isinstance(node.op, (ast.USub, ast.UAdd, ast.Invert)):
        v = _literal(node.operand, env)
        if isinstance(v, (int, float)) and not isinstance(v, bool):
            return -v if isinstance(node.op, ast.USub) else +v if isinstance(node.op, ast.UAdd) else ~v
    if isinstance(node, ast.BinOp):
        a, b = _literal(node.left, env), _literal(node.right, env)
        if all(isinstance(x, (int, float)) and not isinstance(x, bool) for x in (a, b)):
            try:
                return {ast.Add: lambda: a + b, ast.Sub: lambda: a - b, ast.Mult: lambda: a * b, ast.LShift: lambda: a << b, ast.RShift: lambda: a >> b,
                        ast.BitOr: lambda: a | b, ast.BitAnd: lambda: a & b, ast.FloorDiv: lambda: a // b, ast.Pow: lambda: a ** b}[type(node.op)]()
            except Exception:
                pass
        # tuple + tuple, str + str, bytes + bytes: concatenation of constants
        if isinstance(node.op, ast.Add) and type(a) is type(b) and isinstance(a, (tuple, str, bytes)):
            return a + b
    if isinstance(node, ast.Attribute) and env.get('__static__') and _root(node) is not None and _root(node)[:1].isupper() and all(
            isinstance(x, (ast.Attribute, ast.Name)) for x in ast.walk(node) if not isinstance(x, ast.expr_context)):
        return _Static(_txt(node))              # Class.CONSTANT / module.Class.CONSTANT inside a constant table
    if isinstance(node, ast.Attribute) and _txt(node) in ('np.pi', 'math.pi', 'numpy.pi'):
        import math
        return math.pi
    if isinstance(node, ast.Call) and _txt(node.func) == 'len' and len(node.args) == 1 and not node.keywords:
        v = _literal(node.args[0], env)
        if isinstance(v, (str, bytes, tuple)):
            return len(v)
    if isinstance(node, ast.Call) and _txt(node.func) == 'struct.calcsize' and len(node.args) == 1:
        import struct
        f = _literal(node.args[0], env)
        if isinstance(f, str):
            return struct.calcsize(f)
    raise ValueError(_txt(node))


def _const_node(value, like):
    """AST of a literal that prints like the reference code would have written it (hex stays a plain int - rules fold or compare values)"""
    import math
    txt = repr(value).replace(repr(math.pi), 'np.pi')
    node = ast.copy_location(ast.parse(txt, mode='eval').body, like)
    node._inl = True                  # came from a named constant: integer arithmetic on it is folded (_fold_inlined)
    return node


def rename_globals_back(tree, ref):
    """A private module-level name whose spelling changed in case / underscores only (`_nr_of_retries` -> `_NR_OF_RETRIES`, all users
    and `global` statements updated): the reference's name again."""
    known = [c for c in ref.get('consts', []) if '.' not in c]
    have = [t for st in tree.body for t in _targets(st)]
    unknown = [h for h in have if h not in known and h.startswith('_')]
    missing = [k for k in known if k not in have and k.startswith('_')]
    if not unknown or not missing:
        return 0
    bound = {a.arg for a in ast.walk(tree) if isinstance(a, ast.arg)}

    def key(nm):
        return nm.replace('_', '').lower()
    mapping = {}
    for u in unknown:
        cands = [m_ for m_ in missing if key(m_) == key(u)]
        if len(cands) == 1 and [x for x in unknown if key(x) == key(u)] == [u] and u not in bound and cands[0] not in bound:
            mapping[u] = cands[0]
    if not mapping:
        return 0
    for n in ast.walk(tree):
        if isinstance(n, ast.Name) and n.id in mapping:
            n.id = mapping[n.id]
        elif isinstance(n, (ast.Global, ast.Nonlocal)):
            n.names = [mapping.get(x, x) for x in n.names]
    return len(mapping)


def _constants(tree, ref):
    k = rename_globals_back(tree, ref) + inline_constants(tree, ref)
    if k:
        _FoldInlined().visit(tree)
    return k


class _FoldInlined(ast.NodeTransformer):
    """`N + 1` with N an inlined integer constant is the literal the reference wrote (`data[:N] + data[N + 1:]` -> `data[:2] + data[3:]`)"""
    OPS = {ast.Add: lambda a, b: a + b, ast.Sub: lambda a, b: a - b, ast.Mult: lambda a, b: a * b, ast.LShift: lambda a, b: a << b,
           ast.BitOr: lambda a, b: a | b, ast.BitAnd: lambda a, b: a & b}
    count = 0

    def visit_BinOp(self, n):
        self.generic_visit(n)
        a, b = n.left, n.right
        if type(n.op) in self.OPS and all(isinstance(x, ast.Constant) and isinstance(x.value, int) and not isinstance(x.value, bool) for x in (a, b)) \
                and (getattr(a, '_inl', False) or getattr(b, '_inl', False)) and (not isinstance(n.op, ast.LShift) or 0 <= b.value < 64):
            out = ast.copy_location(ast.Constant(value=self.OPS[type(n.op)](a.value, b.value)), n)
            out._inl = True
            _FoldInlined.count += 1
            return out
        return n


# ---------------------------------------------------------------------------------------------- 1. attributes
def rename_attributes(tree, ref):
    n = 0
    for q, c in classes(tree):
        want = ref.get('attrs', {}).get(q)
        if not want:
            continue
        have = class_attr_order(c)
        if have == want:
            continue
        unknown = [h for h in have if h not in want]
        missing = [w for w in want if w not in have]
        if not unknown or len(unknown) != len(missing):
            continue
        if not all(u.startswith('_') for u in unknown):
            continue            # a new public name may be a new part of the interface, not a rename
        mapping = dict(zip(unknown, missing))
        for node in ast.walk(tree):
            if isinstance(node, ast.Attribute) and node.attr in mapping:
                node.attr = mapping[node.attr]
        n += len(mapping)
    return n


def rename_methods(tree, ref):
    """private methods (and module-level private functions) that were merely renamed get their reference names back: per class, the
    names unknown to the reference are mapped, in definition order, onto the reference names that went missing - only when the counts
    agree and the new names are private; definitions, `x.<name>` references and bare-name references are renamed together."""
    known = ref.get('funcs', [])
    n = 0
    scopes = [('', tree.body)] + [(q + '.', c.body) for q, c in classes(tree)]
    for prefix, body in scopes:
        have = [st.name for st in body if isinstance(st, (ast.FunctionDef, ast.AsyncFunctionDef))]
        want = [k[len(prefix):] for k in (ref.get('func_order') or known) if k.startswith(prefix) and '.' not in k[len(prefix):]]
        unknown = [h for h in have if h not in want]
        missing = [w for w in want if w not in have]
        if not unknown or len(unknown) != len(missing) or not all(u.startswith('_') and not u.startswith('__') for u in unknown):
            continue
        # a renamed method keeps its arity: pair by definition order, require equal parameter counts when the reference knows them
        defs = {st.name: st for st in body if isinstance(st, (ast.FunctionDef, ast.AsyncFunctionDef))}
        ar = ref.get('arity', {})
        mapping, left = {}, list(missing)
        for u in unknown:
            au = len(defs[u].args.args) + len(defs[u].args.kwonlyargs)
            cand = [w for w in left if ar.get(prefix + w) == au]
            if cand:
                mapping[u] = cand[0]
                left.remove(cand[0])
        if len(mapping) != len(unknown):
            continue
        if any(ar.get(prefix + w) != len(defs[u].args.args) + len(defs[u].args.kwonlyargs) for u, w in mapping.items()):
            continue            # different signature: not a plain rename
        if any(w in {x.attr for x in ast.walk(tree) if isinstance(x, ast.Attribute)} | {x.id for x in ast.walk(tree) if isinstance(x, ast.Name)} for w in mapping.values()):
            continue
        for node in ast.walk(tree):
            if isinstance(node, (ast.FunctionDef, ast.AsyncFunctionDef)) and node.name in mapping and node in body:
                node.name = mapping[node.name]
            elif isinstance(node, ast.Attribute) and node.attr in mapping:
                node.attr = mapping[node.attr]
            elif isinstance(node, ast.Name) and node.id in mapping and prefix == '':
                node.id = mapping[node.id]
        n += len(mapping)
    return n


# ---------------------------------------------------------------------------------------------- 2. constants
def inline_constants(tree, ref):
    known = set(ref.get('consts', []))
    n = 0
    # module level
    cnt = {}
    for st in tree.body:
        for t in _targets(st):
            cnt[t] = cnt.get(t, 0) + 1
    env, kenv = {}, {}                  # new constants (inlined) / constants the reference knows (only read when evaluating new ones)
    for st in tree.body:
        for t in _targets(st):
            if cnt[t] != 1:
                continue
            try:
                v = _literal(st.value, dict(kenv, **dict(env, __static__=True)))
            except ValueError:
                continue
            if isinstance(v, (int, float, str, bytes, tuple)) and not isinstance(v, (bool, _Static)):
                (kenv if t in known else env)[t] = v
    # names re-bound anywhere else (global statements, function locals of the same name are handled by shadowing below)
    for node in ast.walk(tree):
        if isinstance(node, ast.Global):
            for x in node.names:
                env.pop(x, None)
                kenv.pop(x, None)
    if env:
        for q, fn in functions(tree):
            if '.<locals>.' in q:
                continue
            local = set(_stores(fn)) | {a.arg for a in fn.args.posonlyargs + fn.args.args + fn.args.kwonlyargs}
            m = {k: _const_node(v, fn) for k, v in env.items() if k not in local}
            if m:
                sub = _Subst(m)
                fn.body = [sub.visit(s) for s in fn.body]
                fn.args.defaults = [sub.visit(d) for d in fn.args.defaults]
                fn.args.kw_defaults = [sub.visit(d) if d is not None else None for d in fn.args.kw_defaults]
        # class bodies (class-level expressions using the module constant)
        for q, c in classes(tree):
            sub = _Subst({k: _const_node(v, c) for k, v in env.items()})
            c.body = [s if isinstance(s, (ast.FunctionDef, ast.AsyncFunctionDef, ast.ClassDef)) else sub.visit(s) for s in c.body]
        n += len(env)
    # class level
    for q, c in classes(tree):
        ccnt = {}
        for st in c.body:
            for t in _targets(st):
                ccnt[t] = ccnt.get(t, 0) + 1
        cenv = {}
        for st in c.body:
            for t in _targets(st):
                if (q + '.' + t) in known or ccnt[t] != 1:
                    continue
                try:
                    v = _literal(st.value, dict(env, **cenv))
                except ValueError:
                    continue
                if isinstance(v, (int, float, str, bytes, tuple)) and not isinstance(v, bool):
                    cenv[t] = v
        for q2, c2 in classes(tree):
            if c2 is not c:
                for st2 in c2.body:
                    for t2 in _targets(st2):
                        cenv.pop(t2, None)          # possibly an override in a subclass: self.NAME is not this value for every instance
        if not cenv:
            continue
        # a class constant that is also stored as an instance attribute somewhere is not a constant
        for node in ast.walk(tree):
            if isinstance(node, ast.Attribute) and isinstance(node.ctx, ast.Store) and node.attr in cenv:
                cenv.pop(node.attr, None)
        short = q.split('.')[-1]

        class A(ast.NodeTransformer):
            def visit_Attribute(self, node):
                self.generic_visit(node)
                if isinstance(node.ctx, ast.Load) and node.attr in cenv and isinstance(node.value, ast.Name) and node.value.id in ('self', 'cls', short):
                    return _const_node(cenv[node.attr], node)
                return node
        a = A()
        for i, st in enumerate(tree.body):
            tree.body[i] = a.visit(st)
        # default values of the methods are evaluated in the class body: a bare NAME there is the class constant
        dsub = _Subst({k: _const_node(v, c) for k, v in cenv.items()})
        for st in c.body:
            if isinstance(st, (ast.FunctionDef, ast.AsyncFunctionDef)):
                st.args.defaults = [dsub.visit(d) for d in st.args.defaults]
                st.args.kw_defaults = [dsub.visit(d) if d is not None else None for d in st.args.kw_defaults]
        n += len(cenv)
    return n


# ---------------------------------------------------------------------------------------------- 0a. annotated bindings
def strip_annotations(tree, ref):
    """`x: T = v` inside a function is the binding `x = v` (annotations are not evaluated for locals and have no effect on attributes)"""
    n = 0
    for q, fn in functions(tree):
        for block in _blocks(fn):
            for i, st in enumerate(block):
                if isinstance(st, ast.AnnAssign) and st.value is not None and isinstance(st.target, (ast.Name, ast.Attribute)):
                    t = st.target
                    block[i] = ast.copy_location(ast.Assign(targets=[t], value=st.value, lineno=st.lineno), st)
                    n += 1
    return n


# ---------------------------------------------------------------------------------------------- 0. import style
def normalise_imports(tree, ref):
    """`from struct import pack` + `pack(..)` where the reference wrote `import struct` + `struct.pack(..)` (and the reverse):
    references to an imported name are written the way the reference module writes them.  Names that the module also binds itself
    are left alone."""
    rfrm, rmods = ref.get('from_imports'), ref.get('imports')
    if rfrm is None or rmods is None:
        return 0
    frm, mods = import_shape(tree)
    bound = set()
    for n in ast.walk(tree):
        if isinstance(n, ast.Name) and isinstance(n.ctx, (ast.Store, ast.Del)):
            bound.add(n.id)
        elif isinstance(n, (ast.FunctionDef, ast.ClassDef)):
            bound.add(n.name)
        elif isinstance(n, ast.arg):
            bound.add(n.arg)
    to_dotted = {a: q for a, q in frm.items() if a not in rfrm and a not in bound and q.split('.')[0] in rmods and q.count('.') == 1}
    to_bare = {q: a for a, q in rfrm.items() if a not in frm and a not in bound and q.split('.')[0] in mods and q.count('.') == 1 and a == q.split('.')[1]}
    if not to_dotted and not to_bare:
        return 0
    cnt = [0]

    class T(ast.NodeTransformer):
        def visit_Name(self, n):
            if isinstance(n.ctx, ast.Load) and n.id in to_dotted:
                m_, a_ = to_dotted[n.id].split('.')
                cnt[0] += 1
                return ast.copy_location(ast.Attribute(value=ast.Name(id=m_, ctx=ast.Load()), attr=a_, ctx=ast.Load()), n)
            return n

        def visit_Attribute(self, n):
            self.generic_visit(n)
            if isinstance(n.ctx, ast.Load) and isinstance(n.value, ast.Name) and '%s.%s' % (n.value.id, n.attr) in to_bare:
                cnt[0] += 1
                return ast.copy_location(ast.Name(id=to_bare['%s.%s' % (n.value.id, n.attr)], ctx=ast.Load()), n)
            return n
    for i, st in enumerate(tree.body):
        if not isinstance(st, (ast.Import, ast.ImportFrom)):
            tree.body[i] = T().visit(st)
    return cnt[0]


# ---------------------------------------------------------------------------------------------- 2b. precompiled struct formats
def inline_struct_objects(tree, ref):
    """NAME = struct.Struct('<fmt>') unknown to the reference (module or class level, bound once):
    NAME.pack(a..) -> struct.pack('<fmt>', a..), NAME.unpack(x) -> struct.unpack('<fmt>', x), NAME.size -> struct.calcsize('<fmt>');
    and `a, = struct.unpack('<one field>', x)` -> `a = struct.unpack('<one field>', x)[0]`."""
    import struct as _struct
    known = set(ref.get('consts', []))
    fmts = {}

    def collect(body, prefix):
        for st in body:
            for t in _targets(st):
                v = st.value
                if (prefix + t) not in known and isinstance(v, ast.Call) and _txt(v.func) == 'struct.Struct' and len(v.args) == 1 and isinstance(v.args[0], ast.Constant) \
                        and isinstance(v.args[0].value, str):
                    fmts[t] = v.args[0].value
    regs = {}

    def collect_re(body, prefix):
        for st in body:
            for t in _targets(st):
                v = st.value
                if (prefix + t) not in known and isinstance(v, ast.Call) and _txt(v.func) == 're.compile' and 1 <= len(v.args) <= 2 and not v.keywords and \
                        all(isinstance(a, (ast.Constant, ast.Attribute, ast.BinOp)) for a in v.args) and isinstance(v.args[0], ast.Constant):
                    regs[t] = v.args
    collect(tree.body, '')
    collect_re(tree.body, '')
    for q, c in classes(tree):
        collect(c.body, q + '.')
        collect_re(c.body, q + '.')
    n = [0]

    def base_name(x):
        if isinstance(x, ast.Name):
            return x.id
        if isinstance(x, ast.Attribute) and isinstance(x.value, ast.Name) and x.value.id in ('self', 'cls'):
            return x.attr
        return None

    class T(ast.NodeTransformer):
        def visit_Call(self, node):
            self.generic_visit(node)
            f = node.func
            if isinstance(f, ast.Attribute) and f.attr in ('pack', 'unpack', 'unpack_from', 'iter_unpack') and base_name(f.value) in fmts:
                n[0] += 1
                return ast.copy_location(ast.Call(func=ast.Attribute(value=ast.Name(id='struct', ctx=ast.Load()), attr=f.attr, ctx=ast.Load()),
                                                  args=[ast.Constant(value=fmts[base_name(f.value)])] + node.args, keywords=node.keywords), node)
            # PATTERN = re.compile(p[, flags]);  PATTERN.search(x) -> re.search(p, x[, flags])
            if isinstance(f, ast.Attribute) and f.attr in ('search', 'match', 'fullmatch', 'findall', 'finditer', 'split', 'sub', 'subn') and base_name(f.value) in regs \
                    and not node.keywords and len(node.args) == (2 if f.attr in ('sub', 'subn') else 1):
                n[0] += 1
                ra = regs[base_name(f.value)]
                return ast.copy_location(ast.Call(func=ast.Attribute(value=ast.Name(id='re', ctx=ast.Load()), attr=f.attr, ctx=ast.Load()),
                                                  args=[copy.deepcopy(ra[0])] + node.args, keywords=[ast.keyword(arg='flags', value=copy.deepcopy(ra[1]))] if len(ra) == 2 else []), node)
            return node

        def visit_Attribute(self, node):
            self.generic_visit(node)
            if node.attr == 'size' and isinstance(node.ctx, ast.Load) and base_name(node.value) in fmts:
                n[0] += 1
                return ast.copy_location(ast.Constant(value=_struct.calcsize(fmts[base_name(node.value)])), node)
            return node
    if fmts or regs:
        for i, st in enumerate(tree.body):
            tree.body[i] = T().visit(st)
    # a, = struct.unpack('<one field>', x)
    for node in ast.walk(tree):
        for f in ('body', 'orelse', 'finalbody'):
            b = getattr(node, f, None)
            if not isinstance(b, list):
                continue
            for st in b:
                if isinstance(st, ast.Assign) and len(st.targets) == 1 and isinstance(st.targets[0], (ast.Tuple, ast.List)) and len(st.targets[0].elts) == 1 and \
                        isinstance(st.value, ast.Call) and _txt(st.value.func) == 'struct.unpack' and st.value.args and isinstance(st.value.args[0], ast.Constant) and \
                        isinstance(st.value.args[0].value, str):
                    try:
                        one = len(_struct.unpack(st.value.args[0].value, bytes(_struct.calcsize(st.value.args[0].value)))) == 1
                    except Exception:
                        one = False
                    if one and _txt(st) not in ref.get('single_unpacks', []):
                        st.targets = [st.targets[0].elts[0]]
                        st.value = ast.copy_location(ast.Subscript(value=st.value, slice=ast.Constant(value=0), ctx=ast.Load()), st.value)
                        n[0] += 1
    return n[0]


# ---------------------------------------------------------------------------------------------- 3. helpers
def _simple_arg(a):
    return not any(isinstance(x, (ast.Call, ast.Await, ast.Yield, ast.YieldFrom, ast.NamedExpr, ast.Lambda)) for x in ast.walk(a))


def _bind(helper, call, skip_first):
    """-> (substitution map, leading assignments) or None"""
    a = helper.args
    if a.kwarg or a.posonlyargs or a.kwonlyargs:
        return None
    if any(isinstance(x, ast.Starred) for x in call.args) or any(k.arg is None for k in call.keywords):
        return None
    params = [p.arg for p in a.args][1 if skip_first else 0:]
    defaults = dict(zip(reversed(params), reversed(a.defaults)))
    extra = None
    if len(call.args) > len(params):
        if not a.vararg:
            return None
    if a.vararg:
        # *args receives the surplus positional arguments as a tuple (read-only use only)
        if a.vararg.arg in _stores(helper.body) or not all(isinstance(x, (ast.Name, ast.Constant)) for x in call.args[len(params):]):
            return None
        extra = (a.vararg.arg, ast.Tuple(elts=list(call.args[len(params):]), ctx=ast.Load()))
    given = dict(zip(params, call.args[:len(params)]))
    for k in call.keywords:
        if k.arg not in params or k.arg in given:
            return None
        given[k.arg] = k.value
    stored = _stores(helper.body)
    body0 = helper.body[1:] if _has_doc(helper.body) else helper.body
    sub, lead = {}, []
    for p in params:
        if p in given:
            v = given[p]
        elif p in defaults:
            v = defaults[p]
            # a default is evaluated once, when the function is defined: only an immutable literal may be copied to the call site
            try:
                if not isinstance(_literal(v, {}), (int, float, str, bytes, tuple, type(None), bool)):
                    return None
            except ValueError:
                return None
        else:
            return None
        if isinstance(v, ast.Name) and v.id == p:
            continue
        uses = sum(1 for x in helper.body for n in ast.walk(x) if isinstance(n, ast.Name) and n.id == p and isinstance(n.ctx, ast.Load))
        # an argument is evaluated before the body runs: only an expression whose value the body cannot change may move into the body
        stable = isinstance(v, ast.Constant) or (isinstance(v, ast.Name) and v.id not in stored) or \
            (isinstance(v, ast.UnaryOp) and isinstance(v.operand, ast.Constant))
        first_stmt_only = uses == 1 and _pure(v, allow_self=True) and bool(body0) and any(
            isinstance(n, ast.Name) and n.id == p for root in _stmt_exprs(body0[0]) for n in ast.walk(root))
        # `self.x` handed to a helper that only calls methods of that parameter (and pure builtins / the logger) and stores no
        # attribute: nothing in the body can re-bind self.x, reading it at each use gives the object the parameter held
        quiet_attr = isinstance(v, ast.Attribute) and isinstance(v.value, ast.Name) and (_quiet_body(helper, p) or _class_constant(v, helper))
        if p not in stored and (stable or first_stmt_only or quiet_attr):
            sub[p] = v
        else:
            lead.append(ast.copy_location(ast.Assign(targets=[ast.Name(id=p, ctx=ast.Store())], value=copy.deepcopy(v), lineno=call.lineno), call))
    if extra is not None:
        sub[extra[0]] = extra[1]
    return sub, lead


def _class_constant(v, helper):
    """self.NAME / Class.NAME in upper case that the helper does not store: a class constant by the convention of this code base"""
    return v.attr.isupper() and not any(isinstance(n, ast.Attribute) and n.attr == v.attr and isinstance(n.ctx, (ast.Store, ast.Del)) for n in ast.walk(helper))


def _quiet_body(helper, param):
    for n in ast.walk(helper):
        if isinstance(n, ast.Attribute) and isinstance(n.ctx, (ast.Store, ast.Del)):
            return False
        if isinstance(n, (ast.Global, ast.Nonlocal, ast.Await, ast.Yield, ast.YieldFrom)):
            return False
        if isinstance(n, ast.Call):
            f = n.func
            if isinstance(f, ast.Attribute) and isinstance(f.value, ast.Name) and f.value.id in (param, 'logger', 'logging'):
                continue
            if isinstance(f, ast.Name) and f.id in ('len', 'int', 'float', 'bool', 'str', 'tuple', 'list', 'isinstance', 'range', 'min', 'max', 'abs'):
                continue
            return False
    return True


def _returns(stmts):
    return [n for s in stmts for n in _own_walk(s) if isinstance(n, ast.Return)]


def _own_walk(node):
    """walk without entering nested function/class definitions"""
    yield node
    for c in ast.iter_child_nodes(node):
        if isinstance(c, (ast.FunctionDef, ast.AsyncFunctionDef, ast.ClassDef, ast.Lambda)):
            continue
        yield from _own_walk(c)


def _tail_returns_to(stmts, make):
    """rewrite returns that are in tail position of ``stmts`` with make(value); -> True if every return was in tail position"""
    if not stmts:
        return True
    ok = True
    for s in stmts[:-1]:
        if any(isinstance(n, ast.Return) for n in _own_walk(s)):
            ok = False
    last = stmts[-1]
    if isinstance(last, ast.Return):
        stmts[-1:] = make(last)
    elif isinstance(last, ast.If):
        ok = _tail_returns_to(last.body, make) and ok
        if last.orelse:
            ok = _tail_returns_to(last.orelse, make) and ok
    elif isinstance(last, ast.Try) and not last.finalbody and not last.orelse:
        ok = _tail_returns_to(last.body, make) and ok
        for h in last.handlers:
            ok = _tail_returns_to(h.body, make) and ok
    elif any(isinstance(n, ast.Return) for n in _own_walk(last)):
        ok = False
    return ok


def _has_doc(stmts):
    return bool(stmts) and isinstance(stmts[0], ast.Expr) and isinstance(stmts[0].value, ast.Constant) and isinstance(stmts[0].value.value, str)


class _JoinTuples(ast.NodeTransformer):
    """(a,) + (b, c) -> (a, b, c): tuple displays written next to each other after a *args parameter was filled in"""

    def visit_BinOp(self, n):
        self.generic_visit(n)
        if isinstance(n.op, ast.Add) and isinstance(n.left, ast.Tuple) and isinstance(n.right, ast.Tuple) and \
                not any(isinstance(e, ast.Starred) for e in n.left.elts + n.right.elts):
            return ast.copy_location(ast.Tuple(elts=n.left.elts + n.right.elts, ctx=ast.Load()), n)
        return n

    def visit_Call(self, n):
        self.generic_visit(n)
        # f(*(...literal tuple...)) -> f(...)
        new = []
        for a_ in n.args:
            if isinstance(a_, ast.Starred) and isinstance(a_.value, ast.Tuple):
                new.extend(a_.value.elts)
            else:
                new.append(a_)
        n.args = new
        return n


def _deferred_position(stmt, call):
    """the call is not evaluated exactly once when the statement runs: it sits in a lambda, in the repeated part of a comprehension,
    behind a short-circuit operator or in a branch of a conditional expression. Statements cannot be hoisted out of such a place."""
    def walk(n, deferred):
        if n is call:
            return deferred
        if isinstance(n, ast.Lambda):
            kids = [(n.body, True)] + [(d, deferred) for d in n.args.defaults + [k for k in n.args.kw_defaults if k is not None]]
        elif isinstance(n, (ast.ListComp, ast.SetComp, ast.GeneratorExp, ast.DictComp)):
            kids = [(n.generators[0].iter, deferred or isinstance(n, ast.GeneratorExp))]
            for x in ([n.key, n.value] if isinstance(n, ast.DictComp) else [n.elt]):
                kids.append((x, True))
            for k, g in enumerate(n.generators):
                kids += [(c, True) for c in g.ifs]
                if k:
                    kids.append((g.iter, True))
        elif isinstance(n, ast.BoolOp):
            kids = [(v, deferred or k > 0) for k, v in enumerate(n.values)]
        elif isinstance(n, ast.IfExp):
            kids = [(n.test, deferred), (n.body, True), (n.orelse, True)]
        else:
            kids = [(c, deferred) for c in ast.iter_child_nodes(n)]
        for c, d in kids:
            r = walk(c, d)
            if r is not None:
                return r
        return None
    for root in _stmt_exprs(stmt):
        r = walk(root, False)
        if r is not None:
            return r
    return False


def _expand_call(stmt, call, helper, skip_first, caller_names=frozenset()):
    """statements replacing ``stmt`` when ``call`` (inside it) is expanded with the body of ``helper``; None if this site cannot be expanded"""
    b = _bind(helper, call, skip_first)
    if b is None:
        return None
    sub, lead = b
    deferred = _deferred_position(stmt, call)
    if deferred and lead:
        return None
    body = copy.deepcopy(helper.body[1:] if _has_doc(helper.body) else helper.body)
    # names the helper binds itself (its locals, and parameters that need a leading assignment) live in their own scope: where the
    # caller uses the same name for something else they get a name of their own
    own = (set(_stores(body)) | {t.id for a in lead for t in a.targets if isinstance(t, ast.Name)}) - set(sub)
    # a parameter that is handed the caller's variable of the same name IS that variable (f(pk) with `def f(self, pk)`): no new name
    hp = [p_.arg for p_ in helper.args.args][1 if skip_first else 0:]
    same = {p_ for p_, a_ in zip(hp, call.args) if isinstance(a_, ast.Name) and a_.id == p_} | \
        {k_.arg for k_ in call.keywords if isinstance(k_.value, ast.Name) and k_.value.id == k_.arg}
    clash = {n_: '%s__%s' % (n_, helper.name.strip('_')) for n_ in own if n_ in caller_names and n_ not in same}
    if clash:
        if any(isinstance(n, (ast.Global, ast.Nonlocal, ast.FunctionDef, ast.ClassDef)) or
               (isinstance(n, ast.Lambda) and any(a.arg in clash for a in n.args.args + n.args.kwonlyargs)) for x in body for n in ast.walk(x)):
            return None
        for x in body:
            for n in ast.walk(x):
                if isinstance(n, ast.Name) and n.id in clash:
                    n.id = clash[n.id]
        for a in lead:
            for t in a.targets:
                if isinstance(t, ast.Name) and t.id in clash:
                    t.id = clash[t.id]
    if sub:
        s_ = _Subst(sub)
        body = [s_.visit(x) for x in body]
        if helper.args.vararg:
            body = [_JoinTuples().visit(x) for x in body]
    if any(isinstance(n, (ast.Yield, ast.YieldFrom, ast.Await)) for x in body for n in _own_walk(x)):
        return None
    body = _structure_returns(body)              # guard clauses `if c: ...; return x` + rest  ->  if/else with the returns in tail position
    rets = _returns(body)
    # (a) statement call
    if isinstance(stmt, ast.Expr) and stmt.value is call:
        if not _tail_returns_to(body, lambda r: [ast.copy_location(ast.Expr(value=r.value), r)] if r.value is not None and not _simple_arg(r.value) else [ast.copy_location(ast.Pass(), r)]):
            return None
        return lead + _untuple(body)
    # (b) return call
    if isinstance(stmt, ast.Return) and stmt.value is call:
        if not body or not isinstance(body[-1], (ast.Return, ast.Raise)) and not _all_paths_leave(body):
            body = body + [ast.copy_location(ast.Return(value=ast.Constant(value=None)), stmt)]
        return lead + body
    # (c) x = call  /  x op= call / annotated
    if isinstance(stmt, ast.Assign) and stmt.value is call:
        tg = stmt.targets

        same = [False]

        def mk(r):
            if r.value is not None and len(tg) == 1 and _txt(r.value) == _txt(tg[0]):
                same[0] = True
                return []                      # `x = helper()` where the helper ends with `return x`: the binding is already in place
            return [ast.copy_location(ast.Assign(targets=copy.deepcopy(tg), value=r.value if r.value is not None else ast.Constant(value=None), lineno=r.lineno), r)]
        if not rets:
            return None
        # `x = helper()` where every return of the helper hands back the same local L: L *is* x (alpha renaming of a local that
        # dies at the return), provided the name x does not occur in the helper body
        if len(tg) == 1 and isinstance(tg[0], ast.Name) and all(isinstance(r.value, ast.Name) for r in rets) and \
                len({r.value.id for r in rets}) == 1:
            loc, new_name = rets[0].value.id, tg[0].id
            names_in_body = {n.id for x in body for n in ast.walk(x) if isinstance(n, ast.Name)}
            params = {p.arg for p in helper.args.args}
            if loc != new_name and loc in _stores(body) and loc not in params and new_name not in names_in_body and \
                    not any(isinstance(n, (ast.Global, ast.Nonlocal, ast.FunctionDef, ast.Lambda)) for x in body for n in ast.walk(x)):
                for x in body:
                    for n in ast.walk(x):
                        if isinstance(n, ast.Name) and n.id == loc:
                            n.id = new_name
        if _lower_loop_returns(body, tg):
            return lead + body
        if not _tail_returns_to(body, mk):
            return None
        if not same[0] and not _all_paths_assign(body):
            return None
        return lead + _untuple(body)
    # (d) call embedded in a larger expression of a simple statement / an if test: single trailing return
    if len(rets) == 1 and isinstance(body[-1], ast.Return) and body[-1].value is not None:
        pre, val = body[:-1], body[-1].value
        if (isinstance(stmt, ast.While) or deferred) and pre:
            return None                                    # a loop test is evaluated on every iteration, a deferred position maybe never
        if pre and not isinstance(stmt, (ast.Expr, ast.Assign, ast.AugAssign, ast.Return, ast.If, ast.AnnAssign, ast.For)):
            return None

        class R(ast.NodeTransformer):
            def visit_Call(self, n):
                if n is call:
                    return ast.copy_location(val, n)
                self.generic_visit(n)
                return n
        if isinstance(stmt, (ast.If, ast.While)):
            stmt.test = R().visit(stmt.test)
            new = stmt
        elif isinstance(stmt, ast.For):
            stmt.iter = R().visit(stmt.iter)               # the iterable is evaluated once, before the first iteration
            new = stmt
        else:
            new = R().visit(stmt)
        return lead + pre + [new]
    # (e) call inside the test of an if / the value of a simple statement, helper with several returns: bind the result first,
    #     the binding is then expanded as case (c) on the next pass
    if rets and not deferred and isinstance(stmt, (ast.If, ast.Assign, ast.AugAssign, ast.Expr, ast.Return)):
        tmp = '%s_result' % helper.name.lstrip('_')
        bind = ast.copy_location(ast.Assign(targets=[ast.Name(id=tmp, ctx=ast.Store())], value=call, lineno=stmt.lineno), stmt)

        class R2(ast.NodeTransformer):
            def visit_Call(self, n):
                if n is call:
                    return ast.copy_location(ast.Name(id=tmp, ctx=ast.Load()), n)
                self.generic_visit(n)
                return n
        if isinstance(stmt, ast.If):
            stmt.test = R2().visit(stmt.test)
            new = stmt
        else:
            new = R2().visit(stmt)
        if any(isinstance(n, ast.Name) and n.id == tmp and isinstance(n.ctx, ast.Store) for n in ast.walk(new)):
            return None
        return [bind, new]
    return None


def _structure_try_returns(stmts):
    """`try: B except E: H` followed by a plain `return <literal / name>`: the return is what the body and every handler end with when
    they do not leave themselves (a return of a literal cannot raise, so it may stand inside the try)"""
    for i, s_ in enumerate(stmts):
        if isinstance(s_, ast.Try) and not s_.finalbody and not s_.orelse and i + 2 == len(stmts) and isinstance(stmts[i + 1], ast.Return) and \
                (stmts[i + 1].value is None or isinstance(stmts[i + 1].value, (ast.Constant, ast.Name))) and \
                any(isinstance(n, ast.Return) for n in _own_walk(s_)):
            r = stmts[i + 1]
            if not _all_paths_leave(s_.body):
                s_.body = s_.body + [copy.deepcopy(r)]
            for h in s_.handlers:
                if not _all_paths_leave(h.body):
                    h.body = [x for x in h.body if not isinstance(x, ast.Pass)] + [copy.deepcopy(r)]
            s_.body = _structure_returns(s_.body)
            for h in s_.handlers:
                h.body = _structure_returns(h.body)
            return stmts[:i + 1]
    return stmts


def _structure_returns(stmts):
    """`if c: A; return x` followed by REST  ->  `if c: A; return x  else: REST` (recursively), so that every return of a straight-line
    helper ends up in tail position.  Meaning preserving: REST only ever ran when the guarded block did not leave."""
    stmts = _structure_try_returns(stmts)
    for i, s_ in enumerate(stmts):
        if isinstance(s_, ast.If):
            s_.body = _structure_returns(s_.body)
            s_.orelse = _structure_returns(s_.orelse)
            rest = stmts[i + 1:]
            if rest and not s_.orelse and _all_paths_leave(s_.body):
                s_.orelse = _structure_returns(rest)
                return stmts[:i + 1]
            if rest and s_.orelse and _all_paths_leave(s_.orelse) and not _all_paths_leave(s_.body):
                s_.body = s_.body + _structure_returns(rest)
                return stmts[:i + 1]
            # a return somewhere inside, and a short REST after the if: REST is what every branch that does not leave continues with
            # (tail duplication) - every return of the helper ends up in tail position
            if rest and any(isinstance(n, ast.Return) for n in _own_walk(s_)) and sum(1 for x in rest for _ in ast.walk(x)) <= 80 and \
                    not any(isinstance(n, (ast.FunctionDef, ast.AsyncFunctionDef, ast.ClassDef, ast.Lambda)) for x in rest for n in ast.walk(x)) and \
                    not any(isinstance(n, ast.Return) for l_ in _own_walk(s_) if isinstance(l_, (ast.For, ast.While, ast.Try, ast.With)) for n in _own_walk(l_)):
                if not _all_paths_leave(s_.body):
                    s_.body = _structure_returns(s_.body + copy.deepcopy(rest))
                if not s_.orelse:
                    s_.orelse = _structure_returns(copy.deepcopy(rest))
                elif not _all_paths_leave(s_.orelse):
                    s_.orelse = _structure_returns(s_.orelse + copy.deepcopy(rest))
                return stmts[:i + 1]
    return stmts


def _untuple(stmts):
    """(a, b) = (e1, e2) written by the inliner -> a = e1; b = e2 when no later element reads an earlier target (recursively in tail ifs)"""
    out = []
    for st in stmts:
        if isinstance(st, ast.Assign) and len(st.targets) == 1 and isinstance(st.targets[0], ast.Tuple) and isinstance(st.value, ast.Tuple) and \
                len(st.targets[0].elts) == len(st.value.elts) and all(isinstance(t, ast.Name) for t in st.targets[0].elts):
            names = [t.id for t in st.targets[0].elts]
            safe = all(not any(isinstance(n, ast.Name) and n.id in names[:k] for n in ast.walk(v)) for k, v in enumerate(st.value.elts))
            if safe:
                for t, v in zip(st.targets[0].elts, st.value.elts):
                    if isinstance(v, ast.Name) and v.id == t.id:
                        continue                      # x = x
                    out.append(ast.copy_location(ast.Assign(targets=[ast.Name(id=t.id, ctx=ast.Store())], value=v, lineno=st.lineno), st))
                continue
        if isinstance(st, ast.If):
            st.body = _untuple(st.body)
            st.orelse = _untuple(st.orelse)
        out.append(st)
    return out


def _lower_loop_returns(body, tg):
    """body = [..., loop with `return V` inside, `return Y`]  (the shape of a search helper), used as ``tg = helper()``:
    every `return V` of the loop becomes `tg = V; break` and the final `return Y` becomes the loop's else clause.  Only when the loop
    has no break / else of its own, the returns sit directly in that loop (not in a nested loop) and nothing else returns."""
    if len(body) < 2 or not isinstance(body[-1], ast.Return) or not isinstance(body[-2], (ast.For, ast.While)):
        return False
    loop, last = body[-2], body[-1]
    if loop.orelse:
        return False
    if any(isinstance(n, ast.Return) for s_ in body[:-2] for n in _own_walk(s_)):
        return False

    def direct(node, found):
        # statements of the loop body that are not inside a nested loop
        for f in ('body', 'orelse', 'finalbody'):
            b = getattr(node, f, None)
            if isinstance(b, list):
                for s_ in b:
                    if isinstance(s_, (ast.For, ast.While)):
                        if any(isinstance(n, ast.Return) for n in _own_walk(s_)):
                            found.append('nested')
                        continue
                    if isinstance(s_, (ast.FunctionDef, ast.AsyncFunctionDef, ast.ClassDef)):
                        continue
                    if isinstance(s_, ast.Break):
                        found.append('break')
                    direct(s_, found)
        for h in getattr(node, 'handlers', []) or []:
            direct(h, found)
    bad = []
    direct(loop, bad)
    if bad or not any(isinstance(n, ast.Return) for n in _own_walk(loop)):
        return False

    def assign(v, like):
        return ast.copy_location(ast.Assign(targets=copy.deepcopy(tg), value=v if v is not None else ast.Constant(value=None), lineno=like.lineno), like)

    def rewrite(node):
        for f in ('body', 'orelse', 'finalbody'):
            b = getattr(node, f, None)
            if isinstance(b, list):
                i = 0
                while i < len(b):
                    s_ = b[i]
                    if isinstance(s_, ast.Return):
                        b[i:i + 1] = [assign(s_.value, s_), ast.copy_location(ast.Break(), s_)]
                        i += 2
                        continue
                    if not isinstance(s_, (ast.For, ast.While, ast.FunctionDef, ast.AsyncFunctionDef, ast.ClassDef)):
                        rewrite(s_)
                    i += 1
        for h in getattr(node, 'handlers', []) or []:
            rewrite(h)
    body_only = ast.Module(body=loop.body, type_ignores=[])
    rewrite(body_only)
    loop.orelse = [assign(last.value, last)]
    del body[-1]
    return True


def _all_paths_leave(stmts):
    if not stmts:
        return False
    last = stmts[-1]
    if isinstance(last, (ast.Return, ast.Raise)):
        return True
    if isinstance(last, ast.If):
        return bool(last.orelse) and _all_paths_leave(last.body) and _all_paths_leave(last.orelse)
    if isinstance(last, ast.Try):
        if last.finalbody and _all_paths_leave(last.finalbody):
            return True
        return _all_paths_leave(last.orelse or last.body) and all(_all_paths_leave(h.body) for h in last.handlers)
    return False


def _all_paths_assign(stmts):
    """after the rewrite of tail returns into assignments: every path through the tail ends with that assignment (or raises)"""
    if not stmts:
        return False
    last = stmts[-1]
    if isinstance(last, (ast.Assign, ast.Raise)):
        return True
    if isinstance(last, ast.If):
        return bool(last.orelse) and _all_paths_assign(last.body) and _all_paths_assign(last.orelse)
    if isinstance(last, ast.Try) and not last.finalbody and not last.orelse:
        return _all_paths_assign(last.body) and all(_all_paths_assign(h.body) for h in last.handlers)
    return False


def _blocks(node):
    """every statement list below node (own scope only)"""
    for f in ('body', 'orelse', 'finalbody'):
        b = getattr(node, f, None)
        if isinstance(b, list) and b and isinstance(b[0], ast.stmt):
            yield b
            for s in b:
                if not isinstance(s, (ast.FunctionDef, ast.AsyncFunctionDef, ast.ClassDef)):
                    yield from _blocks(s)
                else:
                    if isinstance(s, (ast.FunctionDef, ast.AsyncFunctionDef)):
                        yield from _blocks(s)      # nested closures call helpers too
    for h in getattr(node, 'handlers', []) or []:
        yield h.body
        for s in h.body:
            yield from _blocks(s)


def _stmt_exprs(stmt):
    """expression roots evaluated by the statement itself (not by nested statements)"""
    if isinstance(stmt, (ast.If, ast.While)):
        return [stmt.test]
    if isinstance(stmt, ast.For):
        return [stmt.iter]
    if isinstance(stmt, ast.With):
        return [i.context_expr for i in stmt.items]
    if isinstance(stmt, (ast.Try, ast.FunctionDef, ast.AsyncFunctionDef, ast.ClassDef)):
        return []
    return [stmt]


def inline_generator_loops(tree, ref):
    """`for T in gen(args): BODY` where gen is a NEW module-level generator function with one statement-level `yield E` (no try / with /
    return value / nested definitions) -> the generator's body in place, its `yield E` replaced by `T = E; BODY`.  The generator
    starts running at the first iteration, right after its arguments were evaluated, and its code after the yield runs after BODY -
    exactly the order of the in-place code.  BODY must not leave the loop on its own (no break / continue of this loop, no return):
    those would end or resume the generator at another point."""
    known = set(ref.get('funcs', []))
    gens = {}
    for st in tree.body:
        if isinstance(st, ast.FunctionDef) and st.name not in known and not st.decorator_list:
            ys = [n for n in ast.walk(st) if isinstance(n, (ast.Yield, ast.YieldFrom))]
            if len(ys) != 1 or not isinstance(ys[0], ast.Yield) or ys[0].value is None:
                continue
            a = st.args
            if a.vararg or a.kwarg or a.kwonlyargs or a.posonlyargs or a.defaults:
                continue
            if any(isinstance(n, (ast.Try, ast.With, ast.FunctionDef, ast.Lambda, ast.ClassDef, ast.Global, ast.Nonlocal, ast.Await)) for b_ in st.body for n in ast.walk(b_)) or \
                    any(isinstance(n, ast.Return) and n.value is not None for n in ast.walk(st)) or any(isinstance(n, ast.Return) for n in ast.walk(st)):
                continue
            if not any(isinstance(n, ast.Expr) and n.value is ys[0] for n in ast.walk(st)):
                continue
            if sum(1 for n in ast.walk(tree) if isinstance(n, ast.Name) and n.id == st.name and isinstance(n.ctx, ast.Store)):
                continue
            gens[st.name] = st
    if not gens:
        return 0
    total = 0
    for q, fn in functions(tree):
        if fn.name in gens:
            continue
        for _ in range(4):
            changed = False
            for block in _blocks(fn):
                for i, st in enumerate(block):
                    if not (isinstance(st, ast.For) and not st.orelse and isinstance(st.iter, ast.Call) and isinstance(st.iter.func, ast.Name) and st.iter.func.id in gens and
                            not st.iter.keywords and not any(isinstance(x, ast.Starred) for x in st.iter.args)):
                        continue
                    g = gens[st.iter.func.id]
                    if len(st.iter.args) != len(g.args.args):
                        continue

                    def leaves(stmts, in_loop):
                        for s_ in stmts:
                            if isinstance(s_, (ast.Return, ast.Yield, ast.YieldFrom)) or (not in_loop and isinstance(s_, (ast.Break, ast.Continue))):
                                return True
                            if isinstance(s_, (ast.FunctionDef, ast.ClassDef)):
                                continue
                            for f_ in ('body', 'orelse', 'finalbody'):
                                if leaves(getattr(s_, f_, None) or [], in_loop or (isinstance(s_, (ast.For, ast.While)) and f_ == 'body')):
                                    return True
                            for h_ in getattr(s_, 'handlers', None) or []:
                                if leaves(h_.body, in_loop):
                                    return True
                        return False
                    if leaves(st.body, False) or any(isinstance(n, (ast.Yield, ast.YieldFrom)) for b_ in st.body for n in ast.walk(b_)):
                        continue
                    # names of the generator (parameters and locals) that clash with names of the caller get a suffix
                    gl = [a_.arg for a_ in g.args.args] + [n for n in _stores(g)]
                    cn = {n.id for n in ast.walk(fn) if isinstance(n, ast.Name)} | {a_.arg for a_ in fn.args.args + fn.args.kwonlyargs}
                    ren = {n: (n + '__' + g.name.strip('_') if n in cn else n) for n in gl}
                    body = [_RenameNames(ren).visit(copy.deepcopy(s_)) for s_ in g.body if not _has_doc([s_])]
                    lead = [ast.copy_location(ast.Assign(targets=[ast.Name(id=ren[p_.arg], ctx=ast.Store())], value=a_, lineno=st.lineno), st) for p_, a_ in zip(g.args.args, st.iter.args)]

                    def splice(stmts):
                        out = []
                        for s_ in stmts:
                            if isinstance(s_, ast.Expr) and isinstance(s_.value, ast.Yield):
                                out.append(ast.copy_location(ast.Assign(targets=[st.target], value=s_.value.value, lineno=st.lineno), st))
                                out.extend(st.body)
                                continue
                            for f_ in ('body', 'orelse', 'finalbody'):
                                if isinstance(getattr(s_, f_, None), list):
                                    setattr(s_, f_, splice(getattr(s_, f_)))
                            out.append(s_)
                        return out
                    block[i:i + 1] = lead + splice(body)
                    total += 1
                    changed = True
                    break
                if changed:
                    break
            if not changed:
                break
    if total:
        ast.fix_missing_locations(tree)
    return total


class _RenameNames(ast.NodeTransformer):
    def __init__(self, m):
        self.m = m

    def visit_Name(self, n):
        if n.id in self.m and self.m[n.id] != n.id:
            return ast.copy_location(ast.Name(id=self.m[n.id], ctx=n.ctx), n)
        return n


def inline_helpers(tree, ref):
    known = set(ref.get('funcs', []))
    total = 0
    for _round in range(3):
        fl = functions(tree)
        new = {}
        for q, fn in fl:
            if q in known or '.<locals>.' in q or fn.name.startswith('__'):
                continue
            decos = [_txt(d) for d in fn.decorator_list]
            if any(d not in ('staticmethod', 'classmethod') for d in decos):
                continue
            new[q] = (fn, 'staticmethod' in decos, 'classmethod' in decos)
        if not new:
            break
        done = 0
        for q, (helper, is_static, is_cls) in new.items():
            cls_q = q.rsplit('.', 1)[0] if '.' in q else None
            short = helper.name
            # no recursion
            if any(isinstance(n, ast.Call) and _callee(n, cls_q) == short for n in ast.walk(helper)):
                continue
            # a method of the same name in another class of the module may override it: self.<name>() is then not this body
            if cls_q is not None and any(q2 != q and q2.rsplit('.', 1)[-1] == short for q2, _ in fl):
                continue
            for cq, caller in fl:
                if caller is helper:
                    continue
                c_cls = None
                if '.' in cq:
                    head = cq.split('.<locals>.')[0]
                    c_cls = head.rsplit('.', 1)[0] if '.' in head else None
                if cls_q is not None and c_cls != cls_q:
                    continue
                changed = True
                guard = 0
                # names of the caller before this helper is expanded into it (a second expansion of the same helper re-uses its locals)
                cn = {n.id for n in ast.walk(caller) if isinstance(n, ast.Name)} | {a.arg for a in caller.args.args + caller.args.kwonlyargs}
                while changed and guard < 20:
                    changed = False
                    guard += 1
                    for block in _blocks(caller):
                        for i, st in enumerate(block):
                            if isinstance(st, (ast.FunctionDef, ast.AsyncFunctionDef, ast.ClassDef)):
                                continue
                            hit = None
                            for root in _stmt_exprs(st):
                                for n in ast.walk(root):
                                    if isinstance(n, ast.Call) and _callee(n, cls_q) == short and _receiver_ok(n, cls_q, is_static, is_cls):
                                        hit = n
                                        break
                                if hit:
                                    break
                            if hit is None:
                                continue
                            from .astutil import is_noise as _is_noise
                            if _is_noise(st) and _read_only_body(helper):
                                continue            # a read-only helper used inside a logging statement stays part of that statement
                            rep = _expand_call(st, hit, helper, skip_first=(cls_q is not None and not is_static), caller_names=cn)
                            if rep is None:
                                continue
                            rep = rep or [ast.copy_location(ast.Pass(), st)]
                            _renumber(rep, st)
                            block[i:i + 1] = rep
                            changed = True
                            done += 1
                            break
                        if changed:
                            break
        # drop helpers that are no longer referenced
        for q, (helper, _, _) in new.items():
            refs = [n for n in ast.walk(tree) if (isinstance(n, ast.Attribute) and n.attr == helper.name) or (isinstance(n, ast.Name) and n.id == helper.name)]
            if not refs and helper.name.startswith('_'):          # a public function may be used from another module
                for parent in ast.walk(tree):
                    for f in ('body', 'orelse'):
                        b = getattr(parent, f, None)
                        if isinstance(b, list) and helper in b:
                            b.remove(helper)
                            if not b:
                                b.append(ast.copy_location(ast.Pass(), helper))
        total += done
        if not done:
            break
    return total


def _renumber(stmts, site):
    """Inlined statements take their place in the caller's line order: the line of the call site plus a fraction that grows in
    source order (rules order statements by line; '%d' shows the line of the call site)."""
    base, gap = site.lineno, getattr(site, '_gap', 1.0)
    todo, nodes = list(reversed(stmts)), []
    while todo:
        n = todo.pop()
        if hasattr(n, 'lineno') or isinstance(n, (ast.stmt, ast.expr, ast.excepthandler)):
            nodes.append(n)
        todo.extend(reversed(list(ast.iter_child_nodes(n))))
    step = gap / (len(nodes) + 1)
    for k, n in enumerate(nodes):
        n.lineno = n.end_lineno = base + k * step
        n._gap = step


def _callee(call, cls_q):
    f = call.func
    if cls_q is None:
        return f.id if isinstance(f, ast.Name) else None
    if isinstance(f, ast.Attribute) and isinstance(f.value, ast.Name):
        return f.attr
    return None


def _receiver_ok(call, cls_q, is_static, is_cls):
    if cls_q is None:
        return True
    r = call.func.value.id
    short = cls_q.split('.')[-1]
    if is_static or is_cls:
        return r in ('self', 'cls', short)
    return r == 'self'


# ---------------------------------------------------------------------------------------------- 4. explaining variables
FRESH_OBJECT_CALLS = {'list', 'bytearray', 'dict', 'set', 'enumerate', 'zip', 'reversed', 'map', 'filter', 'iter', 'sorted', 'np.array', 'np.zeros', 'np.ones',
                      'array.array', 'copy.copy', 'copy.deepcopy', 'collections.deque', 'deque', 'Queue', 'queue.Queue'}


def _creates_object(e):
    """the value is a new mutable or one-shot object (identity matters when it is used more than once)"""
    if isinstance(e, (ast.List, ast.Dict, ast.Set, ast.ListComp, ast.DictComp, ast.SetComp, ast.GeneratorExp)):
        return True
    if isinstance(e, ast.Call):
        t = _txt(e.func)
        return t in FRESH_OBJECT_CALLS or (isinstance(e.func, ast.Attribute) and e.func.attr in ('copy', 'keys', 'values', 'items')) or t[:1].isupper() or \
            (isinstance(e.func, ast.Attribute) and e.func.attr[:1].isupper())
    if isinstance(e, ast.IfExp):
        return _creates_object(e.body) or _creates_object(e.orelse)
    if isinstance(e, ast.BoolOp):
        return any(_creates_object(v) for v in e.values)
    return False


def _pure(expr, allow_self):
    for n in ast.walk(expr):
        if isinstance(n, ast.Call):
            t = _txt(n.func)
            if t in PURE_FUNCS:
                continue
            if isinstance(n.func, ast.Attribute) and n.func.attr in PURE_METHODS:
                continue
            return False
        if isinstance(n, (ast.Await, ast.Yield, ast.YieldFrom, ast.NamedExpr, ast.Lambda, ast.ListComp, ast.SetComp, ast.DictComp, ast.GeneratorExp)):
            return False
        if not allow_self and isinstance(n, ast.Attribute) and isinstance(n.value, ast.Name) and n.value.id == 'self':
            return False
    return True


def split_live_ranges(tree, ref_locals):
    """A local the reference does not have that is bound in several places whose uses never meet (each use sits after exactly one of the
    bindings, in that binding's own block) is several variables sharing a name: each binding gets a name of its own, so that the temps
    pass - which wants single bindings - can look at them."""
    total = 0
    for q, fn in functions(tree):
        want = (ref_locals or {}).get(q)
        if want is None:
            continue
        have_ = binding_order(fn)
        if len([h for h in have_ if h not in want]) <= len([w for w in want if w not in have_]):
            continue                    # as many unknown names as missing ones: a plain rename, the business of the alpha pass
        params = {a.arg for a in fn.args.posonlyargs + fn.args.args + fn.args.kwonlyargs}
        if fn.args.vararg:
            params.add(fn.args.vararg.arg)
        if fn.args.kwarg:
            params.add(fn.args.kwarg.arg)
        stores = {}
        for n in ast.walk(fn):
            if isinstance(n, ast.Name) and isinstance(n.ctx, (ast.Store, ast.Del)):
                stores.setdefault(n.id, []).append(n)
        declared = {x for n in ast.walk(fn) if isinstance(n, (ast.Global, ast.Nonlocal)) for x in n.names}
        for name, sts in stores.items():
            if len(sts) < 2 or name in want or name in params or name in declared:
                continue
            sites = []
            for block in _blocks(fn):
                for i, st in enumerate(block):
                    if isinstance(st, ast.Assign) and len(st.targets) == 1 and isinstance(st.targets[0], ast.Name) and st.targets[0].id == name:
                        sites.append((block, i, st))
            if len(sites) != len(sts):
                continue                                    # bound by a loop, a with, a tuple target ...
            regions = [{id(x) for s_ in block[i + 1:] for x in ast.walk(s_)} for block, i, st in sites]
            if any(id(st) in regions[k] for k in range(len(sites)) for _, _, st in sites):
                continue                                    # one binding inside the range of another
            uses = [n for n in ast.walk(fn) if isinstance(n, ast.Name) and n.id == name and isinstance(n.ctx, ast.Load)]
            if any(sum(1 for r in regions if id(u) in r) != 1 for u in uses):
                continue
            # the value of a binding must not read the name itself (x = x + 1 continues an older range)
            if any(isinstance(x, ast.Name) and x.id == name for _, _, st in sites for x in ast.walk(st.value)):
                continue
            for k, (block, i, st) in enumerate(sites):
                new = '%s__r%d' % (name, k + 1)
                st.targets[0].id = new
                for u in uses:
                    if id(u) in regions[k]:
                        u.id = new
            total += 1
    return total


_UNSTABLE = {}
_CUR_MODEL = [None]


def _stores_outside_init(tree):
    """attribute names stored (assigned, augmented, deleted) anywhere but in an __init__"""
    out = set()
    for q, fn in functions(tree):
        if fn.name == '__init__':
            continue
        for n in _own_walk(fn):
            if isinstance(n, ast.Attribute) and isinstance(n.ctx, (ast.Store, ast.Del)):
                out.add(n.attr)
            elif isinstance(n, ast.Call) and isinstance(n.func, ast.Name) and n.func.id in ('setattr', 'delattr') and len(n.args) >= 2 and isinstance(n.args[1], ast.Constant):
                out.add(str(n.args[1].value))
    for n in tree.body:
        for x in ast.walk(n) if not isinstance(n, (ast.FunctionDef, ast.AsyncFunctionDef, ast.ClassDef)) else []:
            if isinstance(x, ast.Attribute) and isinstance(x.ctx, (ast.Store, ast.Del)):
                out.add(x.attr)
    return out


def _unstable_attrs(model, tree):
    """names of attributes that something in the package re-binds after construction: a local bound to such an attribute is a snapshot,
    not an alias"""
    out = set(_stores_outside_init(tree))
    if model is None:
        return None                                       # cannot know: no attribute counts as stable
    key = getattr(model, 'root', None)
    if key not in _UNSTABLE:
        acc = set()
        import glob as _glob
        for pkg in ('cflib', 'lpslib'):
            for f in _glob.glob(os.path.join(key, pkg, '**', '*.py'), recursive=True):
                try:
                    acc |= _stores_outside_init(ast.parse(open(f, encoding='utf-8').read()))
                except (SyntaxError, OSError):
                    pass
        _UNSTABLE[key] = acc
    out |= _UNSTABLE[key]
    for src in getattr(model, 'overlay', {}).values():
        try:
            out |= _stores_outside_init(ast.parse(src))
        except SyntaxError:
            pass
    return out


def _class_unstable(tree, fn):
    """attribute names that the class of method ``fn`` re-binds through self outside __init__, plus names stored through any other
    receiver in this module (which may be an object of that class)"""
    out = set()
    owner = None
    for c in ast.walk(tree):
        if isinstance(c, ast.ClassDef) and any(x is fn for x in ast.walk(c)):
            owner = c                                   # innermost wins (walk order: outer first)
    for q, f2 in functions(tree):
        in_owner = owner is not None and any(x is f2 for x in ast.walk(owner))
        for n in _own_walk(f2):
            if isinstance(n, ast.Attribute) and isinstance(n.ctx, (ast.Store, ast.Del)):
                via_self = isinstance(n.value, ast.Name) and n.value.id in ('self', 'cls')
                if via_self and in_owner and f2.name != '__init__':
                    out.add(n.attr)
                elif not via_self and in_owner:
                    out.add(n.attr)                  # the class writing the attribute of another object of its kind
                elif not via_self and any(x is n for x in ast.walk(fn)):
                    out.add(n.attr)
    return out


def _settled_before(tree, fn, stmt, attr):
    """every store of self.<attr> outside __init__ is in ``fn`` itself, in a top-level statement of fn that comes before the top-level
    statement ``stmt``: from there on the attribute keeps its value"""
    if stmt not in fn.body:
        return False
    at = fn.body.index(stmt)
    owner = None
    for c in ast.walk(tree):
        if isinstance(c, ast.ClassDef) and any(x is fn for x in ast.walk(c)):
            owner = c
    if owner is None:
        return False
    for q, f2 in functions(tree):
        for n in _own_walk(f2):
            if isinstance(n, ast.Attribute) and isinstance(n.ctx, (ast.Store, ast.Del)) and n.attr == attr:
                if f2.name == '__init__' and any(x is f2 for x in ast.walk(owner)) and isinstance(n.value, ast.Name) and n.value.id == 'self':
                    continue
                if f2 is not fn:
                    return False
                idx = [k for k, s_ in enumerate(fn.body) if any(x is n for x in ast.walk(s_))]
                if not idx or idx[0] >= at:
                    return False
    return True


def _has_loose_loop(fn, block):
    """the block is (inside) a loop body: a later turn of the loop runs code before the binding again"""
    for n in ast.walk(fn):
        if isinstance(n, (ast.For, ast.While)) and any(b is block for b in _blocks(n)):
            return True
    return False


def _self_store_closure(tree, fn):
    """{method name: attributes of self it may (re)bind, directly or through the self.<method>() calls it makes} for the class of fn"""
    owner = None
    for c in ast.walk(tree):
        if isinstance(c, ast.ClassDef) and any(x is fn for x in ast.walk(c)):
            owner = c
    if owner is None:
        return None
    direct, calls = {}, {}
    for m in owner.body:
        if isinstance(m, (ast.FunctionDef, ast.AsyncFunctionDef)):
            direct[m.name] = {n.attr for n in ast.walk(m) if isinstance(n, ast.Attribute) and isinstance(n.ctx, (ast.Store, ast.Del)) and isinstance(n.value, ast.Name) and n.value.id == 'self'}
            calls[m.name] = {n.func.attr for n in ast.walk(m) if isinstance(n, ast.Call) and isinstance(n.func, ast.Attribute) and isinstance(n.func.value, ast.Name) and n.func.value.id == 'self'}
    out = {k: set(v) for k, v in direct.items()}
    for _ in range(len(out) + 1):
        changed = False
        for k in out:
            for c in calls[k]:
                if c in out and not out[c] <= out[k]:
                    out[k] |= out[c]
                    changed = True
        if not changed:
            break
    return out


def _quiet_span(tree, fn, stmts, attr):
    """none of the statements re-binds self.<attr>: no direct store, no self.<method>() call whose (transitive) stores include it, no
    setattr; calls on other objects are taken not to reach back into self's private attribute"""
    clo = _self_store_closure(tree, fn)
    if clo is None:
        return False
    for st in stmts:
        for n in ast.walk(st):
            if isinstance(n, ast.Attribute) and isinstance(n.ctx, (ast.Store, ast.Del)) and n.attr == attr:
                return False
            if isinstance(n, ast.Call) and isinstance(n.func, ast.Name) and n.func.id in ('setattr', 'delattr'):
                return False
            if isinstance(n, ast.Call) and isinstance(n.func, ast.Attribute) and isinstance(n.func.value, ast.Name) and n.func.value.id == 'self':
                if n.func.attr not in clo or attr in clo[n.func.attr]:
                    return False
    return True


def _stable_chain(e, unstable, fn=None, tree=None, stmt=None):
    """`self.a.b` / `Class.CONST` / `self.q.get`: a chain of attribute reads from a plain name in which no attribute is ever re-bound
    after construction - reading it again later gives the same object"""
    if unstable is None or not isinstance(e, ast.Attribute):
        return False
    chain = []
    cur = e
    while isinstance(cur, ast.Attribute):
        chain.append(cur)
        cur = cur.value
    if not isinstance(cur, ast.Name):
        return False
    chain.reverse()
    for k, a in enumerate(chain):
        if k == 0 and cur.id in ('self', 'cls') and fn is not None and tree is not None:
            # the object's own attribute: what its class (and anything in this module that may hold such an object) re-binds
            if a.attr in _class_unstable(tree, fn) and not (stmt is not None and _settled_before(tree, fn, stmt, a.attr)):
                return False
        elif a.attr in unstable:
            return False
    return True


_REF_STMTS = []


def _method_aliases(fn, path, q, unknown, stores):
    if _CUR_MODEL[0] is None:
        return []
    if not _REF_STMTS:
        from . import recognise
        _REF_STMTS.append(recognise.reference())
    have = set(_REF_STMTS[0].get(path, {}).get(q, []))
    sigs = _package_signatures(_CUR_MODEL[0])
    out = []
    for st in _fn_walk(fn):
        if isinstance(st, ast.Assign) and len(st.targets) == 1 and isinstance(st.targets[0], ast.Name) and st.targets[0].id in unknown and \
                stores.get(st.targets[0].id) == 1 and isinstance(st.value, ast.Attribute) and isinstance(st.value.value, ast.Name) and \
                ('.' + st.value.attr) in sigs and ('_ = _.%s' % st.value.attr) not in have:
            out.append(st.targets[0].id)
    return out


def inline_temps(tree, path, ref_locals):
    unstable = _unstable_attrs(_CUR_MODEL[0], tree)
    total = 0
    for q, fn in functions(tree):
        want = ref_locals.get(q)
        if want is None:
            continue
        for _ in range(40):
            have = binding_order(fn)
            unknown = [h for h in have if h not in want]
            if not unknown:
                break
            # `a, b = x, y` binding names the reference does not have: one binding each (when no element reads an earlier target)
            for block in _blocks(fn):
                if any(isinstance(st, ast.Assign) and len(st.targets) == 1 and isinstance(st.targets[0], ast.Tuple) and isinstance(st.value, ast.Tuple) and
                       any(isinstance(t, ast.Name) and t.id in unknown for t in st.targets[0].elts) for st in block):
                    block[:] = _untuple(block)
            missing = [w for w in want if w not in have]
            stores = _stores(fn)
            # a new name for a bound method (`m = obj.method`, method of the package, a binding the reference function does not have) is
            # never a rename of a reference local: it goes first, and it goes even when the head count says "renames only"
            forced = _method_aliases(fn, path, q, unknown, stores)
            if len(unknown) <= len(missing) and not forced:
                break               # plain renames are the business of the alpha pass
            if forced:
                unknown = forced + ([h for h in unknown if h not in forced] if len(unknown) > len(missing) else [])
            progressed = False
            # `v = E; self.a = v; .. v ..`  (v new, bound once)  ->  `self.a = E; .. self.a ..`  when nothing in between re-binds self.a
            for name in unknown:
                if stores.get(name) != 1 or progressed:
                    continue
                for block in _blocks(fn):
                    for i in range(len(block) - 1):
                        a, b = block[i], block[i + 1]
                        if isinstance(a, ast.Assign) and len(a.targets) == 1 and isinstance(a.targets[0], ast.Name) and a.targets[0].id == name and \
                                isinstance(b, ast.Assign) and len(b.targets) == 1 and isinstance(b.targets[0], ast.Attribute) and isinstance(b.targets[0].value, ast.Name) and \
                                b.targets[0].value.id == 'self' and isinstance(b.value, ast.Name) and b.value.id == name:
                            attr = b.targets[0].attr
                            uses_ = [n for n in ast.walk(fn) if isinstance(n, ast.Name) and n.id == name and isinstance(n.ctx, ast.Load) and n is not b.value]
                            idxs = [k for k in range(i + 2, len(block)) if any(u is x for u in uses_ for x in ast.walk(block[k]))]
                            if uses_ and not all(any(u is x for s_ in block[i + 2:] for x in ast.walk(s_)) for u in uses_):
                                continue
                            span = block[i + 2:(max(idxs) + 1 if idxs else i + 2)]
                            if _has_loose_loop(fn, block) or not _quiet_span(tree, fn, span, attr):
                                continue
                            look = ast.Attribute(value=ast.Name(id='self', ctx=ast.Load()), attr=attr, ctx=ast.Load())
                            sub = _Subst({name: look})
                            block[i + 2:] = [sub.visit(s_) for s_ in block[i + 2:]]
                            b.value = a.value
                            del block[i]
                            total += 1
                            progressed = True
                            break
                    if progressed:
                        break
            if progressed:
                continue
            for name in unknown:
                if stores.get(name) != 1:
                    continue
                site = None
                for block in _blocks(fn):
                    for i, st in enumerate(block):
                        if isinstance(st, ast.Assign) and len(st.targets) == 1 and isinstance(st.targets[0], ast.Name) and st.targets[0].id == name:
                            site = (block, i, st)
                if site is None:
                    continue
                block, i, st = site
                uses = [n for n in ast.walk(fn) if isinstance(n, ast.Name) and n.id == name and isinstance(n.ctx, ast.Load)]
                if not uses:
                    continue
                alias = _stable_chain(st.value, unstable, fn, tree, st) and not any(isinstance(n, ast.Name) and n.id in _stores(fn) for n in ast.walk(st.value))
                priv = st.value
                tail_ok = True
                while isinstance(priv, ast.Attribute) and isinstance(priv.value, ast.Attribute):
                    tail_ok = tail_ok and unstable is not None and priv.attr not in unstable          # further links of the chain: never re-bound anywhere
                    priv = priv.value
                if not alias and tail_ok and isinstance(priv, ast.Attribute) and isinstance(priv.value, ast.Name) and priv.value.id == 'self' and priv.attr.startswith('_'):
                    # a private attribute of self read once and used for a while: the same as reading it at each use when nothing
                    # between the binding and the last use (in this block) can re-bind it
                    idxs = [k for k in range(i + 1, len(block)) if any(u is x for u in uses for x in ast.walk(block[k]))]
                    if idxs and all(any(u is x for s_ in block[i + 1:] for x in ast.walk(s_)) for u in uses):
                        last = block[max(idxs)]
                        span = block[i + 1:max(idxs)]
                        # in the last statement only what is evaluated up to the use counts: take the whole statement when it is simple
                        if not isinstance(last, (ast.If, ast.For, ast.While, ast.Try, ast.With)) or all(any(u is x for root in _stmt_exprs(last) for x in ast.walk(root)) or
                                                                                                          not any(u is x for x in ast.walk(last)) for u in uses):
                            alias = _quiet_span(tree, fn, span + ([ast.Expr(value=r) for r in _stmt_exprs(last)] if isinstance(last, (ast.If, ast.For, ast.While)) else []),
                                                priv.attr) and not _has_loose_loop(fn, block)
                        else:
                            # uses inside the body of the last (compound) statement: the whole statement must be quiet
                            alias = _quiet_span(tree, fn, span + [last], priv.attr) and not _has_loose_loop(fn, block)
                reads_self = not alias and any(isinstance(n, ast.Attribute) and isinstance(n.value, ast.Name) and n.value.id == 'self' for n in ast.walk(st.value))
                if len(uses) > 1 and _creates_object(st.value):
                    continue            # two uses of one list / iterator / array are two views of ONE object: writing the expression twice makes two
                if not _pure(st.value, allow_self=True):
                    # a value with calls may only move into the statement that directly follows its definition, and only once
                    nxt = block[i + 1] if i + 1 < len(block) else None
                    if len(uses) != 1 or nxt is None or not any(uses[0] is x for root in _stmt_exprs(nxt) for x in ast.walk(root)) or isinstance(nxt, ast.While):
                        continue
                if reads_self:
                    # the attribute may change between definition and use: the uses must sit in the statement that follows the
                    # definition, possibly after further side-effect-free bindings of plain names
                    j = i + 1
                    while j < len(block) and isinstance(block[j], ast.Assign) and all(isinstance(t, ast.Name) for t in block[j].targets) and _pure(block[j].value, True) \
                            and not all(any(u is x for x in ast.walk(block[j])) for u in uses):
                        j += 1
                    nxt = block[j] if j < len(block) else None
                    span = block[i + 1:j + 1]
                    if nxt is None or not all(any(u is x for s_ in span for root in _stmt_exprs(s_) for x in ast.walk(root)) for u in uses):
                        continue
                # names the value reads must not be re-bound between the definition and the last use
                reads = {n.id for n in ast.walk(st.value) if isinstance(n, ast.Name)}
                use_idx = [k for k in range(i + 1, len(block)) if any(u is x for u in uses for x in ast.walk(block[k]))]
                if not use_idx:
                    continue
                between = block[i + 1:max(use_idx) + 1]
                last = block[max(use_idx)]
                if isinstance(last, (ast.If, ast.For)) and all(any(u is x for root in _stmt_exprs(last) for x in ast.walk(root)) or not any(u is x for x in ast.walk(last)) for u in uses):
                    # used in the test of an `if` / the iterable of a `for` only: evaluated once, before anything the statement's body binds
                    between = block[i + 1:max(use_idx)] + [ast.Expr(value=r) for r in _stmt_exprs(last)]
                if any(isinstance(n, ast.Name) and isinstance(n.ctx, (ast.Store, ast.Del)) and n.id in reads for s_ in between for n in ast.walk(s_)):
                    continue
                # a value that reads object state (attributes, items) must not move across a statement that may change that state
                # (`len(data)` reads the state of `data` as much as `data.size` does)
                reads_state = not alias and (any(isinstance(n, (ast.Attribute, ast.Subscript)) for n in ast.walk(st.value)) or
                                             any(isinstance(n, ast.Call) and any(isinstance(a_, ast.Name) for a_ in n.args) for n in ast.walk(st.value)))
                if reads_state and isinstance(st.value, ast.Attribute) and isinstance(st.value.value, ast.Name) and _CUR_MODEL[0] is not None and \
                        ('.' + st.value.attr) in _package_signatures(_CUR_MODEL[0]):
                    reads_state = False         # `m = obj.method`: looking a method up again gives an equal bound method, whatever state obj is in
                span_ = block[i + 1:max(use_idx)]
                if isinstance(last, (ast.For, ast.While)) and any(any(u is x for s_ in last.body + last.orelse for x in ast.walk(s_)) or
                                                                  (isinstance(last, ast.While) and any(u is x for x in ast.walk(last.test))) for u in uses):
                    span_ = span_ + [last]          # used inside a loop: evaluated again in every iteration, after whatever the body did
                if reads_state and _state_may_change(span_, {n.id for n in ast.walk(st.value) if isinstance(n, ast.Name)}):
                    continue
                # uses must come after the definition and in its block (or nested below it)
                following = block[i + 1:]
                if not all(any(u is x for s in following for x in ast.walk(s)) for u in uses):
                    continue
                sub = _Subst({name: st.value})
                block[i + 1:] = [sub.visit(s) for s in following]
                del block[i]
                if not block:
                    block.append(ast.copy_location(ast.Pass(), st))
                total += 1
                progressed = True
                break
            if not progressed:
                break
    return total


def _root(node):
    while isinstance(node, (ast.Attribute, ast.Subscript)):
        node = node.value
    return node.id if isinstance(node, ast.Name) else None


def _state_may_change(stmts, roots):
    """May one of ``stmts`` change an attribute/item reachable from the names ``roots``?  (stores through those names, or calls that
    are not known to be pure and get one of them as receiver or argument; any impure call when ``self`` is among them.)"""
    for s_ in stmts:
        for n in ast.walk(s_):
            if isinstance(n, (ast.Attribute, ast.Subscript)) and isinstance(n.ctx, (ast.Store, ast.Del)) and _root(n) in roots:
                return True
            if isinstance(n, ast.Call):
                t = _txt(n.func)
                if t in PURE_FUNCS or (isinstance(n.func, ast.Attribute) and n.func.attr in PURE_METHODS):
                    continue
                if 'self' in roots:
                    return True
                recv = _root(n.func) if isinstance(n.func, ast.Attribute) else None
                if recv in roots or any(isinstance(x, ast.Name) and x.id in roots for a in list(n.args) + [k.value for k in n.keywords] for x in ast.walk(a)):
                    return True
    return False


def _inside_loop(fn, stmt):
    for n in ast.walk(fn):
        if isinstance(n, (ast.For, ast.While)) and any(x is stmt for x in ast.walk(n)):
            return True
    return False


# ---------------------------------------------------------------------------------------------- 5. conditional expressions
def expand_ifexps(tree, ref):
    known = ref.get('ifexps', {})
    total = 0
    for q, fn in functions(tree):
        keep = set(known.get(q, []))
        if len([n for n in ast.walk(fn) if isinstance(n, ast.IfExp)]) <= len(known.get(q, [])):
            continue
        for _ in range(8):
            changed = False
            for block in _blocks(fn):
                for i, st in enumerate(block):
                    v = st.value if isinstance(st, (ast.Assign, ast.Return, ast.AugAssign)) else None
                    # T.m(A if c else B) as a statement (plain name/attribute receiver) -> if c: T.m(A) else: T.m(B)
                    if isinstance(st, ast.Expr) and isinstance(st.value, ast.Call) and len(st.value.args) == 1 and not st.value.keywords and \
                            isinstance(st.value.args[0], ast.IfExp) and _shape_txt(st.value.args[0]) not in keep and \
                            all(isinstance(n, (ast.Name, ast.Attribute, ast.Load)) for n in ast.walk(st.value.func)):
                        ie = st.value.args[0]

                        def mkc(x):
                            c2 = ast.Call(func=copy.deepcopy(st.value.func), args=[x], keywords=[])
                            return ast.copy_location(ast.Expr(value=ast.copy_location(c2, st.value)), st)
                        block[i] = ast.copy_location(ast.If(test=ie.test, body=[mkc(ie.body)], orelse=[mkc(ie.orelse)]), st)
                        changed = True
                        total += 1
                        break
                    if isinstance(v, ast.IfExp) and _shape_txt(v) not in keep:
                        def mk(x):
                            s2 = copy.copy(st)
                            s2.value = x
                            return ast.copy_location(s2, st)
                        a, b = mk(v.body), mk(v.orelse)
                        if isinstance(st, ast.Assign):
                            a.targets = copy.deepcopy(st.targets)
                        block[i] = ast.copy_location(ast.If(test=v.test, body=[a], orelse=[b]), st)
                        changed = True
                        total += 1
                        break
                if changed:
                    break
            if not changed:
                break
    return total


# ---------------------------------------------------------------------------------------------- 7. constant-bound loops
def _const_items(it):
    """constant nodes iterated by `for x in range(K)` or `for x in (c1, c2, ..)`; None if not such a loop"""
    r = _const_range(it)
    if r is not None:
        return [ast.Constant(value=k) for k in r]
    if isinstance(it, (ast.Tuple, ast.List)) and 1 <= len(it.elts) <= 8 and all(isinstance(e, (ast.Constant, ast.Name)) for e in it.elts):
        return [copy.deepcopy(e) for e in it.elts]          # (plain names: the unroller checks that the body does not re-bind them)
    if isinstance(it, (ast.Tuple, ast.List)) and 1 <= len(it.elts) <= 8 and all(
            isinstance(e, (ast.Tuple, ast.List)) and all(isinstance(x, ast.Constant) or (isinstance(x, ast.Attribute) and _simple_arg(x)) for x in e.elts) for e in it.elts):
        return [copy.deepcopy(e) for e in it.elts]          # rows of a constant table
    return None


class _AttrCalls(ast.NodeTransformer):
    """getattr(x, 'name') -> x.name ; setattr(x, 'name', v) as a statement -> x.name = v   (literal identifier names only)"""

    def visit_Call(self, n):
        self.generic_visit(n)
        if isinstance(n.func, ast.Name) and n.func.id == 'getattr' and len(n.args) == 2 and not n.keywords and isinstance(n.args[1], ast.Constant) \
                and isinstance(n.args[1].value, str) and n.args[1].value.isidentifier():
            return ast.copy_location(ast.Attribute(value=n.args[0], attr=n.args[1].value, ctx=ast.Load()), n)
        return n

    def visit_Expr(self, n):
        self.generic_visit(n)
        c = n.value
        if isinstance(c, ast.Call) and isinstance(c.func, ast.Name) and c.func.id == 'setattr' and len(c.args) == 3 and not c.keywords and \
                isinstance(c.args[1], ast.Constant) and isinstance(c.args[1].value, str) and c.args[1].value.isidentifier():
            return ast.copy_location(ast.Assign(targets=[ast.Attribute(value=c.args[0], attr=c.args[1].value, ctx=ast.Store())], value=c.args[2], lineno=n.lineno), n)
        return n


def _const_range(it):
    if isinstance(it, ast.Call) and isinstance(it.func, ast.Name) and it.func.id == 'range' and 1 <= len(it.args) <= 3 and not it.keywords:
        try:
            vals = [_literal(a, {}) for a in it.args]
        except ValueError:
            return None
        if all(isinstance(v, int) and not isinstance(v, bool) for v in vals):
            r = range(*vals)
            if 1 <= len(r) <= 8:
                return list(r)
    return None


def unroll_loops(tree, ref):
    """`for i in range(K): body` (K a small constant) unknown to the reference -> K copies of the body with i replaced by its value;
    `[e for i in range(K)]` unknown to the reference -> the list literal.  Only where the loop variable is not re-bound, the loop has
    no break/continue/else and the variable is not read after the loop."""
    known_l, known_c = ref.get('loops', {}), ref.get('comps', {})
    total = 0
    for q, fn in functions(tree):
        keep = list(known_l.get(q, []))
        fors = [n for n in ast.walk(fn) if isinstance(n, ast.For)]
        if len(fors) > len(keep):
            for _ in range(6):
                changed = False
                for block in _blocks(fn):
                    for i, st in enumerate(block):
                        if not isinstance(st, ast.For) or st.orelse:
                            continue
                        vals = _const_items(st.iter)
                        if vals is None or _shape_txt(st) in keep:
                            continue
                        if isinstance(st.target, (ast.Tuple, ast.List)) and all(isinstance(e, ast.Name) for e in st.target.elts) and \
                                all(isinstance(r, (ast.Tuple, ast.List)) and len(r.elts) == len(st.target.elts) for r in vals):
                            names_ = [e.id for e in st.target.elts]
                            inner = [n for s_ in st.body for n in ast.walk(s_)]
                            if any(isinstance(n, (ast.Break, ast.Continue, ast.Return, ast.FunctionDef, ast.Lambda)) for n in inner) or \
                                    any(isinstance(n, ast.Name) and n.id in names_ and isinstance(n.ctx, (ast.Store, ast.Del)) for n in inner) or \
                                    any(isinstance(n, ast.Name) and n.id in names_ and isinstance(n.ctx, ast.Load) and not _rebound_around(fn, n) for s_ in block[i + 1:] for n in ast.walk(s_)):
                                continue
                            new = []
                            for r in vals:
                                sub = _Subst(dict(zip(names_, r.elts)))
                                new.extend(_AttrCalls().visit(sub.visit(copy.deepcopy(s_))) for s_ in st.body)
                            block[i:i + 1] = new
                            changed = True
                            total += 1
                            break
                        if not isinstance(st.target, ast.Name) or any(isinstance(r, (ast.Tuple, ast.List)) for r in vals):
                            continue
                        v = st.target.id
                        inner = [n for s_ in st.body for n in ast.walk(s_)]
                        if any(isinstance(n, (ast.Break, ast.Continue, ast.Return, ast.FunctionDef, ast.Lambda)) for n in inner):
                            continue
                        if any(isinstance(n, ast.Name) and n.id == v and isinstance(n.ctx, (ast.Store, ast.Del)) for n in inner):
                            continue
                        item_names = {r.id for r in vals if isinstance(r, ast.Name)}
                        if item_names and any(isinstance(n, ast.Name) and n.id in item_names and isinstance(n.ctx, (ast.Store, ast.Del)) for n in inner):
                            continue
                        after = [n for s_ in block[i + 1:] for n in ast.walk(s_) if isinstance(n, ast.Name) and n.id == v and isinstance(n.ctx, ast.Load) and not _rebound_around(fn, n)]
                        if after:
                            continue
                        new = []
                        for k in vals:
                            sub = _Subst({v: k})
                            new.extend(_AttrCalls().visit(sub.visit(copy.deepcopy(s_))) for s_ in st.body)
                        block[i:i + 1] = new
                        changed = True
                        total += 1
                        break
                    if changed:
                        break
                if not changed or len([n for n in ast.walk(fn) if isinstance(n, ast.For)]) <= len(keep):
                    break
        keepc = list(known_c.get(q, []))
        comps = [n for n in ast.walk(fn) if isinstance(n, (ast.ListComp, ast.DictComp, ast.SetComp, ast.GeneratorExp))]
        if len(comps) > len(keepc):
            class U(ast.NodeTransformer):
                def visit_ListComp(self, n):
                    self.generic_visit(n)
                    if len(n.generators) == 1 and not n.generators[0].ifs and isinstance(n.generators[0].target, ast.Name) and _shape_txt(n) not in keepc:
                        vals = _const_range(n.generators[0].iter)
                        if vals is not None:
                            v = n.generators[0].target.id
                            return ast.copy_location(ast.List(elts=[_Subst({v: ast.Constant(value=k)}).visit(copy.deepcopy(n.elt)) for k in vals], ctx=ast.Load()), n)
                        it = n.generators[0].iter
                        # [E(v) for v in (a, b, c)] over a literal row of plain names / constants -> [E(a), E(b), E(c)]
                        if isinstance(it, (ast.Tuple, ast.List)) and 1 <= len(it.elts) <= 8 and all(isinstance(e, (ast.Constant, ast.Name)) for e in it.elts) and \
                                not any(isinstance(x, (ast.NamedExpr, ast.Lambda, ast.ListComp, ast.GeneratorExp, ast.DictComp, ast.SetComp)) for x in ast.walk(n.elt)):
                            v = n.generators[0].target.id
                            return ast.copy_location(ast.List(elts=[_Subst({v: copy.deepcopy(e)}).visit(copy.deepcopy(n.elt)) for e in it.elts], ctx=ast.Load()), n)
                    return n
            before = len(comps)
            fn.body = [U().visit(s_) for s_ in fn.body]
            total += before - len([n for n in ast.walk(fn) if isinstance(n, (ast.ListComp, ast.DictComp, ast.SetComp, ast.GeneratorExp))])
    return total


# ---------------------------------------------------------------------------------------------- 6. comprehensions
def lower_any_tests(tree, ref):
    """`if any(E for v in R): B` (a generator the reference does not have, no else) -> `for v in R: if E: B; break`: the generator is
    consumed lazily and any() stops at the first true element, exactly as the loop with break."""
    known = ref.get('comps', {})
    total = 0
    for q, fn in functions(tree):
        keep = set(known.get(q, []))
        for block in _blocks(fn):
            for i, st in enumerate(block):
                if not (isinstance(st, ast.If) and not st.orelse and isinstance(st.test, ast.Call) and _txt(st.test.func) == 'any' and len(st.test.args) == 1 and
                        not st.test.keywords and isinstance(st.test.args[0], ast.GeneratorExp)):
                    continue
                comp = st.test.args[0]
                if _shape_txt(comp) in keep or len(comp.generators) != 1 or comp.generators[0].ifs or comp.generators[0].is_async:
                    continue
                g = comp.generators[0]
                cvars = {n.id for n in ast.walk(g.target) if isinstance(n, ast.Name)}
                elsewhere = [n for n in ast.walk(fn) if isinstance(n, ast.Name) and n.id in cvars and not any(n is x for x in ast.walk(comp)) and not _rebound_around(fn, n)]
                if elsewhere:
                    continue
                # a break / continue of the body would bind to the new loop
                def loose(stmts):
                    for x in stmts:
                        if isinstance(x, (ast.Break, ast.Continue)):
                            return True
                        if isinstance(x, (ast.For, ast.While, ast.FunctionDef, ast.AsyncFunctionDef, ast.ClassDef)):
                            continue
                        for f in ('body', 'orelse', 'finalbody'):
                            if loose(getattr(x, f, []) or []):
                                return True
                        for h in getattr(x, 'handlers', []) or []:
                            if loose(h.body):
                                return True
                    return False
                if loose(st.body):
                    continue
                for n in ast.walk(g.target):
                    if isinstance(n, ast.Name):
                        n.ctx = ast.Store()
                inner = ast.copy_location(ast.If(test=comp.elt, body=st.body + [ast.copy_location(ast.Break(), st.body[-1])], orelse=[]), st)
                block[i] = ast.copy_location(ast.For(target=g.target, iter=g.iter, body=[inner], orelse=[], lineno=st.lineno), st)
                total += 1
    return total


def collapse_append_loops(tree, ref):
    """`X = []; for v in IT: [if c:] X.append(e)`  ->  `X = [e for v in IT if c]`  where the reference function has a comprehension this one
    lacks.  X is a local that nothing else touches inside the loop, v is not read after the loop."""
    total = 0
    known = ref.get('comps', {})
    for q, fn in functions(tree):
        for _ in range(4):
            n_comp = len([n for n in ast.walk(fn) if isinstance(n, (ast.ListComp, ast.DictComp, ast.SetComp, ast.GeneratorExp))])
            if len(known.get(q, [])) <= n_comp:
                break
            changed = False
            for block in _blocks(fn):
                for i in range(len(block) - 1):
                    a, lp = block[i], block[i + 1]
                    if not (isinstance(a, ast.Assign) and len(a.targets) == 1 and isinstance(a.targets[0], ast.Name) and isinstance(a.value, ast.List) and not a.value.elts and
                            isinstance(lp, ast.For) and not lp.orelse and len(lp.body) == 1):
                        continue
                    X = a.targets[0].id
                    inner, conds = lp.body[0], []
                    while isinstance(inner, ast.If) and not inner.orelse and len(inner.body) == 1:
                        conds.append(inner.test)
                        inner = inner.body[0]
                    if not (isinstance(inner, ast.Expr) and isinstance(inner.value, ast.Call) and isinstance(inner.value.func, ast.Attribute) and inner.value.func.attr == 'append' and
                            isinstance(inner.value.func.value, ast.Name) and inner.value.func.value.id == X and len(inner.value.args) == 1 and not inner.value.keywords):
                        continue
                    elt = inner.value.args[0]
                    if any(isinstance(n, ast.Name) and n.id == X for c in conds + [elt, lp.iter] for n in ast.walk(c)):
                        continue
                    lvars = {n.id for n in ast.walk(lp.target) if isinstance(n, ast.Name)}
                    if any(isinstance(n, ast.Name) and n.id in lvars and isinstance(n.ctx, ast.Load) for x in block[i + 2:] for n in ast.walk(x)) or X in lvars:
                        continue
                    tgt = copy.deepcopy(lp.target)
                    comp = ast.ListComp(elt=elt, generators=[ast.comprehension(target=tgt, iter=lp.iter, ifs=conds, is_async=0)])
                    a.value = ast.copy_location(comp, lp)
                    del block[i + 1]
                    changed = True
                    total += 1
                    break
                if changed:
                    break
            if not changed:
                break
    if total:
        ast.fix_missing_locations(tree)
    return total


def scalarise_built_lists(tree, ref, ref_locals):
    """`X = []; X.append(a); X.append(b)` (straight-line, a local the reference does not have) that is afterwards only read as `X[0]`, `X[1]`
    is a group of locals X_0 = a; X_1 = b (what an unrolled collecting loop leaves behind)."""
    total = 0
    for q, fn in functions(tree):
        want = (ref_locals or {}).get(q)
        if want is None:
            continue
        params = {a.arg for a in fn.args.posonlyargs + fn.args.args + fn.args.kwonlyargs}
        for block in _blocks(fn):
            for i, st in enumerate(block):
                if not (isinstance(st, ast.Assign) and len(st.targets) == 1 and isinstance(st.targets[0], ast.Name) and isinstance(st.value, ast.List) and
                        st.targets[0].id not in want and st.targets[0].id not in params):
                    continue
                X = st.targets[0].id
                elems = list(st.value.elts)
                if any(isinstance(e, ast.Starred) for e in elems):
                    continue
                j = i + 1
                apps = []
                while j < len(block) and isinstance(block[j], ast.Expr) and isinstance(block[j].value, ast.Call) and isinstance(block[j].value.func, ast.Attribute) and \
                        block[j].value.func.attr == 'append' and isinstance(block[j].value.func.value, ast.Name) and block[j].value.func.value.id == X and len(block[j].value.args) == 1 and \
                        not any(isinstance(n, ast.Name) and n.id == X for n in ast.walk(block[j].value.args[0])):
                    apps.append(block[j])
                    j += 1
                if not apps:
                    continue
                n = len(elems) + len(apps)
                mentions = [m for m in ast.walk(fn) if isinstance(m, ast.Name) and m.id == X]
                subs = [m for m in ast.walk(fn) if isinstance(m, ast.Subscript) and isinstance(m.value, ast.Name) and m.value.id == X and isinstance(m.ctx, ast.Load) and
                        isinstance(m.slice, ast.Constant) and isinstance(m.slice.value, int) and not isinstance(m.slice.value, bool) and 0 <= m.slice.value < n]
                if len(mentions) != 1 + len(apps) + len(subs) or not subs:
                    continue
                later = {id(m) for x in block[j:] for m in ast.walk(x)}
                if not all(id(m) in later for m in subs):
                    continue
                names = ['%s_%d' % (X, k) for k in range(n)]
                if any(isinstance(m, ast.Name) and m.id in names for m in ast.walk(fn)):
                    continue
                new = []
                for k, e in enumerate(elems):
                    new.append(ast.copy_location(ast.Assign(targets=[ast.Name(id=names[k], ctx=ast.Store())], value=e, lineno=st.lineno), st))
                for k, a in enumerate(apps):
                    new.append(ast.copy_location(ast.Assign(targets=[ast.Name(id=names[len(elems) + k], ctx=ast.Store())], value=a.value.args[0], lineno=a.lineno), a))

                class T(ast.NodeTransformer):
                    def visit_Subscript(self, m):
                        if any(m is s_ for s_ in subs):
                            return ast.copy_location(ast.Name(id=names[m.slice.value], ctx=ast.Load()), m)
                        self.generic_visit(m)
                        return m
                block[i:j] = new
                for k in range(len(fn.body)):
                    fn.body[k] = T().visit(fn.body[k])
                total += 1
                break
    if total:
        ast.fix_missing_locations(tree)
    return total


def expand_comprehensions(tree, ref):
    """x = [e for v in L if c] / {k: e for ...} / sum(e for ...) unknown to the reference -> initialisation + loop"""
    known = ref.get('comps', {})
    total = 0
    for q, fn in functions(tree):
        keep = set(known.get(q, []))
        # a comprehension that merely changed a little is still the reference's comprehension: only surplus ones are expanded
        if len([n for n in ast.walk(fn) if isinstance(n, (ast.ListComp, ast.DictComp, ast.SetComp, ast.GeneratorExp))]) <= len(known.get(q, [])):
            continue
        for _ in range(8):
            changed = False
            for block in _blocks(fn):
                for i, st in enumerate(block):
                    # X += [e for v in L if c] on a local list, outside any try of the function (a failure half way loses X altogether)
                    #   -> the same as X.extend(<generator>): handled below
                    if isinstance(st, ast.AugAssign) and isinstance(st.op, ast.Add) and isinstance(st.target, ast.Name) and isinstance(st.value, ast.ListComp) and \
                            _shape_txt(st.value) not in keep and not any(isinstance(t_, ast.Try) and any(x_ is st for x_ in ast.walk(t_)) for t_ in ast.walk(fn)):
                        gen_ = ast.copy_location(ast.GeneratorExp(elt=st.value.elt, generators=st.value.generators), st.value)
                        st = ast.copy_location(ast.Expr(value=ast.copy_location(ast.Call(func=ast.Attribute(value=ast.Name(id=st.target.id, ctx=ast.Load()), attr='extend', ctx=ast.Load()),
                                                                                           args=[gen_], keywords=[]), st)), st)
                        ast.fix_missing_locations(st)
                        block[i] = st
                    # T.extend(e for v in L if c) as a statement -> for v in L: if c: T.append(e)   (elements are appended as they are produced)
                    if isinstance(st, ast.Expr) and isinstance(st.value, ast.Call) and isinstance(st.value.func, ast.Attribute) and st.value.func.attr == 'extend' and \
                            isinstance(st.value.func.value, (ast.Name, ast.Attribute)) and len(st.value.args) == 1 and not st.value.keywords and \
                            isinstance(st.value.args[0], (ast.GeneratorExp, ast.ListComp)) and _shape_txt(st.value.args[0]) not in keep:
                        comp = st.value.args[0]
                        recv = st.value.func.value
                        cvars = {n.id for g in comp.generators for n in ast.walk(g.target) if isinstance(n, ast.Name)}
                        elsewhere = [n for n in ast.walk(fn) if isinstance(n, ast.Name) and n.id in cvars and not any(n is x for x in ast.walk(comp)) and not _rebound_around(fn, n)]
                        # a list comprehension is built completely before extend sees it: only the lazy form is the loop, unless building cannot fail half way
                        if not elsewhere and isinstance(comp, ast.GeneratorExp) and not any(isinstance(n, ast.Name) and n.id in cvars for n in ast.walk(recv)):
                            body = [ast.copy_location(ast.Expr(value=ast.Call(func=ast.Attribute(value=copy.deepcopy(recv), attr='append', ctx=ast.Load()), args=[comp.elt], keywords=[])), st)]
                            for g in reversed(comp.generators):
                                for c in reversed(g.ifs):
                                    body = [ast.copy_location(ast.If(test=c, body=body, orelse=[]), st)]
                                body = [ast.copy_location(ast.For(target=g.target, iter=g.iter, body=body, orelse=[], lineno=st.lineno), st)]
                                for n in ast.walk(g.target):
                                    if isinstance(n, ast.Name):
                                        n.ctx = ast.Store()
                            block[i:i + 1] = body
                            changed = True
                            total += 1
                            break
                    ann = isinstance(st, ast.AnnAssign) and st.value is not None and isinstance(st.target, ast.Name)
                    self_attr = isinstance(st, ast.Assign) and len(st.targets) == 1 and isinstance(st.targets[0], ast.Attribute) and \
                        isinstance(st.targets[0].value, ast.Name) and st.targets[0].value.id == 'self'
                    if not ann and not self_attr and not (isinstance(st, ast.Assign) and len(st.targets) == 1 and isinstance(st.targets[0], ast.Name)):
                        continue
                    v, kind = st.value, None
                    if isinstance(v, ast.ListComp):
                        comp, kind = v, 'list'
                    elif isinstance(v, ast.DictComp):
                        comp, kind = v, 'dict'
                    elif isinstance(v, ast.Call) and _txt(v.func) in ('sum', 'list') and len(v.args) == 1 and not v.keywords and isinstance(v.args[0], (ast.GeneratorExp, ast.ListComp)):
                        comp, kind = v.args[0], _txt(v.func)
                    if kind is None or _shape_txt(comp) in keep:
                        continue
                    if self_attr:
                        # self.x = {..}: nothing evaluated while building may look at self.x (it is bound only afterwards): no calls on self,
                        # no mention of the attribute
                        if kind in ('sum',) or any((isinstance(n, ast.Attribute) and n.attr == st.targets[0].attr) or
                                                   (isinstance(n, ast.Call) and isinstance(n.func, ast.Attribute) and isinstance(n.func.value, ast.Name) and n.func.value.id == 'self')
                                                   for n in ast.walk(comp)):
                            continue
                    tgt = st.target.id if ann else (st.targets[0].id if not self_attr else None)
                    tnode = (lambda ctx_: ast.Name(id=tgt, ctx=ctx_)) if not self_attr else (lambda ctx_: ast.Attribute(value=ast.Name(id='self', ctx=ast.Load()), attr=st.targets[0].attr, ctx=ctx_))
                    cvars = {n.id for g in comp.generators for n in ast.walk(g.target) if isinstance(n, ast.Name)}
                    # the loop variables become function locals: they must not collide with anything else in the function
                    elsewhere = [n for n in ast.walk(fn) if isinstance(n, ast.Name) and n.id in cvars and not any(n is x for x in ast.walk(comp))
                                 and not _rebound_around(fn, n)]
                    if elsewhere or tgt in cvars or any(isinstance(n, ast.Name) and n.id == tgt for n in ast.walk(comp)):
                        continue
                    if kind in ('list',):
                        init = ast.List(elts=[], ctx=ast.Load())
                        leaf = ast.Expr(value=ast.Call(func=ast.Attribute(value=tnode(ast.Load()), attr='append', ctx=ast.Load()), args=[comp.elt], keywords=[]))
                    elif kind == 'dict':
                        init = ast.Dict(keys=[], values=[])
                        leaf = ast.Assign(targets=[ast.Subscript(value=tnode(ast.Load()), slice=comp.key, ctx=ast.Store())], value=comp.value, lineno=st.lineno)
                    else:
                        init = ast.Constant(value=0)
                        leaf = ast.AugAssign(target=tnode(ast.Store()), op=ast.Add(), value=comp.elt)
                    body = [ast.copy_location(leaf, st)]
                    for g in reversed(comp.generators):
                        for c in reversed(g.ifs):
                            body = [ast.copy_location(ast.If(test=c, body=body, orelse=[]), st)]
                        body = [ast.copy_location(ast.For(target=g.target, iter=g.iter, body=body, orelse=[], lineno=st.lineno), st)]
                        for n in ast.walk(g.target):
                            if isinstance(n, ast.Name):
                                n.ctx = ast.Store()
                    if ann:
                        first = ast.AnnAssign(target=ast.Name(id=tgt, ctx=ast.Store()), annotation=st.annotation, value=init, simple=1)
                    else:
                        first = ast.Assign(targets=[tnode(ast.Store())], value=init, lineno=st.lineno)
                    block[i:i + 1] = [ast.copy_location(first, st)] + body
                    changed = True
                    total += 1
                    break
                if changed:
                    break
            if not changed:
                break
    return total


def _rebound_around(fn, name_node):
    """the occurrence sits inside a for loop or comprehension that binds the same name itself (so it never sees an outer value)"""
    for n in ast.walk(fn):
        if isinstance(n, ast.For) and any(isinstance(t, ast.Name) and t.id == name_node.id for t in ast.walk(n.target)) and any(x is name_node for x in ast.walk(n)):
            return True
        if isinstance(n, (ast.ListComp, ast.SetComp, ast.DictComp, ast.GeneratorExp)) and any(x is name_node for x in ast.walk(n)) and \
                any(isinstance(t, ast.Name) and t.id == name_node.id for g in n.generators for t in ast.walk(g.target)):
            return True
    return False


# ---------------------------------------------------------------------------------------------- driver
def _settle(tree, ref, path, ref_locals):
    """decided branches, live ranges, temps and dead stores feed each other: repeat until nothing moves"""
    total = 0
    for _ in range(5):
        k = fold_decided_branches(tree, ref) + drop_dead_stores(tree, ref_locals) + split_live_ranges(tree, ref_locals) + inline_temps(tree, path, ref_locals)
        total += k
        if not k:
            break
    return total


def drop_dead_stores(tree, ref_locals):
    """`name = <literal>` for a local the reference does not have and nothing reads"""
    total = 0
    for q, fn in functions(tree):
        want = (ref_locals or {}).get(q)
        if want is None:
            continue
        have_ = binding_order(fn)
        if len([h for h in have_ if h not in want]) <= len([w for w in want if w not in have_]):
            continue                    # as many unknown names as missing ones: a plain rename, the business of the alpha pass
        loads = {n.id for n in ast.walk(fn) if isinstance(n, ast.Name) and isinstance(n.ctx, (ast.Load, ast.Del))}
        declared = {x for n in ast.walk(fn) if isinstance(n, (ast.Global, ast.Nonlocal)) for x in n.names}
        for block in _blocks(fn):
            for st in list(block):
                if isinstance(st, ast.Assign) and len(st.targets) == 1 and isinstance(st.targets[0], ast.Name) and isinstance(st.value, ast.Constant) and \
                        st.targets[0].id not in loads and st.targets[0].id not in want and st.targets[0].id not in declared:
                    if len(block) > 1:
                        block.remove(st)
                    else:
                        block[0] = ast.copy_location(ast.Pass(), st)
                    total += 1
    return total


def normalise(tree, path, ref_locals, model=None):
    """-> dict of counts per rewrite (empty if nothing changed)"""
    if os.environ.get('VERIF_NO_UNREFACTOR'):
        return {}
    ref = _ref().get(path)
    if ref is None:
        return {}
    _CUR_MODEL[0] = model
    out = {}
    for name, fn in (('moved', lambda: pull_back_moved(tree, ref, path, model) + drop_moved_away(tree, ref, path, model)), ('match', lambda: lower_match(tree, ref)), ('walrus', lambda: expand_walrus(tree, ref)), ('eafp', lambda: undo_eafp_probes(tree, ref)), ('getnone', lambda: undo_get_none_tests(tree, ref, ref_locals)), ('iadd', lambda: extend_as_iadd(tree, ref)), ('enums', lambda: dissolve_enums(tree, ref)), ('namedtuples', lambda: dissolve_namedtuples(tree, ref, path, model)), ('regroup', lambda: regroup_indexed_reads(tree, ref, ref_locals)), ('dataclasses', lambda: undo_dataclasses(tree, ref)), ('dispatch', lambda: undo_dispatch_tables(tree, ref)),
                     ('annotations', lambda: strip_annotations(tree, ref)), ('imports', lambda: normalise_imports(tree, ref)), ('attributes', lambda: rename_attributes(tree, ref)),
                     ('methods', lambda: rename_methods(tree, ref)), ('formats', lambda: restyle_formats(tree, ref)), ('spelling', lambda: respell(tree, ref) + respell_len_tests(tree, ref)), ('closures', lambda: restore_closures(tree, ref) + restore_closures_from_objects(tree, ref) + unname_lambdas(tree, ref)), ('self', lambda: restore_self(tree, ref)), ('tuples', lambda: split_tuple_bindings(tree, ref)), ('suppress', lambda: expand_suppress(tree, ref)), ('constants', lambda: _constants(tree, ref)),
                     ('formats2', lambda: fold_nested_formats(tree, ref) + fold_literal_lengths(tree, ref)), ('boolindex', lambda: undo_bool_indexing(tree, ref)), ('observability', lambda: drop_observability(tree, ref)), ('params', lambda: default_new_params(tree, ref) + default_new_params(tree, ref)), ('kwargs', lambda: positionalise_keywords(tree, ref, model)), ('initliterals', lambda: inline_init_literals(tree, ref)),
                     ('structs', lambda: inline_struct_objects(tree, ref)),
                     ('anytests', lambda: lower_any_tests(tree, ref)), ('itertools', lambda: undo_iteration_tools(tree, ref) + undo_iteration_tools(tree, ref)), ('continues', lambda: nest_early_continues(tree, ref) + loop_guards_to_test(tree, ref)), ('loops', lambda: reshape_loops(tree, ref, ref_locals)), ('predicates', lambda: fold_predicate_helpers(tree, ref) + fold_guard_flags(tree, ref, ref_locals) + returns_to_breaks(tree, ref)), ('helpers', lambda: inline_generator_loops(tree, ref) + inline_helpers(tree, ref)), ('namedtuples2', lambda: dissolve_namedtuples(tree, ref, path, model)), ('records', lambda: scalarise_records(tree, ref)), ('tuplevars', lambda: scalarise_tuple_locals(tree, ref, ref_locals)), ('elsedefaults', lambda: hoist_else_defaults(tree, ref)), ('ifexps0', lambda: expand_ifexps(tree, ref)), ('flagtails', lambda: sink_flag_tails(tree, ref, ref_locals)), ('decided', lambda: fold_decided_branches(tree, ref)), ('trivia', lambda: merge_common_tails(tree, ref, ref_locals) + drop_trivia(tree, ref)), ('ifexps', lambda: expand_ifexps(tree, ref)), ('boolreturns', lambda: expand_bool_returns(tree, ref)),
                     ('unrolled', lambda: unroll_loops(tree, ref)), ('builtlists', lambda: scalarise_built_lists(tree, ref, ref_locals)),
                     ('comprehensions', lambda: expand_comprehensions(tree, ref) + collapse_append_loops(tree, ref)), ('ifexps2', lambda: expand_ifexps(tree, ref)),
                     ('ranges', lambda: split_live_ranges(tree, ref_locals or {})), ('temps', lambda: inline_temps(tree, path, ref_locals or {})), ('loopguards', lambda: loop_guards_to_test(tree, ref)),
                     ('decided2', lambda: _settle(tree, ref, path, ref_locals or {})), ('tails', lambda: merge_common_tails(tree, ref, ref_locals) + drop_trivia(tree, ref))):
        try:
            k = fn()
        except RecursionError:
            k = 0
        if k:
            out[name] = k
            ast.fix_missing_locations(tree)
    return out
