"""cfsa - static analysis engine for the crazyflie-lib-python verification tasks.

Pure standard library.  Nothing in here imports or executes ``cflib``; all
verdicts come from syntax trees, control-flow graphs and small abstract
domains computed from the sources under ``$VERIF_REPO`` (default ``/repo``).
"""
