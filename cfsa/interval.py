"""Integer interval domain with monotonicity for expressions in one input.

``evaluate(node, scope, inputs)`` -> (lo, hi, mono) where ``inputs`` maps an
expression text to its (lo, hi) range and ``mono`` says the value is a
non-decreasing function of that (single) input.  Only + * >> << & int()
with non-negative operands are understood; anything else gives None.
"""
import ast

from .cfg import norm
from .consteval import UNKNOWN, fold


def evaluate(node, scope, inputs):
    t = norm(node)
    if t in inputs:
        lo, hi = inputs[t]
        return (lo, hi, True)
    v = fold(node, scope) if scope is not None else UNKNOWN
    if v is not UNKNOWN and isinstance(v, int) and not isinstance(v, bool):
        return (v, v, True)
    if isinstance(node, ast.Call) and norm(node.func) in ('int', '(int)') and len(node.args) == 1:
        return evaluate(node.args[0], scope, inputs)
    if isinstance(node, ast.BinOp):
        a = evaluate(node.left, scope, inputs)
        b = evaluate(node.right, scope, inputs)
        if a is None or b is None or a[0] < 0 or b[0] < 0:
            return None
        if isinstance(node.op, ast.Add):
            return (a[0] + b[0], a[1] + b[1], a[2] and b[2])
        if isinstance(node.op, ast.Mult):
            return (a[0] * b[0], a[1] * b[1], a[2] and b[2])
        if isinstance(node.op, ast.RShift) and b[0] == b[1]:
            return (a[0] >> b[0], a[1] >> b[0], a[2])
        if isinstance(node.op, ast.LShift) and b[0] == b[1]:
            return (a[0] << b[0], a[1] << b[0], a[2])
        if isinstance(node.op, ast.BitAnd) and b[0] == b[1]:
            m = b[0]
            if m & (m + 1) == 0 and a[1] <= m:      # low-bits mask that cannot cut anything off: identity
                return a
            return (0, min(a[1], m), False)
    return None
