"""Statement-level control-flow graphs with labelled edges, dominators on
nodes *and* edges, guard facts and path queries.

Two flavours are built from the same code:

* ``exceptional=False`` - normal control flow.  Explicit ``raise`` leaves to the
  enclosing handlers / the exceptional exit; *inside* a ``try`` body implicit
  exceptions (statements containing a call, subscript or non-self attribute
  load) are modelled as well, so that handlers are live code.
* ``exceptional=True`` - additionally every statement that may raise
  implicitly gets an edge to the innermost handler / the exceptional exit.

``try/finally`` and ``with`` are modelled by one copy of the clean-up per way
of leaving (fall-through, return, break, continue, exception).
"""
import ast


def norm(node):
    return ast.unparse(node) if isinstance(node, ast.AST) else str(node)


# --------------------------------------------------------------------------
# facts
# --------------------------------------------------------------------------

class Fact:
    """A comparison/test known to have a polarity.  ``text`` is a canonical
    rendering: ``a == b`` (operands sorted), ``a < b`` (all orderings are
    rewritten to strict-less-than with a polarity), ``a is b``, ``a in b`` or
    the plain expression text."""

    __slots__ = ('text', 'pol', 'node', 'op', 'left', 'right')

    def __init__(self, text, pol, node, op=None, left=None, right=None):
        self.text, self.pol, self.node = text, pol, node
        self.op, self.left, self.right = op, left, right

    def key(self):
        return (self.text, self.pol)

    def __repr__(self):
        return ('' if self.pol else 'not ') + '(' + self.text + ')'


def _desugar_in(test):
    """`x in (a, b)` / `x not in [a, b]` over a display of constants, names or dotted names -> `x == a or x == b` (negated for
    `not in`): one canonical spelling of a membership test in a fixed set"""
    if isinstance(test, ast.Call) and isinstance(test.func, ast.Name) and test.func.id == 'bool' and len(test.args) == 1 and not test.keywords:
        return _desugar_in(test.args[0])                   # the truth of bool(x) is the truth of x
    if isinstance(test, ast.Compare) and len(test.ops) == 1 and isinstance(test.ops[0], (ast.In, ast.NotIn)):
        c = test.comparators[0]
        if isinstance(c, (ast.Tuple, ast.List, ast.Set)) and c.elts and all(isinstance(e, (ast.Constant, ast.Name, ast.Attribute)) for e in c.elts):
            eqs = [ast.copy_location(ast.Compare(left=test.left, ops=[ast.Eq()], comparators=[e]), test) for e in c.elts]
            out = eqs[0] if len(eqs) == 1 else ast.copy_location(ast.BoolOp(op=ast.Or(), values=eqs), test)
            if isinstance(test.ops[0], ast.NotIn):
                out = ast.copy_location(ast.UnaryOp(op=ast.Not(), operand=out), test)
            return out
    return test


def _atom(test, pol):
    test = _desugar_in(test)
    if isinstance(test, ast.UnaryOp) and isinstance(test.op, ast.Not):
        return _atom(test.operand, not pol)
    if isinstance(test, ast.BoolOp):
        # order-insensitive rendering over canonical sub-atoms; a disjunction is written as the negated conjunction of the negated
        # parts (de Morgan), so `a or b`, `not (not a and not b)` and their operand orders share one key
        is_or = isinstance(test.op, ast.Or)
        parts = []
        for v in test.values:
            fs = implied(v, not is_or)
            if len(fs) == 1:
                parts.append(('' if fs[0].pol else 'not ') + fs[0].text)
            else:
                parts.append('(' + ' and '.join(sorted(('' if f.pol else 'not ') + f.text for f in fs)) + ')')
        return Fact(' and '.join(sorted(parts)), (not pol) if is_or else pol, test)
    if isinstance(test, ast.Compare) and len(test.ops) == 1:
        op = test.ops[0]
        a, b = test.left, test.comparators[0]
        if isinstance(op, ast.NotEq):
            op, pol = ast.Eq(), not pol
        elif isinstance(op, ast.IsNot):
            op, pol = ast.Is(), not pol
        elif isinstance(op, ast.NotIn):
            op, pol = ast.In(), not pol
        elif isinstance(op, ast.GtE):          # a >= b  ==  not (a < b)
            op, pol = ast.Lt(), not pol
        elif isinstance(op, ast.LtE):          # a <= b  ==  not (b < a)
            op, pol, a, b = ast.Lt(), not pol, b, a
        elif isinstance(op, ast.Gt):           # a > b   ==  b < a
            op, a, b = ast.Lt(), b, a
        # sizes are integers: every comparison of len(X) with an integer constant is written  k < len(X)
        def _is_len(x):
            return isinstance(x, ast.Call) and isinstance(x.func, ast.Name) and x.func.id == 'len' and len(x.args) == 1

        def _int(x):
            return isinstance(x, ast.Constant) and isinstance(x.value, int) and not isinstance(x.value, bool)
        if isinstance(op, ast.Lt) and _is_len(a) and _int(b):              # len(X) < c   ==  not (c-1 < len(X))
            return Fact('%d < %s' % (b.value - 1, norm(a)), not pol, test, '<', ast.Constant(value=b.value - 1), a)
        if isinstance(op, ast.Eq) and ((_is_len(a) and _int(b) and b.value == 0) or (_is_len(b) and _int(a) and a.value == 0)):
            ln = a if _is_len(a) else b                                     # len(X) == 0  ==  not (0 < len(X))
            return Fact('0 < %s' % norm(ln), not pol, test, '<', ast.Constant(value=0), ln)
        if isinstance(op, (ast.Eq, ast.Is)):
            ta, tb = norm(a), norm(b)
            if tb < ta:
                a, b, ta, tb = b, a, tb, ta
            sym = '==' if isinstance(op, ast.Eq) else 'is'
            return Fact('%s %s %s' % (ta, sym, tb), pol, test, sym, a, b)
        if isinstance(op, ast.Lt):
            return Fact('%s < %s' % (norm(a), norm(b)), pol, test, '<', a, b)
        if isinstance(op, ast.In):
            return Fact('%s in %s' % (norm(a), norm(b)), pol, test, 'in', a, b)
    return Fact(norm(test), pol, test)


def implied(test, pol):
    """Facts implied by ``test`` evaluating to ``pol``."""
    out = []
    test = _desugar_in(test)
    if isinstance(test, ast.Compare) and len(test.ops) > 1 and all(isinstance(x, (ast.Name, ast.Constant, ast.Attribute)) or
                                                                    (isinstance(x, ast.UnaryOp) and isinstance(x.operand, ast.Constant)) for x in test.comparators[:-1]):
        # a < b < c with plain middle operands (evaluated once either way) is `a < b and b < c`
        ops = [test.left] + list(test.comparators)
        parts = [ast.copy_location(ast.Compare(left=ops[i], ops=[test.ops[i]], comparators=[ops[i + 1]]), test) for i in range(len(test.ops))]
        return implied(ast.copy_location(ast.BoolOp(op=ast.And(), values=parts), test), pol)
    if isinstance(test, ast.UnaryOp) and isinstance(test.op, ast.Not):
        return implied(test.operand, not pol)
    if isinstance(test, ast.BoolOp):
        if isinstance(test.op, ast.And) and pol:
            for v in test.values:
                out.extend(implied(v, True))
            return out
        if isinstance(test.op, ast.Or) and not pol:
            for v in test.values:
                out.extend(implied(v, False))
            return out
        return [_atom(test, pol)]
    return [_atom(test, pol)]


def canon_test(node):
    """Canonical text of a boolean expression (comparison operands ordered, and/or sorted)."""
    fs = implied(node, True)
    if len(fs) == 1:
        return ('' if fs[0].pol else 'not ') + fs[0].text
    return ' and '.join(sorted(('' if f.pol else 'not ') + f.text for f in fs))


def nonempty_keys(text, pol=True):
    """Keys under which code may test that the sized container ``text`` is non-empty (pol True) / empty (pol False): a length comparison or plain truthiness."""
    return {('0 < len(%s)' % text, pol), (text, pol)}


def fact_key(expr_text, pol=True):
    """Canonical key of a test written as text, e.g. ``fact_key('x != y')``."""
    t = ast.parse(expr_text, mode='eval').body
    fs = implied(t, pol)
    if len(fs) != 1:
        raise ValueError('not an atomic fact: ' + expr_text)
    return fs[0].key()


# --------------------------------------------------------------------------
# graph
# --------------------------------------------------------------------------

class Node:
    __slots__ = ('id', 'kind', 'ast', 'tag', 'succ', 'pred')

    def __init__(self, id_, kind, ast_=None, tag=''):
        self.id, self.kind, self.ast, self.tag = id_, kind, ast_, tag
        self.succ = []     # list of Edge
        self.pred = []

    @property
    def line(self):
        return getattr(self.ast, 'lineno', 0)

    def text(self):
        if self.ast is None:
            return self.kind
        if self.kind in ('if', 'while'):
            return '%s %s' % (self.kind, norm(self.ast.test))
        if self.kind == 'for':
            return 'for %s in %s' % (norm(self.ast.target), norm(self.ast.iter))
        if self.kind == 'with_enter':
            return 'with ' + ', '.join(norm(i) for i in self.ast.items)
        if self.kind == 'with_exit':
            return 'end-with ' + ', '.join(norm(i.context_expr) for i in self.ast.items)
        if self.kind == 'dispatch':
            return 'except-dispatch'
        if self.kind == 'handler':
            return 'except ' + (norm(self.ast.type) if self.ast.type else '')
        s = norm(self.ast)
        return s.split('\n')[0]

    def __repr__(self):
        return '<%d %s L%d %s>' % (self.id, self.kind, self.line, self.text()[:50])


class Edge:
    __slots__ = ('src', 'dst', 'label', 'id')

    def __init__(self, src, dst, label, id_):
        self.src, self.dst, self.label, self.id = src, dst, label, id_

    def facts(self):
        if self.label and self.label[0] == 'cond':
            return implied(self.label[1], self.label[2])
        return []

    def __repr__(self):
        return '<E %d->%d %s>' % (self.src.id, self.dst.id,
                                  (self.label[0], norm(self.label[1])[:30], self.label[2]) if self.label and self.label[0] == 'cond'
                                  else self.label)


class _Ctx:
    __slots__ = ('brk', 'cont', 'ret', 'exc', 'in_try')

    def __init__(self, brk, cont, ret, exc, in_try):
        self.brk, self.cont, self.ret, self.exc, self.in_try = brk, cont, ret, exc, in_try

    def but(self, **kw):
        c = _Ctx(self.brk, self.cont, self.ret, self.exc, self.in_try)
        for k, v in kw.items():
            setattr(c, k, v)
        return c


def _own_exprs(stmt):
    """Expression roots evaluated by the statement itself (not nested bodies)."""
    if isinstance(stmt, (ast.If, ast.While)):
        return [stmt.test]
    if isinstance(stmt, ast.For):
        return [stmt.iter, stmt.target]
    if isinstance(stmt, ast.With):
        out = []
        for i in stmt.items:
            out.append(i.context_expr)
            if i.optional_vars is not None:
                out.append(i.optional_vars)
        return out
    if isinstance(stmt, (ast.FunctionDef, ast.ClassDef, ast.AsyncFunctionDef)):
        return list(getattr(stmt, 'decorator_list', []))
    if isinstance(stmt, ast.Try):
        return []
    if isinstance(stmt, ast.ExceptHandler):
        return [stmt.type] if stmt.type else []
    return [stmt]


_PURE_BUILTINS = {'len', 'int', 'float', 'bool', 'abs', 'min', 'max', 'str', 'tuple', 'bytes', 'ord', 'chr', 'round', 'isinstance'}


def _pure_value(e):
    """an explaining variable: no call other than a pure builtin, nothing deferred"""
    for x in ast.walk(e):
        if isinstance(x, ast.Call) and not (isinstance(x.func, ast.Name) and x.func.id in _PURE_BUILTINS):
            return False
        if isinstance(x, (ast.Await, ast.Yield, ast.YieldFrom, ast.Lambda, ast.NamedExpr, ast.ListComp, ast.GeneratorExp, ast.DictComp, ast.SetComp)):
            return False
    return True


def walk_own(root):
    """ast.walk that does not descend into lambdas / nested defs / comprehensions'
    deferred bodies are still walked (they run in place)."""
    todo = [root]
    while todo:
        n = todo.pop()
        yield n
        kids = [c for c in ast.iter_child_nodes(n)
                if not isinstance(c, (ast.Lambda, ast.FunctionDef, ast.AsyncFunctionDef, ast.ClassDef))]
        todo.extend(reversed(kids))      # pre-order, source order


def default_may_raise(stmt_or_expr):
    """Over-approximate: contains a call, a subscript load, a division, or an
    attribute load on something other than ``self``."""
    for root in _own_exprs(stmt_or_expr) if isinstance(stmt_or_expr, ast.stmt) else [stmt_or_expr]:
        for n in walk_own(root):
            if isinstance(n, ast.Call):
                return True
            if isinstance(n, ast.Subscript) and isinstance(n.ctx, (ast.Load, ast.Del)):
                return True
            if isinstance(n, ast.BinOp) and isinstance(n.op, (ast.Div, ast.FloorDiv, ast.Mod)):
                return True
            if isinstance(n, ast.Attribute) and isinstance(n.ctx, ast.Load) and \
                    not (isinstance(n.value, ast.Name) and n.value.id in ('self', 'cls')):
                # attribute on an arbitrary object may raise AttributeError
                # (only counted when nested: x.y.z) - keep precise: skip
                continue
            if isinstance(n, (ast.Assert, ast.Raise)):
                return True
    return False


def _catch_all(handler):
    if handler.type is None:
        return True
    names = []
    t = handler.type
    for e in (t.elts if isinstance(t, ast.Tuple) else [t]):
        names.append(norm(e))
    return any(n in ('Exception', 'BaseException') for n in names)


class CFG:
    def __init__(self, func_node, exceptional=False, may_raise=None):
        self.func = func_node
        self.exceptional = exceptional
        self.may_raise = may_raise or default_may_raise
        self.nodes = []
        self.edges = []
        self.entry = self._new('entry')
        self.exit = self._new('exit')
        self.raise_exit = self._new('raise_exit')
        ctx = _Ctx(None, None, self.exit, self.raise_exit, False)
        body = func_node.body if not isinstance(func_node, ast.Lambda) else [ast.Return(value=func_node.body)]
        first = self._block(body, self.exit, ctx)
        self._edge(self.entry, first, None)
        self._prune()
        self._by_ast = {}
        for n in self.nodes:
            if n.ast is not None:
                self._by_ast.setdefault(id(n.ast), []).append(n)
        self._sub = None
        self._dom = None
        self._pdom = None

    # -- construction -------------------------------------------------------
    def _new(self, kind, ast_=None, tag=''):
        n = Node(len(self.nodes), kind, ast_, tag)
        self.nodes.append(n)
        return n

    def _edge(self, a, b, label):
        for e in a.succ:
            if e.dst is b and e.label == label:
                return e
        e = Edge(a, b, label, len(self.edges))
        self.edges.append(e)
        a.succ.append(e)
        b.pred.append(e)
        return e

    def _implicit(self, node, stmt, ctx):
        if (self.exceptional or ctx.in_try) and self.may_raise(stmt):
            self._edge(node, ctx.exc, ('raise',))

    def _block(self, stmts, nxt, ctx, tag=''):
        for st in reversed(stmts):
            if isinstance(st, ast.Expr) and isinstance(st.value, ast.Constant):
                continue        # docstrings / bare literals
            nxt = self._stmt(st, nxt, ctx, tag)
        return nxt

    def _stmt(self, st, nxt, ctx, tag):
        if isinstance(st, ast.If):
            n = self._new('if', st, tag)
            t = self._block(st.body, nxt, ctx, tag)
            f = self._block(st.orelse, nxt, ctx, tag)
            self._edge(n, t, ('cond', st.test, True))
            self._edge(n, f, ('cond', st.test, False))
            self._implicit(n, st, ctx)
            return n
        if isinstance(st, ast.While):
            n = self._new('while', st, tag)
            after = self._block(st.orelse, nxt, ctx, tag) if st.orelse else nxt
            body = self._block(st.body, n, ctx.but(brk=nxt, cont=n), tag)
            const_true = isinstance(st.test, ast.Constant) and bool(st.test.value)
            self._edge(n, body, ('cond', st.test, True))
            if not const_true:
                self._edge(n, after, ('cond', st.test, False))
            self._implicit(n, st, ctx)
            return n
        if isinstance(st, ast.For):
            n = self._new('for', st, tag)
            after = self._block(st.orelse, nxt, ctx, tag) if st.orelse else nxt
            body = self._block(st.body, n, ctx.but(brk=nxt, cont=n), tag)
            self._edge(n, body, ('iter', st, True))
            self._edge(n, after, ('iter', st, False))
            self._implicit(n, st, ctx)
            return n
        if isinstance(st, ast.Try):
            return self._try(st, nxt, ctx, tag)
        if isinstance(st, ast.With):
            return self._with(st, nxt, ctx, tag)
        if isinstance(st, ast.Return):
            n = self._new('return', st, tag)
            self._edge(n, ctx.ret, None)
            self._implicit(n, st, ctx)
            return n
        if isinstance(st, ast.Raise):
            n = self._new('raise', st, tag)
            self._edge(n, ctx.exc, ('raise',))
            return n
        if isinstance(st, ast.Break):
            n = self._new('break', st, tag)
            self._edge(n, ctx.brk if ctx.brk is not None else nxt, None)
            return n
        if isinstance(st, ast.Continue):
            n = self._new('continue', st, tag)
            self._edge(n, ctx.cont if ctx.cont is not None else nxt, None)
            return n
        n = self._new('stmt', st, tag)
        self._edge(n, nxt, None)
        self._implicit(n, st, ctx)
        return n

    def _cleanup_ctx(self, mk, nxt, ctx):
        """Build one clean-up copy per way of leaving; return (normal_entry, inner ctx)."""
        fin_n = mk(nxt, 'fin:normal')
        fin_r = mk(ctx.ret, 'fin:return')
        fin_e = mk(ctx.exc, 'fin:exc')
        fin_b = mk(ctx.brk, 'fin:break') if ctx.brk is not None else None
        fin_c = mk(ctx.cont, 'fin:continue') if ctx.cont is not None else None
        return fin_n, ctx.but(ret=fin_r, exc=fin_e, brk=fin_b, cont=fin_c)

    def _try(self, st, nxt, ctx, tag):
        if st.finalbody:
            def mk(target, t):
                return self._block(st.finalbody, target, ctx, (tag + '|' + t).strip('|'))
            nxt, ctx = self._cleanup_ctx(mk, nxt, ctx)
        after_body = self._block(st.orelse, nxt, ctx, tag) if st.orelse else nxt
        if st.handlers:
            disp = self._new('dispatch', st, tag)
            caught_all = False
            for h in st.handlers:
                hn = self._new('handler', h, tag)
                hb = self._block(h.body, nxt, ctx, tag)
                self._edge(hn, hb, None)
                self._edge(disp, hn, ('exc', h))
                if _catch_all(h):
                    caught_all = True
                    break
            if not caught_all:
                self._edge(disp, ctx.exc, ('exc', None))
            body_ctx = ctx.but(exc=disp, in_try=True)
        else:
            body_ctx = ctx.but(in_try=ctx.in_try)
        return self._block(st.body, after_body, body_ctx, tag)

    def _with(self, st, nxt, ctx, tag):
        def mk(target, t):
            n = self._new('with_exit', st, (tag + '|' + t).strip('|'))
            self._edge(n, target, None)
            return n
        fin_n, inner = self._cleanup_ctx(mk, nxt, ctx)
        enter = self._new('with_enter', st, tag)
        body = self._block(st.body, fin_n, inner, tag)
        self._edge(enter, body, None)
        self._implicit(enter, st, ctx)
        return enter

    def _prune(self):
        seen = set()
        todo = [self.entry]
        while todo:
            n = todo.pop()
            if n.id in seen:
                continue
            seen.add(n.id)
            todo.extend(e.dst for e in n.succ)
        keep = [n for n in self.nodes if n.id in seen or n in (self.exit, self.raise_exit)]
        self.edges = [e for e in self.edges if e.src.id in seen]
        for n in keep:
            n.succ = [e for e in n.succ if e.src.id in seen]
            n.pred = [e for e in n.pred if e.src.id in seen]
        self.nodes = keep
        for i, n in enumerate(self.nodes):
            n.id = i
        for i, e in enumerate(self.edges):
            e.id = i

    # -- lookup -------------------------------------------------------------
    def nodes_of(self, stmt):
        return self._by_ast.get(id(stmt), [])

    def _submap(self):
        if self._sub is None:
            self._sub = {}
            for n in self.nodes:
                if n.ast is None or n.kind in ('with_exit', 'dispatch'):
                    continue
                for root in _own_exprs(n.ast):
                    for x in walk_own(root):
                        self._sub.setdefault(id(x), []).append(n)
        return self._sub

    def nodes_containing(self, sub):
        """CFG nodes whose own expressions contain AST node ``sub``."""
        return self._submap().get(id(sub), [])

    def find(self, pred):
        """All (cfg node, ast sub-node) where pred(sub-node) holds, in source order."""
        out = []
        for n in self.nodes:
            if n.ast is None or n.kind in ('with_exit', 'dispatch'):
                continue
            for root in _own_exprs(n.ast):
                for x in walk_own(root):
                    if pred(x):
                        out.append((n, x))
        out.sort(key=lambda p: (getattr(p[1], 'lineno', 0), getattr(p[1], 'col_offset', 0), p[0].id))
        return out

    # -- dominators over nodes and edges ------------------------------------
    def _expanded(self, reverse=False):
        """Graph whose vertices are nodes ('n', id) and edges ('e', id)."""
        succ = {}
        for n in self.nodes:
            succ[('n', n.id)] = []
        for e in self.edges:
            succ[('e', e.id)] = [('n', e.dst.id)]
            succ[('n', e.src.id)].append(('e', e.id))
        if not reverse:
            return succ
        rev = {k: [] for k in succ}
        for k, vs in succ.items():
            for v in vs:
                rev[v].append(k)
        return rev

    @staticmethod
    def _dominators(succ, roots):
        pred = {k: [] for k in succ}
        for k, vs in succ.items():
            for v in vs:
                pred[v].append(k)
        # reachable set
        reach = set()
        todo = list(roots)
        while todo:
            k = todo.pop()
            if k in reach:
                continue
            reach.add(k)
            todo.extend(succ[k])
        order = sorted(reach, key=lambda k: (k[0] != 'n', k[1]))
        dom = {k: None for k in reach}
        for r in roots:
            dom[r] = {r}
        changed = True
        while changed:
            changed = False
            for k in order:
                if k in roots:
                    continue
                ps = [dom[p] for p in pred[k] if p in reach and dom[p] is not None]
                if not ps:
                    continue
                new = set.intersection(*ps) | {k}
                if dom[k] != new:
                    dom[k] = new
                    changed = True
        return dom

    def dom(self):
        if self._dom is None:
            self._dom = self._dominators(self._expanded(), [('n', self.entry.id)])
        return self._dom

    def pdom(self, include_raise=False):
        """Post-dominators w.r.t. normal exit (and the exceptional exit when asked)."""
        key = bool(include_raise)
        if self._pdom is None:
            self._pdom = {}
        if key not in self._pdom:
            rev = self._expanded(reverse=True)
            if include_raise:
                rev[('x', 0)] = [('n', self.exit.id), ('n', self.raise_exit.id)]
                roots = [('x', 0)]
            else:
                roots = [('n', self.exit.id)]
            self._pdom[key] = self._dominators(rev, roots)
        return self._pdom[key]

    def dominates(self, a, b):
        d = self.dom().get(('n', b.id))
        return d is not None and ('n', a.id) in d

    def dominating_edges(self, n):
        d = self.dom().get(('n', n.id)) or set()
        return [self.edges[i] for (k, i) in d if k == 'e']

    def facts_at(self, n, _depth=0):
        """Facts implied by the branch edges that dominate node ``n``.  A fact on a boolean *flag* - a local whose reaching
        definitions are all the constants True/False, exactly one of them the tested value - also yields the facts that hold where
        that value was assigned (`found = False; for ..: if c: found = True; break` ... `if found:` carries c)."""
        out = []
        for e in self.dominating_edges(n):
            out.extend(self._expanded_edge_facts(e))
            for f in e.facts():
                out.append(f)
                if _depth < 2:
                    sn = self._sentinel(e.src, f)
                    if sn is not None and len(sn) == 1:
                        out.extend(self.facts_at(sn[0], _depth + 1))
                    # `x == <literal>` holds, and x was bound either to other literals or - in one place - to an expression E: that
                    # binding ran, and E == <literal>
                    if f.op == '==' and f.pol and f.left is not None and f.right is not None:
                        nm_, lit_ = (f.left, f.right) if isinstance(f.left, ast.Name) and isinstance(f.right, ast.Constant) else \
                            (f.right, f.left) if isinstance(f.right, ast.Name) and isinstance(f.left, ast.Constant) else (None, None)
                        if nm_ is not None:
                            defs_ = self.reaching_defs(e.src, nm_.id)
                            vals_ = [(d_, self.def_value(d_, nm_.id) if d_.ast is not None else None) for d_ in defs_]
                            if len(vals_) >= 2 and all(v_ is not None for _, v_ in vals_):
                                consts_ = [(d_, v_) for d_, v_ in vals_ if isinstance(v_, ast.Constant)]
                                exprs_ = [(d_, v_) for d_, v_ in vals_ if not isinstance(v_, ast.Constant)]
                                try:
                                    differ = all(type(v_.value) is type(lit_.value) and v_.value != lit_.value for _, v_ in consts_)
                                except Exception:
                                    differ = False
                                if len(exprs_) == 1 and consts_ and differ and _pure_value(exprs_[0][1]):
                                    d0, v0 = exprs_[0]
                                    reads0 = {x.id for x in ast.walk(v0) if isinstance(x, ast.Name)}
                                    if all({d.id for d in self.reaching_defs(d0, r_)} == {d.id for d in self.reaching_defs(e.src, r_)} for r_ in reads0):
                                        out.extend(self.facts_at(d0, _depth + 1))
                                        eq_ = ast.copy_location(ast.Compare(left=v0, ops=[ast.Eq()], comparators=[lit_]), lit_)
                                        ast.fix_missing_locations(eq_)
                                        out.extend(implied(eq_, True))
                if _depth < 2 and isinstance(f.node, ast.Name) and f.op is None and f.text == f.node.id:
                    src = e.src
                    defs = self.reaching_defs(src, f.node.id)
                    if defs and all(isinstance(d.ast, ast.Assign) and isinstance(d.ast.value, ast.Constant) and isinstance(d.ast.value.value, bool) for d in defs):
                        same = [d for d in defs if d.ast.value.value is f.pol]
                        if len(same) == 1:
                            out.extend(self.facts_at(same[0], _depth + 1))
                    elif len(defs) == 1 and isinstance(defs[0].ast, ast.Assign) and len(defs[0].ast.targets) == 1 and \
                            isinstance(defs[0].ast.value, (ast.Compare, ast.BoolOp)) or \
                            (len(defs) == 1 and isinstance(defs[0].ast, ast.Assign) and isinstance(defs[0].ast.value, ast.UnaryOp) and isinstance(defs[0].ast.value.op, ast.Not)):
                        # an explaining boolean `ok = a == b and c`: the test of `ok` carries the facts of its definition, provided the
                        # operands still have the values they had there
                        v = defs[0].ast.value
                        names = {x.id for x in ast.walk(v) if isinstance(x, ast.Name)}
                        if not any(isinstance(x, ast.Call) for x in ast.walk(v) if not (isinstance(x, ast.Call) and isinstance(x.func, ast.Name) and x.func.id in ('len', 'isinstance', 'tuple', 'int'))) and \
                                all({d.id for d in self.reaching_defs(defs[0], nm)} == {d.id for d in self.reaching_defs(src, nm)} for nm in names):
                            out.extend(implied(v, f.pol))
        return out

    def _sentinel(self, src, f):
        """`x is None` / `x is not None` on a local whose reaching definitions are all either None or something that certainly is not
        None (a display, a literal, a constructor call): the definitions of the tested kind - the test merely repeats which of them
        ran.  None when the fact is not of that kind."""
        if f.op != 'is' or f.left is None or f.right is None:
            return None
        a, b = f.left, f.right
        if isinstance(a, ast.Constant) and a.value is None and isinstance(b, ast.Name):
            nm = b.id
        elif isinstance(b, ast.Constant) and b.value is None and isinstance(a, ast.Name):
            nm = a.id
        else:
            return None
        defs = self.reaching_defs(src, nm)
        if not defs:
            return None
        kinds = []
        for d in defs:
            v = self.def_value(d, nm) if d.ast is not None else None
            if v is None:
                return None
            if isinstance(v, ast.Constant) and v.value is None:
                kinds.append((d, True))
            elif isinstance(v, (ast.Tuple, ast.List, ast.Dict, ast.Set, ast.JoinedStr, ast.ListComp, ast.DictComp, ast.SetComp)) or \
                    (isinstance(v, ast.Constant) and v.value is not None) or \
                    (isinstance(v, ast.Call) and (norm(v.func).split('.')[-1][:1].isupper() or norm(v.func) in ('list', 'dict', 'tuple', 'bytearray', 'bytes', 'set', 'str', 'int', 'float', 'bool'))):
                kinds.append((d, False))
            else:
                return None
        return [d for d, is_none in kinds if is_none == f.pol]

    def sentinel_keys_at(self, n):
        """keys of the dominating facts that are None-sentinel tests fully explained by the definitions of the local"""
        out = set()
        for e in self.dominating_edges(n):
            for f in e.facts():
                if self._sentinel(e.src, f) is not None:
                    out.add(f.key())
        return out

    def _expanded_edge_facts(self, e):
        """facts of a branch edge with explaining variables read through: `m = d[0:len(p)]; if p == m:` also carries
        `p == d[0:len(p)]`.  Only definitions that are pure and whose operands still have the value they had at the definition."""
        cache = self.__dict__.setdefault('_xfacts', {})
        if e.id not in cache:
            res = []
            if e.label and e.label[0] == 'cond' and any(isinstance(x, ast.Name) for x in ast.walk(e.label[1])):
                import itertools
                names = sorted({x.id for x in ast.walk(e.label[1]) if isinstance(x, ast.Name)})
                seen = {norm(e.label[1])}
                cands = []
                try:
                    expandable = [nm for nm in names if norm(self.expand_locals(e.src, ast.Name(id=nm, ctx=ast.Load()), depth=1, stable=True)) != nm][:3]
                    for k in range(1, len(expandable) + 1):
                        for sub in itertools.combinations(expandable, k):
                            cands.append(self.expand_locals(e.src, e.label[1], depth=1, stable=True, only=set(sub)))
                    cands.append(self.expand_locals(e.src, e.label[1], stable=True))
                except RecursionError:
                    cands = []
                for ex in cands:
                    if norm(ex) not in seen:
                        seen.add(norm(ex))
                        res.extend(implied(ex, e.label[2]))
            cache[e.id] = res
        return cache[e.id]

    def fact_keys_at(self, n):
        """keys of the facts that hold whenever ``n`` runs: those of the dominating branch edges (with flags and explaining variables
        read through) and those that hold on every path into ``n`` without one dominating test (the same guard written out in both
        arms of an earlier if - forward must-dataflow, dataflow.must_facts)"""
        out = {f.key() for f in self.facts_at(n)}
        mf = self.__dict__.get('_must')
        if mf is None:
            from .dataflow import must_facts
            try:
                mf = must_facts(self, stmt_gens=False)
            except RecursionError:
                mf = {}
            self.__dict__['_must'] = mf
        return out | set(mf.get(n.id, ()))

    def facts_at_expr(self, n, sub):
        """Facts holding when sub-expression ``sub`` of node ``n`` is evaluated: the
        dominating branch facts plus, inside an ``a and b`` test, the conjuncts left of it."""
        out = list(self.facts_at(n))
        roots = _own_exprs(n.ast) if n.ast is not None else []
        for root in roots:
            for b in walk_own(root):
                if isinstance(b, ast.BoolOp):
                    for i, v in enumerate(b.values):
                        if any(x is sub for x in walk_own(v)):
                            for w in b.values[:i]:
                                out.extend(implied(w, isinstance(b.op, ast.And)))
        return out

    def guarded(self, n, expr_text, pol=True):
        return fact_key(expr_text, pol) in self.fact_keys_at(n)

    def reachable(self, n):
        return self.dom().get(('n', n.id)) is not None

    # -- path queries -------------------------------------------------------
    def path_avoiding(self, src, targets, avoid=(), avoid_edges=(), through_start=True):
        """A path (list of nodes) from ``src`` to any node in ``targets`` that
        does not *enter* a node in ``avoid`` nor traverse an edge in
        ``avoid_edges``; None if there is none.  ``src`` itself is not tested
        against ``avoid``; the search starts with src's successors, so src in
        targets means a cycle back to it."""
        targets = {t.id for t in targets}
        avoid = {a.id for a in avoid}
        avoid_edges = {e.id for e in avoid_edges}
        prev = {}
        todo = []

        def push(frm, e):
            if e.id in avoid_edges or e.dst.id in prev:
                return
            if e.dst.id in avoid and e.dst.id not in targets:
                return
            prev[e.dst.id] = frm
            todo.append(e.dst)
        for e in src.succ:
            push(None, e)
        while todo:
            n = todo.pop(0)
            if n.id in targets:
                path = [n]
                cur = prev[n.id]
                while cur is not None:
                    path.append(cur)
                    cur = prev[cur.id]
                path.append(src)
                return list(reversed(path))
            if n.id in avoid:
                continue
            for e in n.succ:
                push(n, e)
        return None

    def reaching_defs(self, node, name):
        """Nodes that bind ``name`` (assignment, also as an element of a tuple target; augmented; loop target) and whose value can
        reach ``node`` without being overwritten.  The entry node is included when ``name`` can reach ``node`` from the function entry
        without any of them (a parameter, or unbound)."""
        def binds(n):
            if n.kind == 'stmt' and isinstance(n.ast, (ast.Assign, ast.AugAssign, ast.AnnAssign)):
                for t in (n.ast.targets if isinstance(n.ast, ast.Assign) else [n.ast.target]):
                    if norm(t) == name or (isinstance(t, (ast.Tuple, ast.List)) and any(norm(e) == name for e in ast.walk(t) if isinstance(e, (ast.Name, ast.Attribute)) and isinstance(e.ctx, ast.Store))):
                        return True
            if n.kind == 'for' and any(isinstance(e, ast.Name) and e.id == name and isinstance(e.ctx, ast.Store) for e in ast.walk(n.ast.target)):
                return True
            return False
        defs = [n for n in self.nodes if binds(n)]
        out = []
        for d in defs:
            if d is node:
                continue
            others = [x for x in defs if x is not d]
            if self.path_avoiding(d, [node], avoid=others) is not None:
                out.append(d)
        if defs and '.' not in name and self.entry is not node and self.path_avoiding(self.entry, [node], avoid=defs) is not None:
            out.append(self.entry)
        return out

    @staticmethod
    def def_value(d, name):
        """the expression bound to ``name`` by the definition node ``d`` (element-wise through `a, b = x, y`), else None"""
        if d.ast is None or not isinstance(d.ast, ast.Assign) or len(d.ast.targets) != 1:
            return None
        t, v = d.ast.targets[0], d.ast.value
        if norm(t) == name:
            return v
        if isinstance(t, (ast.Tuple, ast.List)) and isinstance(v, (ast.Tuple, ast.List)) and len(t.elts) == len(v.elts) and \
                not any(isinstance(e, ast.Starred) for e in list(t.elts) + list(v.elts)):
            for te, ve in zip(t.elts, v.elts):
                if norm(te) == name:
                    return ve
        return None

    def resolve_local(self, node, expr):
        """``expr`` if it is not a plain name; otherwise the value of its single reaching plain assignment at ``node`` (one level), else ``expr``."""
        if isinstance(expr, ast.Name):
            ds = self.reaching_defs(node, expr.id)
            if len(ds) == 1 and self.def_value(ds[0], expr.id) is not None:
                return self.def_value(ds[0], expr.id)
        return expr

    def expand_locals(self, node, expr, depth=4, stable=False, only=None, pure_only=True, keep=()):
        """copy of ``expr`` in which every local name with a single reaching plain assignment at ``node`` is replaced by the assigned
        expression (recursively): the expression as the code wrote it before explaining variables were introduced.  The value is the
        one at the definition; callers that care about state changed in between must check that themselves."""
        import copy as _copy
        g = self

        def at(n_, e, d):
            class T(ast.NodeTransformer):
                def visit_Name(self, x):
                    if isinstance(x.ctx, ast.Load) and d > 0 and (only is None or x.id in only) and x.id not in keep:
                        ds = g.reaching_defs(n_, x.id)
                        dv = g.def_value(ds[0], x.id) if len(ds) == 1 else None
                        if dv is not None and ds[0] is not n_ and (_pure_value(dv) or not pure_only) and not any(isinstance(y, ast.Name) and y.id == x.id for y in ast.walk(dv)):
                            if stable and not all({q.id for q in g.reaching_defs(ds[0], nm)} == {q.id for q in g.reaching_defs(node, nm)}
                                                  for nm in {y.id for y in ast.walk(dv) if isinstance(y, ast.Name)}):
                                return x
                            return at(ds[0], dv, d - 1)
                    return x

                def visit_Lambda(self, x):
                    return x
            return T().visit(_copy.deepcopy(e))
        return at(node, expr, depth)

    def node_of(self, sub):
        """the CFG node whose statement / test contains the AST node ``sub``"""
        best = None
        for n in self.nodes:
            if n.ast is None:
                continue
            if n.kind in ('if', 'while') and hasattr(n.ast, 'test'):
                roots = [n.ast.test]
            elif n.kind == 'for':
                roots = [n.ast.iter]
            elif isinstance(n.ast, ast.With):
                roots = [i.context_expr for i in n.ast.items]
            elif isinstance(n.ast, (ast.Try, ast.FunctionDef, ast.ClassDef)):
                roots = []
            else:
                roots = [n.ast]
            for r in roots:
                size = 0
                hit = False
                for x in ast.walk(r):
                    size += 1
                    hit = hit or x is sub
                if hit and (best is None or size < best[0]):
                    best = (size, n)
        return best[1] if best else None

    def all_paths_pass(self, src, targets, through):
        """True iff every path from ``src`` to ``targets`` enters a node of ``through``."""
        return self.path_avoiding(src, targets, avoid=through) is None

    def exits(self, include_raise=False):
        return [self.exit] + ([self.raise_exit] if include_raise else [])

    def fmt_path(self, path):
        return ' -> '.join('L%d:%s' % (n.line, n.text()[:40]) if n.ast is not None else n.kind for n in path)

    def loop_body_nodes(self, loop_node):
        """Nodes belonging to the body of a while/for loop node (reachable from the
        true edge without passing the loop header, the exits, or leaving)."""
        out = set()
        todo = [e.dst for e in loop_node.succ if e.label and e.label[0] in ('cond', 'iter') and e.label[2] is True]
        body_stmts = set()
        for s in ast.walk(loop_node.ast):
            body_stmts.add(id(s))
        while todo:
            n = todo.pop()
            if n.id in out or n is loop_node or n.ast is None:
                continue
            if id(n.ast) not in body_stmts:
                continue
            out.add(n.id)
            todo.extend(e.dst for e in n.succ)
        return [n for n in self.nodes if n.id in out]


_cache = {}


def cfg_of(func, exceptional=False):
    """CFG for a model.Func (cached per AST identity)."""
    k = (id(func.node), exceptional)
    if k not in _cache:
        _cache[k] = (func.node, CFG(func.node, exceptional))
    return _cache[k][1]
