"""C16 - system alignment is rigid and exact; scaling is uniform."""
import ast
import math

from ..astutil import dotted, effective, expand_expression_methods, method_call, stores
from ..cfg import cfg_of, fact_key, norm, walk_own
from ..consteval import Scope, fold, fold_in
from ..flow import one_shot_rules, straightline_paths
from ..mutate import B, M
from ..symexpr import canon

PROP = 'C16'
AL = 'cflib/localization/lighthouse_system_aligner.py'
SC = 'cflib/localization/lighthouse_system_scaler.py'
TY = 'cflib/localization/lighthouse_types.py'

EXPLANATION = (
    'Static provenance and purity analysis of LighthouseSystemAligner, LighthouseSystemScaler and Pose: R1 align maps every base '
    'station through the same loop-invariant transform into a fresh dict and returns that transform; R2 rigid by construction: every '
    'pose flowing into the transform comes from Pose.from_rot_vec (matrix = Rotation.from_rotvec(...).as_matrix()) or from '
    'rotate_translate_pose of such, which composes R.R\' and R.t\'+t; R3 flip table: X<0 test on component 0 -> rotation (0,0,pi), Z<0 '
    'test on component 2 of the first base station -> (pi,0,0), each composed on the left of the current transform; R4 inputs are not '
    'mutated: no store or mutating call through a parameter (alias aware: loop variables over a parameter and .scale on a shallow '
    'copy - Pose.scale rebinds _t_vec instead of *=); R5 uniform scaling: Pose.scale touches only _t_vec, one scale factor reaches every '
    '.scale call and is returned, factor = expected/actual (reference distance or mean sensor diagonal). Convergence of the solver and '
    'that the transform maps the references as stated are numeric and not decided; R6 the ray/deck-plane intersection used for the sensor diagonal has the textbook form.')
ASSUMPTIONS = ['scipy Rotation.from_rotvec(...).as_matrix() is a proper rotation', 'copy.copy makes a shallow copy sharing attribute objects']
FLOORS = {'R6': 6, 'R1': 4, 'R2': 6, 'R3': 4, 'R4': 8, 'R5': 6}

MUT = ('append', 'extend', 'insert', 'pop', 'remove', 'clear', 'update', 'sort', 'reverse', 'scale', 'setdefault', 'popitem', 'fill', 'resize')


def param_aliases(func):
    """names bound to (elements of) a parameter: loop variables over a parameter / its .items()/.values(), x = param[...] / list(param.values())[0]"""
    params = set(func.params) - {'cls', 'self'}
    alias = set(params)
    changed = True
    while changed:
        changed = False
        for n in ast.walk(func.node):
            src, tgt = None, None
            if isinstance(n, ast.For):
                src, tgt = n.iter, n.target
            # comprehension variables live in their own scope: the container they build is
            # classified by fresh() on the Assign that binds it
            elif isinstance(n, ast.Assign) and len(n.targets) == 1:
                src, tgt = n.value, n.targets[0]
            if src is None:
                continue
            if fresh(src):
                continue
            if any(isinstance(x, ast.Name) and x.id in alias for x in ast.walk(src)):
                for x in ast.walk(tgt):
                    if isinstance(x, ast.Name) and x.id not in alias:
                        alias.add(x.id)
                        changed = True
    return alias


def fresh(expr):
    """expression that creates a new object not sharing identity with its operands' elements"""
    if isinstance(expr, ast.Call):
        d = dotted(expr.func) or ''
        if d in ('copy.copy', 'copy.deepcopy', 'Pose', 'np.mean', 'np.linalg.norm', 'np.dot', 'np.array', 'np.zeros', 'float', 'int', 'len', 'zip', 'map') or \
                d.endswith(('.rotate_translate_pose', '.rotate_translate', '._find_transformation', '._de_flip_transformation', '._Pose_from_params', '.from_rot_vec',
                            '._calculate_mean_diagonal', '.calc_intersection_distance', '.calc_intersection_point', 'least_squares')):
            return True
    if isinstance(expr, (ast.BinOp, ast.Constant, ast.Dict, ast.Compare)):
        return True
    if isinstance(expr, (ast.DictComp, ast.ListComp)):
        elt = expr.value if isinstance(expr, ast.DictComp) else expr.elt
        return fresh(elt)
    return False


def stores_through(func, alias):
    bad = []
    for n in ast.walk(func.node):
        if isinstance(n, (ast.Assign, ast.AugAssign)):
            tg = n.targets if isinstance(n, ast.Assign) else [n.target]
            for t in tg:
                if isinstance(t, (ast.Attribute, ast.Subscript)):
                    base = t
                    while isinstance(base, (ast.Attribute, ast.Subscript)):
                        base = base.value
                    if isinstance(base, ast.Name) and base.id in alias:
                        bad.append(norm(n))
        elif isinstance(n, ast.Call) and isinstance(n.func, ast.Attribute) and n.func.attr in MUT:
            base = n.func.value
            while isinstance(base, (ast.Attribute, ast.Subscript)):
                base = base.value
            if isinstance(base, ast.Name) and base.id in alias:
                bad.append(norm(n))
    return bad


def check(ctx):
    m = ctx.model
    A = m.cls(AL, 'LighthouseSystemAligner')
    S = m.cls(SC, 'LighthouseSystemScaler')
    P = m.cls(TY, 'Pose')

    # ---- R1 ----------------------------------------------------------------------------
    al = A.method('align')
    lp = [l for l in walk_own(al.node) if isinstance(l, ast.For)]
    bsp = al.params[4]
    tv = None
    res = [s for s in al.node.body if isinstance(s, (ast.Assign, ast.AnnAssign)) and norm(s.targets[0] if isinstance(s, ast.Assign) else s.target) == 'result']
    if len(lp) == 1:
        st = [s for s in lp[0].body if isinstance(s, ast.Assign)]
        ok = len(st) == 1 and isinstance(st[0].value, ast.Call) and method_call(st[0].value, 'rotate_translate_pose') and norm(lp[0].iter) == '%s.items()' % bsp
        if ok:
            tv = norm(st[0].value.func.value)
            key, val = [norm(x) for x in lp[0].target.elts]
            ok = norm(st[0].targets[0]) == 'result[%s]' % key and [norm(a) for a in st[0].value.args] == [val] and len(lp[0].body) == 1
        ctx.inst('R1', al, 'every-station-through-T', ok, 'each base station pose is mapped by the transform into result[id]')
        inv = tv is not None and not any(isinstance(s, (ast.Assign, ast.AugAssign)) and norm(s.targets[0] if isinstance(s, ast.Assign) else s.target) == tv for s in walk_own(lp[0]))
        ctx.inst('R1', al, 'one-transform', inv, 'the transform %s is loop invariant: one rigid motion for all stations' % tv)
        ctx.inst('R1', al, 'fresh-result', len(res) == 1 and norm(res[0].value) in ('{}', 'dict()'), 'the result is a fresh dict')
    else:
        # no loop: the only other shape that pairs every id with ITS OWN transformed pose is the dictionary comprehension over
        # bs_poses.items(); anything that pairs keys and values from two separate walks (zip of sorted keys with values ..) does not
        dc = res[0].value if len(res) == 1 and isinstance(res[0].value, ast.DictComp) else None
        ok = dc is not None and len(dc.generators) == 1 and not dc.generators[0].ifs and norm(dc.generators[0].iter) == '%s.items()' % bsp and \
            isinstance(dc.generators[0].target, ast.Tuple) and len(dc.generators[0].target.elts) == 2 and norm(dc.key) == norm(dc.generators[0].target.elts[0]) and \
            isinstance(dc.value, ast.Call) and method_call(dc.value, 'rotate_translate_pose') and [norm(a) for a in dc.value.args] == [norm(dc.generators[0].target.elts[1])]
        if ok:
            tv = norm(dc.value.func.value)
        ctx.inst('R1', al, 'every-station-through-T', bool(ok), 'each base station pose is mapped by the transform into result[id] (its own id); found %s' %
                 (norm(res[0].value)[:80] if res else 'no result binding'))
        ctx.inst('R1', al, 'one-transform', tv is not None, 'one rigid motion for all stations')
        ctx.inst('R1', al, 'fresh-result', dc is not None, 'the result is a fresh dict')
    rets = [norm(s.value) for s in walk_own(al.node) if isinstance(s, ast.Return)]
    ctx.inst('R1', al, 'returns-result-and-T', rets == ['(result, %s)' % tv], 'align returns (poses, transform); returns %s' % rets)
    tdef = {norm(s.targets[0]): norm(s.value) for s in al.node.body if isinstance(s, ast.Assign)}
    o, xa, xy = al.params[1:4]
    ok = tdef.get('raw_transformation') == 'cls._find_transformation(%s, %s, %s)' % (o, xa, xy) and tdef.get(tv) == 'cls._de_flip_transformation(raw_transformation, %s, %s)' % (xa, bsp)
    ctx.inst('R1', al, 'T=deflip(find)', ok, 'transform = de-flipped solution of the fit on (origin, x-axis, xy-plane)')

    # ---- R2 ----------------------------------------------------------------------------
    ft = A.method('_find_transformation')
    rets = [norm(s.value) for s in walk_own(ft.node) if isinstance(s, ast.Return)]
    # whatever the local that holds the solver's result is called: it is bound to the least_squares call and its .x is converted
    solv = [norm(s_.targets[0]) for s_ in walk_own(ft.node) if isinstance(s_, ast.Assign) and isinstance(s_.value, ast.Call) and norm(s_.value.func).endswith('least_squares')
            and isinstance(s_.targets[0], ast.Name)]
    ctx.inst('R2', ft, 'solution-is-rotvec-pose', len(solv) == 1 and rets == ['cls._Pose_from_params(%s.x)' % solv[0]], 'the fitted parameters become a pose through _Pose_from_params')
    pp = A.method('_Pose_from_params')
    rets = [norm(s.value) for s in walk_own(pp.node) if isinstance(s, ast.Return)]
    ctx.inst('R2', pp, 'params->from_rot_vec', rets == ['Pose.from_rot_vec(R_vec=%s[:3], t_vec=%s[3:])' % (pp.params[1], pp.params[1])], '6 parameters = rotation vector + translation; returns %s' % rets)
    frv = P.method('from_rot_vec')
    rets = [norm(s.value) for s in walk_own(frv.node) if isinstance(s, ast.Return)]
    ctx.inst('R2', frv, 'rotvec->rotation-matrix', rets == ['Pose(Rotation.from_rotvec(%s).as_matrix(), %s)' % (frv.params[1], frv.params[2])], 'from_rot_vec builds the matrix with scipy Rotation (proper rotation); returns %s' % rets)
    rtp = P.method('rotate_translate_pose')
    st = {norm(s.targets[0]): norm(expand_expression_methods(P, s.value)) for s in walk_own(rtp.node) if isinstance(s, ast.Assign)}     # one-line methods of Pose read through
    pz = rtp.params[1]
    ctx.inst('R2', rtp, 'compose-translation', st.get('t') == 'np.dot(self.rot_matrix, %s.translation) + self.translation' % pz, 'composition: t = R.t\' + t; found %s' % st.get('t'))
    ctx.inst('R2', rtp, 'compose-rotation', st.get('R') == 'np.dot(self.rot_matrix, %s.rot_matrix)' % pz, 'composition: R = R.R\'; found %s' % st.get('R'))
    rets = [norm(s.value) for s in walk_own(rtp.node) if isinstance(s, ast.Return)]
    ctx.inst('R2', rtp, 'compose-result', rets == ['Pose(R_matrix=R, t_vec=t)'], 'a new pose (R, t) is returned')
    ctor = [c for f in A.methods.values() for c in ast.walk(f.node) if isinstance(c, ast.Call) and dotted(c.func) == 'Pose']
    ctx.inst('R2', (AL, 'LighthouseSystemAligner'), 'no-raw-matrix-poses', not ctor, 'the aligner never builds a Pose from a raw matrix: %s' % [norm(c) for c in ctor])
    rt = P.method('rotate_translate')
    rets = [norm(s.value) for s in walk_own(rt.node) if isinstance(s, ast.Return)]
    ctx.inst('R2', rt, 'point-map', rets == ['np.dot(self.rot_matrix, %s) + self.translation' % rt.params[1]], 'points are mapped by R.p + t')

    # ---- R3 ----------------------------------------------------------------------------
    df = A.method('_de_flip_transformation')
    g = cfg_of(df)
    raw, xa, bsp2 = df.params[1:4]
    flips = [n for n in g.nodes if n.kind == 'stmt' and isinstance(n.ast, ast.Assign) and isinstance(n.ast.value, ast.Call) and dotted(n.ast.value.func) == 'Pose.from_rot_vec']
    table = {}
    for n in flips:
        kw = {k.arg: k.value for k in n.ast.value.keywords}
        vec = fold(kw.get('R_vec'), Scope.of(df)) if 'R_vec' in kw else None
        comp = None
        for e in g.dominating_edges(n):
            for f in e.facts():
                if f.op == '<' and f.pol and isinstance(f.left, ast.Subscript) and fold_in(df, f.right) == 0.0:
                    # the tested coordinate, with every local read back to what it was computed from (the calls are pure geometry)
                    comp = (fold_in(df, f.left.slice), norm(g.expand_locals(e.src, f.left.value, pure_only=False)))
        table[comp] = (vec, norm(n.ast.targets[0]))
    want_z = (0, '%s.rotate_translate(np.mean(%s, axis=0))' % (raw, xa))
    want_x = (2, '%s.rotate_translate(list(%s.values())[0].translation)' % (raw, bsp2))
    okz = want_z in table and table[want_z][0] is not None and tuple(round(v, 9) for v in table[want_z][0]) == (0.0, 0.0, round(math.pi, 9))
    okx = want_x in table and table[want_x][0] is not None and tuple(round(v, 9) for v in table[want_x][0]) == (round(math.pi, 9), 0.0, 0.0)
    r3_table = (okz, okx, {k: v[0] for k, v in table.items()})
    # the result on each of the four paths, with every local read back to what it was computed from (the function is straight-line
    # code with two tests; the geometry calls are pure): independent of how many locals carry the transform on the way
    sp_ = straightline_paths(df)
    if sp_ is not None:
        def tok(txt):
            import re
            def rep(m_):
                try:
                    v_ = fold(ast.parse(m_.group(1), mode='eval').body, Scope.of(df))
                    v_ = tuple(round(x_, 9) for x_ in v_)
                except Exception:
                    return 'F?'
                return {(0.0, 0.0, round(math.pi, 9)): 'FZ', (round(math.pi, 9), 0.0, 0.0): 'FX'}.get(v_, 'F?')
            return re.sub(r'Pose\.from_rot_vec\(R_vec=(\([^()]*\))\)', rep, txt)
        tz = '%s.rotate_translate(np.mean(%s, axis=0))[0] < 0.0' % (raw, xa)
        tx = '%s.rotate_translate(list(%s.values())[0].translation)[2] < 0.0' % (raw, bsp2)
        got = {}
        def cc(txt):
            # flips kept as class-level constants are the expressions they were built from
            try:
                e_ = ast.parse(txt, mode='eval').body
            except SyntaxError:
                return txt
            import copy as _copy

            class R2(ast.NodeTransformer):
                def visit_Attribute(self, n):
                    self.generic_visit(n)
                    if isinstance(n.value, ast.Name) and n.value.id in ('cls', 'self', A.name) and n.attr in A.consts:
                        return _copy.deepcopy(A.consts[n.attr])
                    return n
            return norm(R2().visit(e_))
        def orient(t_):
            # `0.0 > x` is `x < 0.0`
            try:
                e_ = ast.parse(t_, mode='eval').body
            except SyntaxError:
                return t_
            if isinstance(e_, ast.Compare) and len(e_.ops) == 1 and isinstance(e_.left, ast.Constant) and type(e_.ops[0]) in (ast.Gt, ast.GtE, ast.Lt, ast.LtE):
                sw = {ast.Gt: ast.Lt, ast.GtE: ast.LtE, ast.Lt: ast.Gt, ast.LtE: ast.GtE}[type(e_.ops[0])]()
                return norm(ast.Compare(left=e_.comparators[0], ops=[sw], comparators=[e_.left]))
            return t_
        for conds, ret in sp_:
            cd = {orient(k_): v_ for k_, v_ in dict(conds).items()}
            got[(cd.get(tz), cd.get(tx))] = tok(cc(ret)) if ret is not None else None
        want_tbl = {(False, False): raw, (True, False): 'FZ.rotate_translate_pose(%s)' % raw, (False, True): 'FX.rotate_translate_pose(%s)' % raw,
                    (True, True): 'FX.rotate_translate_pose(FZ.rotate_translate_pose(%s))' % raw}
        ctx.inst('R3', df, 'x-negative->flip-about-z', got.get((True, False)) == want_tbl[(True, False)], 'x-axis mean mapping to X<0 is corrected by a half turn about Z; %s' % got.get((True, False)))
        ctx.inst('R3', df, 'z-negative->flip-about-x', got.get((False, True)) == want_tbl[(False, True)], 'first base station mapping to Z<0 is corrected by a half turn about X; %s' % got.get((False, True)))
        ctx.inst('R3', df, 'flips-compose-on-the-left', got.get((True, True)) == want_tbl[(True, True)] and got.get((True, False)) == want_tbl[(True, False)] and
                 got.get((False, True)) == want_tbl[(False, True)], 'each flip F is applied as F.rotate_translate_pose(transform so far); results per path %s' % got)
        ctx.inst('R3', df, 'references', set(got) == set(want_tbl) and got.get((False, False)) == raw,
                 'tests use the mean x-axis sample and the first base station; start from the raw transform; paths %s' % sorted(got, key=str))
        ctx.inst('R3', df, 'returns-transform', got == want_tbl, 'the (possibly flipped) transform is returned on every path')
        r3_done = True
    else:
        r3_done = False
    rets = [norm(s.value) for s in walk_own(df.node) if isinstance(s, ast.Return)]
    # the running transform is whatever local is returned (any name): it starts as the raw solution and only flips re-bind it
    cur = rets[0] if len(set(rets)) == 1 and rets and rets[0].isidentifier() else 'transformation'
    comps = [n for n in g.nodes if n.kind == 'stmt' and isinstance(n.ast, ast.Assign) and norm(n.ast.targets[0]) == cur and isinstance(n.ast.value, ast.Call) and
             method_call(n.ast.value, 'rotate_translate_pose')]
    ok = len(comps) == 2 and all([norm(a) for a in n.ast.value.args] == [cur] and norm(n.ast.value.func.value) in [v[1] for v in table.values()] for n in comps)
    for n in comps:
        flipvar = norm(n.ast.value.func.value)
        ok = ok and any(g.dominates(f, n) and norm(f.ast.targets[0]) == flipvar and g.fact_keys_at(f) == g.fact_keys_at(n) for f in flips)
    st = {norm(s.targets[0]): norm(s.value) for s in df.node.body if isinstance(s, ast.Assign)}
    compsts = {id(n.ast) for n in comps}
    others = [st_ for t, st_ in stores(df.node) if norm(t) == cur and id(st_) not in compsts and not (isinstance(st_, ast.Assign) and norm(st_.value) == raw)]
    if not r3_done:
        ctx.inst('R3', df, 'x-negative->flip-about-z', r3_table[0], 'x-axis mean mapping to X<0 is corrected by a half turn about Z; table %s' % r3_table[2])
        ctx.inst('R3', df, 'z-negative->flip-about-x', r3_table[1], 'first base station mapping to Z<0 is corrected by a half turn about X; table %s' % r3_table[2])
        ctx.inst('R3', df, 'flips-compose-on-the-left', ok, 'each flip F is applied as F.rotate_translate_pose(current transform) under its own test')
        ctx.inst('R3', df, 'references', want_z in table and want_x in table and st.get(cur) == raw and not others,
                 'tests use the mean x-axis sample and the first base station; start from the raw transform')
        ctx.inst('R3', df, 'returns-transform', rets == [cur] and len(comps) == 2, 'the (possibly flipped) transform is returned')

    # ---- R4: purity ------------------------------------------------------------------------
    for K, names in ((A, ('align', '_find_transformation', '_de_flip_transformation', '_calc_residual')),
                     (S, ('scale_fixed_point', 'scale_diagonals', '_scale_system', '_calculate_mean_diagonal', 'calc_intersection_distance', 'calc_intersection_point'))):
        for nme in names:
            f = K.method(nme)
            bad = stores_through(f, param_aliases(f))
            ctx.inst('R4', f, 'no-store-through-inputs', not bad, 'inputs are modified through %s' % bad)
            # ... and nothing is kept on the class between calls: these are classmethods, an attribute written here is shared by every
            # alignment in the process (two alignments at once - or a result read back from the class - mix their transformations)
            kept = [norm(t)[:40] for x in walk_own(f.node) if isinstance(x, (ast.Assign, ast.AugAssign, ast.AnnAssign))
                    for t in (x.targets if isinstance(x, ast.Assign) else [x.target])
                    if isinstance(t, ast.Attribute) and isinstance(t.value, ast.Name) and t.value.id in ('cls', 'self', K.name)]
            ctx.inst('R4', f, 'no-state-on-the-class', not kept, 'attributes written on the class / instance: %s' % kept)
    ss = S.method('_scale_system')
    calls = [c for c in ast.walk(ss.node) if method_call(c, 'scale')]
    # copy-and-scale through a helper that is called from inside a comprehension: statements cannot be read back into an expression,
    # and following the factor through that call is not built - no verdict rather than a guess
    in_comp = [norm(c.func) for comp in ast.walk(ss.node) if isinstance(comp, (ast.ListComp, ast.DictComp, ast.GeneratorExp, ast.SetComp))
               for c in ast.walk(comp) if isinstance(c, ast.Call) and isinstance(c.func, ast.Attribute) and isinstance(c.func.value, ast.Name) and
               c.func.value.id in ('cls', 'self', S.name) and S.has(c.func.attr)]
    ctx.need(not (len(calls) != 2 and in_comp), '_scale_system: poses are scaled through %s inside a comprehension (not analysed)' % sorted(set(in_comp)))
    ok = len(calls) == 2
    fused = []                     # (input iterated, kept in) for the copy-scale-store-in-one-loop form
    gss = cfg_of(ss)
    for c in calls:
        v = norm(c.func.value)
        loops = [l for l in walk_own(ss.node) if isinstance(l, ast.For) and norm(l.target) == v]
        src = norm(loops[0].iter).replace('.values()', '') if loops else None
        d = [s for s in ss.node.body if isinstance(s, ast.Assign) and norm(s.targets[0]) == src]
        two_pass = len(d) == 1 and isinstance(d[0].value, (ast.DictComp, ast.ListComp)) and \
            norm(d[0].value.value if isinstance(d[0].value, ast.DictComp) else d[0].value.elt).startswith(('copy.copy(', 'copy.deepcopy('))
        one_pass = False
        if not two_pass and isinstance(c.func.value, ast.Name):
            # copy, scale and store in one loop: the receiver is a local bound (only) to copy.copy(<loop variable>) in the same loop body,
            # the call is a statement of that body, and the copy is what goes into the result
            n_ = gss.node_of(c)
            defs = gss.reaching_defs(n_, v) if n_ is not None else []
            vals = [gss.def_value(d_, v) for d_ in defs if d_.ast is not None]
            encl = [l for l in walk_own(ss.node) if isinstance(l, ast.For) and any(isinstance(x, ast.Expr) and x.value is c for x in l.body)]
            if len(defs) == 1 and len(vals) == 1 and vals[0] is not None and norm(vals[0].func if isinstance(vals[0], ast.Call) else vals[0]) in ('copy.copy', 'copy.deepcopy') and len(encl) == 1:
                lv = {x.id for x in ast.walk(encl[0].target) if isinstance(x, ast.Name)}
                arg = vals[0].args[0] if vals[0].args else None
                kept = [norm(x.targets[0].value) for x in encl[0].body if isinstance(x, ast.Assign) and isinstance(x.targets[0], ast.Subscript) and norm(x.value) == v] + \
                       [norm(x.value.func.value) for x in encl[0].body if isinstance(x, ast.Expr) and method_call(x.value, 'append') and [norm(a) for a in x.value.args] == [v]]
                one_pass = isinstance(arg, ast.Name) and arg.id in lv and len(kept) == 1 and any(d_.ast is x for d_ in defs for x in encl[0].body)
                if one_pass:
                    fused.append((norm(encl[0].iter), kept[0]))
        ok = ok and (two_pass or one_pass)
    ctx.inst('R4', ss, 'scale-only-copies', ok, '.scale is applied only to copies (copy.copy/deepcopy) of the given poses, never to the poses themselves')
    sc_ = P.method('scale')
    body = effective(sc_.node.body)
    ok = len(body) == 1 and isinstance(body[0], ast.Assign) and norm(body[0].targets[0]) == 'self._t_vec' and canon(body[0].value) == canon(ast.parse('self._t_vec * %s' % sc_.params[1], mode='eval').body)
    ctx.inst('R4', sc_, 'scale-rebinds', ok, 'Pose.scale must rebind _t_vec (x = x * s); an in-place *= would write through the shallow copy into the caller\'s pose; body %s' % [norm(b) for b in body])

    # ---- R5 ----------------------------------------------------------------------------
    wr = sorted({norm(t) for s in ast.walk(sc_.node) if isinstance(s, (ast.Assign, ast.AugAssign)) for t in (s.targets if isinstance(s, ast.Assign) else [s.target])})
    ctx.inst('R5', sc_, 'scale-touches-translation-only', wr == ['self._t_vec'], 'Pose.scale writes %s; rotations must stay unchanged' % wr)
    its = sorted(norm(l.iter) for l in walk_own(ss.node) if isinstance(l, ast.For))
    pb, pc = ss.params[1], ss.params[2]
    # the two-pass form: a dict comprehension over the base stations' items and a list comprehension over the Crazyflie poses
    # make the copies (whatever the locals are called), one loop over each scales them
    comp_src = {}
    for s_ in ss.node.body:
        if isinstance(s_, ast.Assign) and isinstance(s_.targets[0], ast.Name) and isinstance(s_.value, (ast.DictComp, ast.ListComp)) and len(s_.value.generators) == 1 \
                and not s_.value.generators[0].ifs:
            comp_src[s_.targets[0].id] = (type(s_.value).__name__, norm(s_.value.generators[0].iter))
    by_src = {v_: k_ for k_, v_ in comp_src.items()}
    dname, lname = by_src.get(('DictComp', '%s.items()' % pb)), by_src.get(('ListComp', pc))
    every = (dname is not None and lname is not None and its == sorted(['%s.values()' % dname, lname])) or \
        (len(fused) == 2 and sorted(i_ for i_, _ in fused) == sorted(['%s.items()' % pb, pc]) and its == sorted(i_ for i_, _ in fused))
    ctx.inst('R5', ss, 'scales-every-pose', every, 'every base station and every Crazyflie pose is scaled; loops %s' % its)
    # the factor, followed from each public entry point through _scale_system (wherever the division is written): every .scale call
    # and the returned factor are the one quotient expected / actual
    from ..symexec import Explorer as _Ex
    PURE_ = ('np.linalg.norm', 'cls._calculate_mean_diagonal')
    fp = S.method('scale_fixed_point')
    sd = S.method('scale_diagonals')
    for entry, want_txt, key in ((fp, 'np.linalg.norm(%s) / np.linalg.norm(%s.translation)' % (fp.params[3], fp.params[4]), 'factor=expected/actual'),
                                 (sd, '%s / cls._calculate_mean_diagonal(%s, %s, %s)' % (sd.params[4], sd.params[1], sd.params[2], sd.params[3]), 'factor=expected/estimated-diagonal')):
        want = canon(ast.parse(want_txt, mode='eval').body)
        seen_scale, seen_ret, n_scale = set(), set(), 0
        for p_ in _Ex(entry, pure=PURE_).run():
            r_ = p_.returned()
            if p_.outcome[0] != 'return' or not (isinstance(r_, ast.Call) and norm(r_.func) in ('cls._scale_system', 'self._scale_system')):
                seen_ret.add('<not through _scale_system>')
                continue
            env = dict(zip(ss.params[1:], r_.args))
            for q_ in _Ex(ss, env=env, pure=PURE_).run():
                for e_ in q_.events:
                    if e_.kind == 'call' and method_call(e_.node, 'scale'):
                        n_scale += 1
                        seen_scale.add(canon(e_.node.args[0]) if len(e_.node.args) == 1 else '<args>')
                rr = q_.returned()
                seen_ret.add(canon(rr.elts[2]) if isinstance(rr, ast.Tuple) and len(rr.elts) == 3 else '<shape>')
        ctx.inst('R5', entry, key, seen_scale == {want} and seen_ret == {want} and n_scale >= 2,
                 'every pose is scaled by, and the caller is told, the single factor %s; scale arguments %s, returned %s' % (want, sorted(seen_scale), sorted(seen_ret)))
    calls_ = [c for c in walk_own(ss.node) if method_call(c, 'scale')]
    ctx.inst('R5', ss, 'single-factor', len({norm(a) for c in calls_ for a in c.args}) == 1 and len(calls_) == 2 and all(len(c.args) == 1 for c in calls_), 'every .scale call receives the same scale factor expression')
    rets = [s_.value for s_ in walk_own(ss.node) if isinstance(s_, ast.Return)]
    ctx.inst('R5', ss, 'returns-factor', len(rets) == 1 and isinstance(rets[0], ast.Tuple) and ([norm(e) for e in rets[0].elts[:2]] in (['bs_scaled', 'cf_scaled'], [dname, lname]) or
                                                                                                 (len(fused) == 2 and sorted(norm(e) for e in rets[0].elts[:2]) == sorted(k_ for _, k_ in fused))) and
             bool(calls_) and norm(rets[0].elts[2]) == norm(calls_[0].args[0]), 'the factor that was applied is returned with the scaled poses')
    # ---- R6: ray / deck-plane intersection (what the sensor diagonal is measured with) -----------
    ip = S.method('calc_intersection_point')
    def with_class_consts(klass, e):
        # `cls.NAME` / `self.NAME` / `<Class>.NAME` read of a class-level constant -> the expression the constant is bound to
        # (np.array of a display is the display, for what the rules compare)
        import copy as _copy

        class R(ast.NodeTransformer):
            def visit_Attribute(self, n):
                self.generic_visit(n)
                if isinstance(n.value, ast.Name) and n.value.id in ('cls', 'self', klass.name) and n.attr in klass.consts:
                    v = klass.consts[n.attr]
                    if isinstance(v, ast.Call) and norm(v.func) in ('np.array', 'numpy.array') and len(v.args) == 1 and isinstance(v.args[0], (ast.Tuple, ast.List)):
                        v = v.args[0]
                        if isinstance(v, ast.List):
                            v = ast.Tuple(elts=v.elts, ctx=ast.Load())
                    return _copy.deepcopy(v)
                return n
        return R().visit(_copy.deepcopy(e))
    sti = {norm(s_.targets[0]): norm(with_class_consts(S, s_.value)) for s_ in ip.node.body if isinstance(s_, ast.Assign)}
    vec, bsp_, cfp_ = ip.params[1:4]
    ctx.inst('R6', ip, 'plane=deck-of-cf', sti.get('plane_base') == '%s.translation' % cfp_ and sti.get('plane_normal') in ('np.dot(%s.rot_matrix, (0.0, 0.0, 1.0))' % cfp_, '%s.rot_matrix[:, 2]' % cfp_),
             'the deck plane passes through the Crazyflie position with normal R_cf . e_z (third COLUMN of the rotation matrix); found base %s normal %s' % (sti.get('plane_base'), sti.get('plane_normal')))
    ctx.inst('R6', ip, 'ray=bs-to-sensor', sti.get('line_base') == '%s.translation' % bsp_ and sti.get('line_vector') == 'np.dot(%s.rot_matrix, %s.cart)' % (bsp_, vec),
             'the ray starts at the base station and points along R_bs . direction; found base %s vector %s' % (sti.get('line_base'), sti.get('line_vector')))
    ctx.inst('R6', ip, 'intersection-parameter', sti.get('dist_on_line') == 'np.dot(plane_base - line_base, plane_normal) / np.dot(line_vector, plane_normal)',
             'distance along the ray = ((p0 - l0) . n) / (l . n); found %s' % sti.get('dist_on_line'))
    retsi = [norm(s_.value) for s_ in walk_own(ip.node) if isinstance(s_, ast.Return)]
    ctx.inst('R6', ip, 'intersection-point', retsi == ['line_base + line_vector * dist_on_line'], 'intersection = l0 + l * d; returns %s' % retsi)
    idist = S.method('calc_intersection_distance')
    std = {norm(s_.targets[0]): norm(s_.value) for s_ in idist.node.body if isinstance(s_, ast.Assign)}
    retd = [norm(s_.value) for s_ in walk_own(idist.node) if isinstance(s_, ast.Return) and s_.value is not None]
    dval = std.get('distance') if retd == ['distance'] else (retd[0] if len(retd) == 1 else None)          # through the local or returned directly
    ctx.inst('R6', idist, 'diagonal=distance-of-intersections', dval == 'np.linalg.norm(intersection1 - intersection2)', 'sensor distance = |i1 - i2|; found %s' % dval)
    md = S.method('_calculate_mean_diagonal')
    dg = []
    for c in ast.walk(md.node):
        if not (method_call(c, 'append') and norm(c.func.value) == 'diagonals'):
            continue
        # the pairs may come from a literal table walked by a loop around the call: `for s1, s2 in ((0, 3), (1, 2))`
        envs = [{}]
        for lp_ in ast.walk(md.node):
            if isinstance(lp_, ast.For) and any(x is c for b_ in lp_.body for x in ast.walk(b_)) and isinstance(lp_.iter, (ast.Tuple, ast.List)) and \
                    isinstance(lp_.target, ast.Tuple) and all(isinstance(t, ast.Name) for t in lp_.target.elts) and \
                    all(isinstance(e, (ast.Tuple, ast.List)) and len(e.elts) == len(lp_.target.elts) and all(isinstance(v, ast.Constant) for v in e.elts) for e in lp_.iter.elts):
                envs = [dict(env, **{t.id: v for t, v in zip(lp_.target.elts, e.elts)}) for env in envs for e in lp_.iter.elts]
        for env in envs:
            class _Sub(ast.NodeTransformer):
                def visit_Name(self, n):
                    return env.get(n.id, n) if isinstance(n.ctx, ast.Load) else n
            import copy as _copy
            dg.append(norm(_Sub().visit(_copy.deepcopy(c.args[0]))))
    ctx.inst('R6', md, 'diagonal-sensor-pairs', sorted(dg) == sorted(['cls.calc_intersection_distance(vectors[0], vectors[3], bs_poses[bs_id], cf_pose)', 'cls.calc_intersection_distance(vectors[1], vectors[2], bs_poses[bs_id], cf_pose)']),
             'the two deck diagonals are sensors 0-3 and 1-2, measured with the matching base station and Crazyflie pose; found %s' % dg)

    # the mean runs over all matched samples: one-shot iterators (zip / map) in the solver code are consumed exactly once
    one_shot_rules(ctx, 'R6', [SC, AL])
    lpm = [l_ for l_ in walk_own(md.node) if isinstance(l_, ast.For) and any(method_call(c_, 'append') and norm(c_.func.value) == 'diagonals' for c_ in ast.walk(l_))]
    gmd = cfg_of(md)
    itx = norm(gmd.resolve_local(gmd.node_of(lpm[0].iter), lpm[0].iter)) if lpm and gmd.node_of(lpm[0].iter) is not None else None
    ctx.inst('R6', md, 'mean-over-all-samples', len(lpm) >= 1 and itx == 'zip(%s, %s)' % (md.params[2], md.params[3]), 'every (pose, sample) pair contributes its two diagonals; the loop runs over %s' % itx)
    for f in (fp, sd):
        rets = [s.value for s in walk_own(f.node) if isinstance(s, ast.Return)]
        ok = len(rets) == 1 and isinstance(rets[0], ast.Call) and norm(rets[0].func) == 'cls._scale_system' and [norm(a) for a in rets[0].args[:2]] == [f.params[1], f.params[2]]
        ctx.inst('R5', f, 'delegates', ok, 'scaling is done by _scale_system(bs_poses, cf_poses, ...) on the caller\'s poses')


VARIANTS = [
    M('R1', AL, "            result[bs_id] = transformation.rotate_translate_pose(pose)", "            result[bs_id] = transformation.rotate_translate_pose(pose)\n            transformation = raw_transformation", 'transform changes inside the loop'),
    M('R1', AL, "        result: dict[int, Pose] = {}\n", "        result = bs_poses\n", 'result aliases the input'),
    M('R2', TY, "        R = np.dot(self.rot_matrix, pose.rot_matrix)\n\n        return Pose(R_matrix=R, t_vec=t)", "        R = np.dot(pose.rot_matrix, self.rot_matrix)\n\n        return Pose(R_matrix=R, t_vec=t)", 'composition order'),
    M('R2', AL, "            flip_around_z_axis = Pose.from_rot_vec(R_vec=(0.0, 0.0, np.pi))", "            flip_around_z_axis = Pose(np.diag([-1.0, -1.0, 1.0]))", 'raw matrix flip'),
    M('R3', AL, "            flip_around_x_axis = Pose.from_rot_vec(R_vec=(np.pi, 0.0, 0.0))", "            flip_around_x_axis = Pose.from_rot_vec(R_vec=(0.0, 0.0, np.pi))", 'Z test flips about Z'),
    M('R3', AL, "        if raw_transformation.rotate_translate(bs_pose.translation)[2] < 0.0:", "        if raw_transformation.rotate_translate(bs_pose.translation)[1] < 0.0:", 'wrong component'),
    M('R3', AL, "            transformation = flip_around_z_axis.rotate_translate_pose(transformation)", "            transformation = transformation.rotate_translate_pose(flip_around_z_axis)", 'flip composed on the right'),
    M('R4', TY, "        self._t_vec = self._t_vec * scale", "        self._t_vec *= scale", 'in-place scale'),
    M('R4', SC, "        bs_scaled = {bs_id: copy.copy(pose) for bs_id, pose in bs_poses.items()}", "        bs_scaled = {bs_id: pose for bs_id, pose in bs_poses.items()}", 'scales the input poses'),
    M('R5', SC, "        for pose in cf_scaled:\n            pose.scale(scale_factor)", "        for pose in cf_scaled:\n            pose.scale(scale_factor * 1.0001)", 'different factor for CF poses'),
    M('R5', TY, "        self._t_vec = self._t_vec * scale", "        self._t_vec = self._t_vec * scale\n        self._R_matrix = self._R_matrix * scale", 'rotation scaled'),
    M('R5', SC, "        scale_factor = expected_distance / actual_distance", "        scale_factor = actual_distance / expected_distance", 'inverse factor'),
    B(SC, "        bs_scaled = {bs_id: copy.copy(pose) for bs_id, pose in bs_poses.items()}", "        bs_scaled = {bs_id: copy.deepcopy(pose) for bs_id, pose in bs_poses.items()}", 'deepcopy'),
    B(TY, "        self._t_vec = self._t_vec * scale", "        self._t_vec = scale * self._t_vec", 'commuted product'),
]
