"""C03 - downloaded log and parameter tables equal the device tables."""
import ast
import struct

from .. import bits as B_
from ..astutil import aug_form, dotted, effective, method_call
from ..cfg import canon_test, cfg_of, fact_key, nonempty_keys, norm, walk_own
from ..consteval import UNKNOWN, Scope, fold, fold_in
from ..mutate import B, M
from ..symexec import paths_of

PROP = 'C03'
TOC = 'cflib/crazyflie/toc.py'
LOG = 'cflib/crazyflie/log.py'
PAR = 'cflib/crazyflie/param.py'

EXPLANATION = (
    'Static analysis of TocFetcher/Toc and the two element constructors: R1 an element is added and the index advanced only '
    'for a reply on channel 0 whose index equals the requested one; R2 the V1/V2 request/reply pairing (info command and format, '
    'item command, id decode width, element slice start, expected-reply tuple = leading request bytes); R3 package-wide: every '
    'struct.unpack(fmt, x[a:b]) with foldable bounds has b-a == calcsize(fmt); R4 the 16-bit index is split little-endian to match '
    'the <H decode; R5 the protocol-generation switch is the same constant in toc/log/param; R6 type tables: parameter code bits '
    '(size = 1<<(code&3), float bit 2, unsigned bit 3) agree with the struct formats and the C names, masks 0x0F/0x10/0x40 are '
    'disjoint; log type table name/format/size columns agree and equal the firmware codes; R7 both element constructors skip one '
    'metadata byte and take group then name from the NUL separated remainder; R8 Toc stores under [group][name] and the three '
    'look-ups read the same path; R9 completion is signalled only from the cache-hit, last-index and empty-table branches, and '
    'the extended-type pass hands the completion on. R11 the persistence marker: an extended-type answer is accepted only as MISC_GET_EXTENDED_TYPE reply for the id just asked, once, and marks the element with that id (shared with C04.R10). R13 add_port_callback / remove_port_callback register and drop the same five-field entry, so a finished TocFetcher really unregisters (shared with C07.R6); R12 cache present: encoder and decoder of the cache agree key by key and both handle `extended` for parameter elements (shared with C11.R4). Reply orders as such are not enumerated: R1 and R11 are the structural guards.')
ASSUMPTIONS = ['firmware log.h type codes 1..8 and parameter type-byte bit semantics are as tabulated in this check']
FLOORS = {'R13': 2, 'R12': 8, 'R11': 14, 'R10': 3, 'R1': 4, 'R2': 8, 'R3': 20, 'R4': 2, 'R5': 4, 'R6': 20, 'R7': 6, 'R8': 5, 'R9': 4}

FW_LOG_TYPES = {1: ('uint8_t', 1), 2: ('uint16_t', 2), 3: ('uint32_t', 4), 4: ('int8_t', 1), 5: ('int16_t', 2), 6: ('int32_t', 4),
                7: ('float', 4), 8: ('FP16', 2)}


def slice_rule(ctx, rule='R3'):
    """Package-wide: struct.unpack(fmt, x[a:b]) with foldable fmt and bounds => b - a == calcsize(fmt)."""
    n = 0
    for mod in ctx.model.all_modules():
        for f in mod.all_funcs():
            for c in ast.walk(f.node):
                if not (isinstance(c, ast.Call) and dotted(c.func) in ('struct.unpack', 'unpack') and len(c.args) == 2):
                    continue
                fmt = fold_in(f, c.args[0])
                src = c.args[1]
                if not isinstance(fmt, str) or not (isinstance(src, ast.Subscript) and isinstance(src.slice, ast.Slice)):
                    continue
                lo = fold_in(f, src.slice.lower) if src.slice.lower is not None else 0
                hi = fold_in(f, src.slice.upper) if src.slice.upper is not None else UNKNOWN
                if src.slice.upper is None or lo is UNKNOWN or hi is UNKNOWN or not isinstance(lo, int) or not isinstance(hi, int):
                    # symbolic bounds: a:a+k
                    if src.slice.lower is not None and src.slice.upper is not None and isinstance(src.slice.upper, ast.BinOp) and \
                            isinstance(src.slice.upper.op, ast.Add) and norm(src.slice.upper.left) == norm(src.slice.lower):
                        k = fold_in(f, src.slice.upper.right)
                        if isinstance(k, int):
                            lo, hi = 0, k
                        else:
                            continue
                    else:
                        continue
                if lo < 0 or hi < 0:
                    continue
                try:
                    size = struct.calcsize(fmt)
                except struct.error:
                    ctx.inst(rule, f, 'slice:' + norm(c)[:60], False, 'invalid struct format %r' % fmt, line=c.lineno)
                    continue
                n += 1
                ctx.inst(rule, f, 'slice:' + norm(c)[:70], hi - lo == size,
                         'format %r needs %d bytes but the slice [%d:%d] has %d' % (fmt, size, lo, hi, hi - lo), line=c.lineno)
    return n


def fetch_guard_rules(ctx, rule='R1'):
    """An element is added / the index advanced only for the requested index on channel 0 (shared with C02)."""
    m = ctx.model
    fetcher = m.cls(TOC, 'TocFetcher')
    cb = fetcher.method('_new_packet_cb')
    g = cfg_of(cb)
    pkv = cb.params[1]
    reqs = g.find(lambda n: method_call(n, '_request_toc_element'))
    # ---- R1 ------------------------------------------------------------------------
    adds = g.find(lambda n: method_call(n, 'add_element'))
    ctx.need(adds, 'TocFetcher._new_packet_cb: no add_element call')
    advs = g.find(lambda n: isinstance(n, ast.AugAssign) and norm(n.target) == 'self.requested_index')
    reqs = g.find(lambda n: method_call(n, '_request_toc_element'))
    chan0 = [fact_key('chan != 0', False), fact_key('%s.channel != 0' % pkv, False), fact_key('chan == TOC_CHANNEL', True)]
    for label, sites in (('add', adds), ('advance', advs)):
        for n, x in sites:
            keys = g.fact_keys_at(n)
            ok = fact_key('ident != self.requested_index', False) in keys
            ctx.inst(rule, cb, '%s-needs-requested-index' % label, ok,
                     '%s at line %d must be guarded by ident == self.requested_index (stale/duplicated replies ignored); guards %s' % (label, n.line, sorted(keys)))
            ctx.inst(rule, cb, '%s-needs-channel-0' % label, any(k in keys for k in chan0), '%s must only happen for channel-0 (TOC) replies' % label)
    for n, x in adds:
        a = x.args[0] if x.args else None
        ok = isinstance(a, ast.Call) and norm(a.func) == 'self.element_class' and norm(a.args[0]) == 'ident'
        ctx.inst(rule, cb, 'element-index=reply-index', ok, 'the element is constructed with the index decoded from the reply; found %s' % norm(x))
    for n, x in advs:
        ctx.inst(rule, cb, 'advance-by-one', isinstance(x.op, ast.Add) and fold_in(cb, x.value) == 1, 'requested index advances by exactly one')
    nxt = [(n, x) for n, x in reqs if fact_key('self.state == GET_TOC_ELEMENT', True) in g.fact_keys_at(n)]
    for n, x in nxt:
        ctx.inst(rule, cb, 'next-request=requested-index', [norm(a) for a in x.args] == ['self.requested_index'] and any(g.dominates(a[0], n) for a in advs),
                 'the next request asks for the advanced index')

    return fetcher, cb, g, pkv, adds, reqs


def fetcher_unsubscribe_rules(ctx, rule):
    """A fetch that is cut short by a disconnect unsubscribes: the fetcher registers a handler on cf.disconnected when it subscribes
    to its port, and that handler removes the port callback (otherwise the fetcher of an aborted attempt answers the replies of the
    next connection of the same object: duplicate requests, `connected` twice).  Shared with C02 (finding F-02f)."""
    m = ctx.model
    fetcher = m.cls(TOC, 'TocFetcher')

    def calls_through(fn_, depth=0):
        out = []
        for s_ in fn_.node.body:
            if isinstance(s_, ast.Expr) and isinstance(s_.value, ast.Call):
                c_ = s_.value
                if depth < 2 and isinstance(c_.func, ast.Attribute) and norm(c_.func.value) == 'self' and not c_.args and not c_.keywords and fetcher.has(c_.func.attr):
                    out += calls_through(fetcher.method(c_.func.attr), depth + 1)
                else:
                    out.append(norm(c_))
        return out
    st_ = fetcher.method('start')
    hooks = [c_ for c_ in walk_own(st_.node) if method_call(c_, 'add_callback') and norm(c_.func.value) == 'self.cf.disconnected' and len(c_.args) == 1 and
             isinstance(c_.args[0], ast.Attribute) and norm(c_.args[0].value) == 'self' and fetcher.has(c_.args[0].attr)]
    okh = len(hooks) == 1 and 'self.cf.remove_port_callback(self.port, self._new_packet_cb)' in calls_through(fetcher.method(hooks[0].args[0].attr))
    ctx.inst(rule, st_, 'aborted-fetch-unsubscribes', okh, 'TocFetcher.start registers a cf.disconnected handler that removes the port callback')
    xf = m.cls(PAR, '_ExtendedTypeFetcher')
    xi = xf.method('__init__')
    xh = [c_ for c_ in walk_own(xi.node) if method_call(c_, 'add_callback') and norm(c_.func.value) == 'self._cf.disconnected' and len(c_.args) == 1 and
          isinstance(c_.args[0], ast.Attribute) and norm(c_.args[0].value) == 'self' and xf.has(c_.args[0].attr)]
    okx = len(xh) == 1 and any(method_call(c_, 'remove_port_callback') and [norm(a_) for a_ in c_.args] == ['CRTPPort.PARAM', 'self._new_packet_cb']
                                for c_ in walk_own(xf.method(xh[0].args[0].attr).node)) and \
        any(isinstance(s2, ast.Assign) and norm(s2.targets[0]) == 'self._done_callback' and norm(s2.value) == 'None' for s2 in walk_own(xf.method(xh[0].args[0].attr).node))
    ctx.inst(rule, xi, 'aborted-extended-fetch-unsubscribes', okx, 'the extended-type fetcher drops its port callback and its completion callback when the link goes down')


def session_object_rules(ctx, rule):
    """Objects that belong to one connection are new for every connection.  The extended-type fetcher keeps the table it was built
    with, so it is built per refresh from the current self.toc (or dropped when a connection starts / ends); a connection request
    installs a NEW Toc() - a fetcher left over from an aborted session still holds the old object and must not be able to write into
    the table of the next session; on a cache hit the cached table is installed before completion is signalled.  Shared by C03 / C04."""
    m = ctx.model
    PARAM = 'cflib/crazyflie/param.py'
    P = m.cls(PARAM, 'Param')
    fetchers = [(mth, st_) for mth in P.methods.values() for st_ in ast.walk(mth.node)
                if isinstance(st_, ast.Assign) and isinstance(st_.value, ast.Call) and dotted(st_.value.func) == '_ExtendedTypeFetcher']
    ctx.need(fetchers, 'no construction of _ExtendedTypeFetcher found')
    cr_ = P.method('_connection_requested')
    reset_attrs = {norm(t) for s_ in walk_own(cr_.node) if isinstance(s_, ast.Assign) for t in s_.targets} | \
        {norm(t) for s_ in walk_own(P.method('_disconnected').node) if isinstance(s_, ast.Assign) for t in s_.targets}
    for f_, st_ in fetchers:
        tgt = norm(st_.targets[0])
        args = [norm(a) for a in st_.value.args]
        gfn = cfg_of(f_)
        nd = gfn.node_of(st_.value)
        unguarded = nd is None or not any('%s is None' % tgt in k[0] or k[0] == tgt for k in gfn.fact_keys_at(nd))
        ok = args == ['self.cf', 'self.toc'] and (not tgt.startswith('self.') or (tgt in reset_attrs)) and (not tgt.startswith('self.') or unguarded or tgt in reset_attrs)
        ctx.inst(rule, f_, 'fetcher-per-connection', ok, 'every connection attempt replaces Param.toc, so a fetcher (which keeps the table it was built with) must be built per refresh '
                 'from the current self.toc - or dropped when a connection starts/ends; built as %s = _ExtendedTypeFetcher(%s)' % (tgt, ', '.join(args)), line=st_.lineno)
    for fn in ('_connection_requested',):
        f = P.method(fn)
        news = [s_ for s_ in walk_own(f.node) if isinstance(s_, ast.Assign) and norm(s_.targets[0]) == 'self.toc' and isinstance(s_.value, ast.Call) and dotted(s_.value.func) == 'Toc']
        emptied = [norm(c) for c in walk_own(f.node) if isinstance(c, ast.Call) and isinstance(c.func, ast.Attribute) and norm(c.func.value).startswith('self.toc') and c.func.attr in ('clear',)]
        ctx.inst(rule, f, 'new-table-object-per-session', len(news) == 1 and not emptied,
                 'a connection request binds self.toc to a new Toc(); emptying and re-using the old object (%s) lets a fetcher of an aborted session fill the new table' % (emptied or 'no clear'))
    tf = m.func(TOC, 'TocFetcher._new_packet_cb')
    gtf = cfg_of(tf)
    inst = [n for n in gtf.nodes if n.kind == 'stmt' and isinstance(n.ast, ast.Assign) and norm(n.ast.targets[0]) == 'self.toc.toc']
    fin = [n for n, c in gtf.find(lambda q: method_call(q, '_toc_fetch_finished'))]
    hit_fin = [n for n in fin if inst and gtf.fact_keys_at(n) == gtf.fact_keys_at(inst[0])]
    ctx.inst(rule, tf, 'cached-table-installed-before-finished', len(inst) == 1 and len(hit_fin) == 1 and gtf.dominates(inst[0], hit_fin[0]),
             'on a cache hit the table is stored in the holder first, then completion is signalled (connected is fired from that signal: listeners must see the table)')


def toc_lookup_rules(ctx, rule='R8'):
    """Toc stores under [group][name]; the look-ups read the same path (shared with C04, C05)."""
    m = ctx.model
    # ---- R8: Toc container -------------------------------------------------------------------------------
    toc = m.cls(TOC, 'Toc')
    ae = toc.method('add_element')
    ep = ae.params[1]
    gae = cfg_of(ae)

    def through(g_, st_, e_):
        # the path written with locals (`toc = self.toc; names = toc[group]`) is the path through self.toc
        n_ = g_.node_of(st_)
        import copy as _c
        e2 = _c.deepcopy(e_)
        for x_ in ast.walk(e2):
            if hasattr(x_, 'ctx'):
                x_.ctx = ast.Load()
        if n_ is None:
            return norm(e_)
        fn_params = tuple(a_.arg for a_ in g_.func.args.args) if hasattr(g_, 'func') and hasattr(g_.func, 'args') else ()
        # a local with several definitions that all denote the same place (`g = self.toc[k]` / `g = self.toc[k] = {}`) is that place
        for x_ in list(ast.walk(e2)):
            if isinstance(x_, ast.Name) and x_.id not in fn_params and x_.id != 'self':
                places = set()
                for d_ in g_.reaching_defs(n_, x_.id):
                    if d_.ast is not None and isinstance(d_.ast, ast.Assign) and len(d_.ast.targets) == 2 and any(isinstance(t_, ast.Name) and t_.id == x_.id for t_ in d_.ast.targets):
                        places.add(norm([t_ for t_ in d_.ast.targets if not (isinstance(t_, ast.Name) and t_.id == x_.id)][0]))
                    else:
                        v_ = g_.def_value(d_, x_.id) if d_.ast is not None else None
                        places.add(norm(v_) if v_ is not None else '?')
                if len(places) == 1 and '?' not in places and len(g_.reaching_defs(n_, x_.id)) > 1:
                    x_.id = '(%s)' % places.pop()
        txt = norm(g_.expand_locals(n_, e2, pure_only=False, keep=fn_params))
        return txt.replace('(self.toc[', 'self.toc[').replace('])[', '][') if '(self.toc[' in txt else txt
    ws = [through(gae, s, s.targets[0]) for s in walk_own(ae.node) if isinstance(s, ast.Assign) and norm(s.value) == ep]
    # D.setdefault(k, {})[n] = v  stores under D[k][n] as well
    ws = ['self.toc[%s.group][%s.name]' % (ep, ep) if w.replace(' ', '') in ('self.toc.setdefault(%s.group,{})[%s.name]' % (ep, ep), 'self.toc.setdefault(%s.group,dict())[%s.name]' % (ep, ep)) else w for w in ws]
    ctx.inst(rule, ae, 'store-path', bool(ws) and set(ws) == {'self.toc[%s.group][%s.name]' % (ep, ep)}, 'elements are stored under toc[group][name]; stores %s' % ws)
    ge = toc.method('get_element')
    gge = cfg_of(ge)
    rets = [through(gge, s, s.value) for s in walk_own(ge.node) if isinstance(s, ast.Return) and s.value is not None and not isinstance(s.value, ast.Constant)]
    ctx.inst(rule, ge, 'lookup-path', rets == ['self.toc[%s][%s]' % (ge.params[1], ge.params[2])], 'get_element(group, name) reads toc[group][name]; returns %s' % rets)
    gi = toc.method('get_element_by_id')
    g3 = cfg_of(gi)
    rn = [n for n in g3.nodes if n.kind == 'return' and n.ast.value is not None and not isinstance(n.ast.value, ast.Constant)]
    nx_ = rn[0].ast.value if len(rn) == 1 else None
    if isinstance(nx_, ast.Call) and norm(nx_.func) == 'next' and len(nx_.args) == 2 and isinstance(nx_.args[0], ast.GeneratorExp) and norm(nx_.args[1]) == 'None':
        # next((E for ... if E.ident == ident), None): the first element whose ident equals the argument, None when there is none
        ge_ = nx_.args[0]
        conds_ = [canon_test(c_) for gen_ in ge_.generators for c_ in gen_.ifs]
        okn = fact_key('%s.ident == %s' % (norm(ge_.elt), gi.params[1]))[0] in conds_ and len(conds_) == 1
        ctx.inst(rule, gi, 'by-id-compares-ident', okn, 'get_element_by_id returns the element whose .ident equals the argument (next(.. if e.ident == ident), None))')
        rn = None
    ok = rn is not None and len(rn) == 1 and any(k[0].endswith('.ident == %s' % gi.params[1]) or k[0].startswith('%s == ' % gi.params[1]) and k[0].endswith('.ident') for k in g3.fact_keys_at(rn[0]) if k[1])
    if ok:
        cmps_ = [k[0] for k in g3.fact_keys_at(rn[0]) if k[1] and '.ident' in k[0]]
        ok = any(norm(rn[0].ast.value) + '.ident' in c_ for c_ in cmps_)
    if rn is not None:
        ctx.inst(rule, gi, 'by-id-compares-ident', ok, 'get_element_by_id returns the element whose .ident equals the argument')
    gid = toc.method('get_element_id')
    sp = {norm(s.targets[0]) if not isinstance(s.targets[0], (ast.List, ast.Tuple)) else '[%s]' % ', '.join(norm(e) for e in s.targets[0].elts): norm(s.value)
          for s in walk_own(gid.node) if isinstance(s, ast.Assign)}
    okid = sp.get('[group, name]') == "%s.split('.')" % gid.params[1] and sp.get('element') == 'self.get_element(group, name)' and \
        any(isinstance(s, ast.Return) and s.value is not None and norm(s.value) == 'element.ident' for s in walk_own(gid.node))
    ctx.inst(rule, gid, 'id-of-name', okid, 'get_element_id splits group.name, looks the element up and returns its ident')
    gc = toc.method('get_element_by_complete_name')
    from ..symexec import paths_of
    ps, _ = paths_of(gc, pure=('self.get_element_id',))
    want = 'self.get_element_by_id(self.get_element_id(%s))' % gc.params[1]
    bad = []
    n_ok = 0
    for p_ in ps:
        if p_.outcome[0] != 'return':
            continue
        rv = p_.returned()
        exc = any(not isinstance(o, ast.expr) for _, _, o in p_.conds)
        if rv is not None and norm(rv) == want:
            n_ok += 1
        elif exc and (rv is None or norm(rv) == 'None'):
            continue            # malformed name (ValueError) -> None
        elif (rv is None or norm(rv) == 'None') and all(' is None' in k[0] or 'None is ' in k[0] for k in p_.fact_keys(orig=False)):
            continue            # explicit not-found test on None
        else:
            bad.append((p_.cond_texts(), norm(rv) if rv is not None else None))
    ctx.inst(rule, gc, 'complete-name=composition', n_ok >= 1 and not bad,
             'lookup by complete name must be by-id of id-of-name on every path (index 0 is a valid id: no truthiness test on it); deviating paths %s' % bad)
    # truthiness of a Toc object is used as "table present" by its holders: Toc must not define __len__/__bool__
    holders = []
    for path in (LOG, PAR, TOC):
        for f in m.mod(path).all_funcs():
            for n in ast.walk(f.node):
                if isinstance(n, (ast.If, ast.While)):
                    for x in ast.walk(n.test):
                        if isinstance(x, ast.Attribute) and x.attr == 'toc' and norm(x.value) == 'self' and \
                                (n.test is x or (isinstance(n.test, ast.UnaryOp) and n.test.operand is x) or isinstance(n.test, ast.BoolOp) and any(
                                    v is x or (isinstance(v, ast.UnaryOp) and v.operand is x) for v in n.test.values)):
                            holders.append(f.qualname)
    dunder = [d for d in ('__len__', '__bool__') if toc.has(d)]
    ctx.inst(rule, (TOC, 'Toc'), 'toc-truthiness=presence', not (holders and dunder),
             'Toc defines %s while %s test `self.toc` for truthiness meaning "table object present": an empty table would read as absent '
             '(a duplicated reset reply restarts the download)' % (dunder, sorted(set(holders))))


def ext_fetcher_rules(ctx, rule):
    """Request/answer protocol of _ExtendedTypeFetcher (persistence marker of parameters): one request outstanding, an answer is accepted
    only as MISC_GET_EXTENDED_TYPE reply for the id asked, once; shared with C03 (persistence marker of the TOC)."""
    E = ctx.model.cls('cflib/crazyflie/param.py', '_ExtendedTypeFetcher')
    cbk = E.method('_new_packet_cb')
    g = cfg_of(cbk)
    rel = g.find(lambda q: method_call(q, 'release') and norm(q.func.value) == 'self._lock')
    ctx.need(len(rel) == 1, '_ExtendedTypeFetcher._new_packet_cb: release of the request lock not found')
    keys = g.fact_keys_at(rel[0][0])
    vb = [x for x in g.nodes if x.kind == 'stmt' and isinstance(x.ast, ast.Assign) and norm(x.ast.targets[0]) == 'var_id']
    ctx.inst(rule, cbk, 'ext:id-from-bytes-1..2', len(vb) == 1 and norm(vb[0].ast.value) == "struct.unpack('<H', pk.data[1:3])[0]", 'the answered id is the <H at bytes 1..2 of the reply')
    ctx.inst(rule, cbk, 'ext:reply-needs-channel', fact_key('pk.channel == MISC_CHANNEL') in keys, 'only MISC-channel packets can answer; guards %s' % sorted(keys))
    ctx.inst(rule, cbk, 'ext:reply-needs-command', fact_key('pk.data[0] == MISC_GET_EXTENDED_TYPE') in keys,
             'only a MISC_GET_EXTENDED_TYPE reply can answer (a value-updated notification with the same id must not); guards %s' % sorted(keys))
    ctx.inst(rule, cbk, 'ext:reply-needs-requested-id', fact_key('self._req_param == var_id') in keys, 'only the id that was asked for answers the request')
    rst = [x for x in g.nodes if x.kind == 'stmt' and isinstance(x.ast, ast.Assign) and norm(x.ast.targets[0]) == 'self._req_param' and g.dominates(x, rel[0][0])]
    sent = [fold_in(cbk, x.ast.value) for x in rst]
    ok = len(rst) >= 1 and all((isinstance(v, int) and v < 0) or norm(x.ast.value) == 'None' for v, x in zip(sent, rst))
    ctx.inst(rule, cbk, 'ext:deaf-after-answer', ok, 'the requested id is replaced by a value no reply can carry before the lock is released: a second copy of the answer is ignored; resets %s' % [norm(x.ast) for x in rst])
    dec = [x for x in g.nodes if x.kind == 'stmt' and aug_form(x.ast) and aug_form(x.ast)[0] == 'self._count']
    ok = len(dec) == 1 and aug_form(dec[0].ast)[1] is ast.Sub and fold_in(cbk, aug_form(dec[0].ast)[2]) == 1 and fact_key('self._req_param == var_id') in g.fact_keys_at(dec[0])
    ctx.inst(rule, cbk, 'ext:one-count-per-answer', ok, 'the remaining-answers counter drops by one per accepted answer')
    done = g.find(lambda q: isinstance(q, ast.Call) and norm(q.func) == 'self._done_callback')
    ok = len(done) == 1 and fact_key('self._count == 0') in g.fact_keys_at(done[0][0]) and len(dec) == 1 and g.dominates(dec[0], done[0][0])
    ctx.inst(rule, cbk, 'ext:done-when-all-answered', ok, 'the completion callback runs when the counter reaches 0, after the decrement')
    mp = g.find(lambda q: method_call(q, 'mark_persistent'))
    et = [x for x in g.nodes if x.kind == 'stmt' and isinstance(x.ast, ast.Assign) and norm(x.ast.targets[0]) == 'extended_type']
    ok = len(mp) == 1 and norm(mp[0][1].func.value) == 'self._toc.get_element_by_id(var_id)' and len(et) == 1 and norm(et[0].ast.value) == 'pk.data[3]' and \
        fact_key('extended_type == ParamTocElement.EXTENDED_PERSISTENT') in g.fact_keys_at(mp[0][0]) and fact_key('self._req_param == var_id') in g.fact_keys_at(mp[0][0])
    # the completion callback is what signals `connected`: the marker of the last element has to be in place when it runs
    okm = len(mp) == 1 and len(done) == 1 and g.path_avoiding(done[0][0], [mp[0][0]]) is None
    ctx.inst(rule, cbk, 'ext:marked-before-done', okm, 'no marker is set after the completion callback has run (the table handed to `connected` is final)')
    ctx.inst(rule, cbk, 'ext:marks-element-of-answered-id', ok, 'the element with the answered id is marked persistent exactly when byte 3 is EXTENDED_PERSISTENT')
    run = E.method('run')
    g = cfg_of(run)
    snd = g.find(lambda q: method_call(q, 'send_packet'))
    acq = g.find(lambda q: method_call(q, 'acquire') and norm(q.func.value) == 'self._lock')
    get = g.find(lambda q: method_call(q, 'get') and norm(q.func.value) == 'self.request_queue')
    ctx.need(len(snd) == 1 and len(acq) == 1 and len(get) == 1, '_ExtendedTypeFetcher.run: get/acquire/send not found')
    st = [x for x in g.nodes if x.kind == 'stmt' and isinstance(x.ast, ast.Assign) and norm(x.ast.targets[0]) == 'self._req_param']
    ok = not acq[0][1].args and not acq[0][1].keywords and g.dominates(get[0][0], acq[0][0]) and g.dominates(acq[0][0], snd[0][0]) and fact_key('self._cf.link') in g.fact_keys_at(snd[0][0])
    ctx.inst(rule, run, 'ext:send-after-untimed-acquire', ok, 'each request is sent after dequeue and an untimed acquire of the request lock, with a link')
    ok = len(st) == 1 and g.dominates(st[0], snd[0][0]) and norm(st[0].ast.value) == "struct.unpack('<H', pk.data[1:3])[0]" and norm(snd[0][1].args[0]) == 'pk' and \
        [norm(k.value) for k in snd[0][1].keywords if k.arg == 'expected_reply'] == ['tuple(pk.data[:3])']
    ctx.inst(rule, run, 'ext:id-published-before-send', ok, 'the id asked for is stored (bytes 1..2 of the request) before the request goes out, the expected reply is its first 3 bytes')
    rr = g.find(lambda q: method_call(q, 'release') and norm(q.func.value) == 'self._lock')
    ctx.inst(rule, run, 'ext:release-only-without-link', len(rr) == 1 and fact_key('self._cf.link', False) in g.fact_keys_at(rr[0][0]), 'run gives the lock back only when there is no link')
    others = sorted(f.name for f in E.methods.values() for c in walk_own(f.node) if method_call(c, 'release') and norm(c.func.value) == 'self._lock')
    ctx.inst(rule, E.method('_close'), 'ext:release-sites', others == ['_close', '_new_packet_cb', 'run'], 'the request lock is released by an answer, on close and on the no-link branch only; sites %s' % others)
    rq = E.method('request_extended_types')
    cnt = [norm(x.value) for x in walk_own(rq.node) if isinstance(x, ast.Assign) and norm(x.targets[0]) == 'self._count']
    lp = [x for x in walk_own(rq.node) if isinstance(x, ast.For)]
    ok = cnt == ['len(%s)' % rq.params[1]] and len(lp) == 1 and norm(lp[0].iter) == rq.params[1]
    if ok:
        el = norm(lp[0].target)
        body = [norm(x) for x in effective(lp[0].body)]
        ok = "pk.data = struct.pack('<BH', MISC_GET_EXTENDED_TYPE, %s.ident)" % el in body and 'pk.set_header(CRTPPort.PARAM, MISC_CHANNEL)' in body and body[-1] == 'self.request_queue.put(pk)' \
            and body[0] == 'pk = CRTPPacket()'
    ctx.inst(rule, rq, 'ext:one-request-per-element', ok, 'counter = number of elements; one fresh (MISC, GET_EXTENDED_TYPE, element.ident) request queued per element')
    ini = E.method('__init__')
    i0 = [fold_in(ini, x.value) for x in walk_own(ini.node) if isinstance(x, ast.Assign) and norm(x.targets[0]) == 'self._req_param']
    ctx.inst(rule, ini, 'ext:no-request-initially', len(i0) == 1 and isinstance(i0[0], int) and i0[0] < 0, 'before the first request no id is accepted; initial %s' % i0)


def param_name_terms(init):
    """Abstract evaluation of the name decoding in ParamTocElement.__init__: which term each of self.group / self.name holds, in the
    vocabulary  chars(B) = the bytes of B as 1-byte strings, text(X) = their ISO-8859-1 decoding joined, fields(T) = T split at NUL.
    Accepts the accumulation loop, ''.join(generator) and bytes.decode spellings.  -> {target text: (term, index)}"""
    env, out = {}, {}

    def term(e):
        if isinstance(e, ast.Name):
            return env.get(e.id)
        if isinstance(e, ast.Subscript) and isinstance(e.value, ast.Name) and isinstance(env.get(e.value.id), str) and env[e.value.id].startswith('fields(') \
                and isinstance(e.slice, ast.Constant) and isinstance(e.slice.value, int):
            return (env[e.value.id], e.slice.value)
        if isinstance(e, ast.Call) and dotted(e.func) == 'struct.unpack' and len(e.args) == 2 and norm(e.args[0]).replace(' ', '') == "'s'*len(%s)" % norm(e.args[1]).replace(' ', ''):
            return 'chars(%s)' % norm(e.args[1])
        if isinstance(e, ast.Call) and isinstance(e.func, ast.Attribute):
            if e.func.attr == 'split' and [norm(a) for a in e.args] in (["'\\x00'"], ["'\\0'"]):
                t = term(e.func.value)
                return 'fields(%s)' % t if isinstance(t, str) and t.startswith('text(') else None
            if e.func.attr == 'join' and isinstance(e.func.value, ast.Constant) and e.func.value.value == '' and len(e.args) == 1 and \
                    isinstance(e.args[0], (ast.GeneratorExp, ast.ListComp)) and len(e.args[0].generators) == 1 and not e.args[0].generators[0].ifs:
                g_ = e.args[0].generators[0]
                src = term(g_.iter)
                if isinstance(src, str) and src.startswith('chars(') and norm(e.args[0].elt) == "%s.decode('ISO-8859-1')" % norm(g_.target):
                    return 'text(%s)' % src
            if e.func.attr == 'decode' and [norm(a) for a in e.args] == ["'ISO-8859-1'"] and isinstance(e.func.value, ast.Subscript):
                return 'text(chars(%s))' % norm(e.func.value)
        if isinstance(e, ast.Constant) and e.value == '':
            return "''"
        return None

    def run(stmts):
        for st in stmts:
            if isinstance(st, ast.Assign) and len(st.targets) == 1:
                t = st.targets[0]
                v = term(st.value)
                if isinstance(t, ast.Name):
                    env[t.id] = v
                elif isinstance(t, ast.Attribute) and v is not None:
                    out[norm(t)] = v
            elif isinstance(st, ast.For) and isinstance(st.target, ast.Name) and len(st.body) == 1 and aug_form(st.body[0]):
                acc, op, val = aug_form(st.body[0])
                src = term(st.iter)
                if env.get(acc) == "''" and op is ast.Add and isinstance(src, str) and src.startswith('chars(') and norm(val) == "%s.decode('ISO-8859-1')" % st.target.id:
                    env[acc] = 'text(%s)' % src
            elif isinstance(st, ast.If):
                run(st.body)
    run(init.node.body)
    return out



def param_type_table_rules(ctx, rule='R6'):
    """ParamTocElement.types: the struct format of every type code has the size (1 << (code & 3)), floatness (bit 2) and signedness
    (bit 3) the code says, and the C name agrees.  Shared with C04 (a value is packed/unpacked with the declared type: range check and
    sign come from this table)."""
    m = ctx.model
    pe = m.cls(PAR, 'ParamTocElement')
    types = fold_in(pe.method('__init__'), pe.consts['types'])
    ctx.need(isinstance(types, dict), 'ParamTocElement.types not foldable')
    cnames = {(1, False, False): 'int8_t', (2, False, False): 'int16_t', (4, False, False): 'int32_t', (8, False, False): 'int64_t',
              (1, False, True): 'uint8_t', (2, False, True): 'uint16_t', (4, False, True): 'uint32_t', (8, False, True): 'uint64_t',
              (4, True, False): 'float', (8, True, False): 'double'}
    for code, (cname, fmt) in sorted(types.items()):
        if code == 0x05:
            ctx.inst(rule, (PAR, 'ParamTocElement'), 'param-type:0x05', (cname, fmt) == ('FP16', ''), 'FP16 carries no struct format (reviewed exception)')
            continue
        size = 1 << (code & 3)
        is_float = bool(code & 4)
        unsigned = bool(code & 8)
        try:
            fsize = struct.calcsize(fmt)
        except struct.error:
            fsize = None
        letter = fmt[-1:] if fmt else ''
        ok = fmt[:1] == '<' and fsize == size and (letter in 'fd') == is_float and (is_float or (letter.isupper() == unsigned)) and \
            cnames.get((size, is_float, unsigned)) == cname
        ctx.inst(rule, (PAR, 'ParamTocElement'), 'param-type:0x%02X' % code, ok,
                 'type 0x%02X (%d bytes, float=%s, unsigned=%s) mapped to (%s, %s)' % (code, size, is_float, unsigned, cname, fmt))
    ctx.inst(rule, (PAR, 'ParamTocElement'), 'param-type-set', set(types) == {0, 1, 2, 3, 5, 6, 7, 8, 9, 10, 11}, 'type codes present: %s' % sorted(types))


def param_metadata_rules(ctx, rule='R6'):
    """ParamTocElement.__init__: the metadata byte is split into type (low nibble, every row of the type table reachable),
    extended marker (bit 4) and read-only marker (bit 6).  Shared with C04: the declared type and the read-only refusal of a
    write come from here."""
    m = ctx.model
    pe = m.cls(PAR, 'ParamTocElement')
    init = pe.method('__init__')
    masks = {}
    for n in ast.walk(init.node):
        if isinstance(n, ast.BinOp) and isinstance(n.op, ast.BitAnd) and norm(n.left) == 'metadata':
            masks[fold_in(init, n.right)] = True
    ctx.inst(rule, init, 'param-masks', set(masks) == {0x0F, 0x10, 0x40}, 'metadata masks %s, expected type 0x0F, extended 0x10, read-only 0x40' % sorted(masks))
    sts = {norm(s.targets[0]): s for s in sorted([x for x in walk_own(init.node) if isinstance(x, ast.Assign)], key=lambda x: x.lineno)}
    # `self.ctype, self.pytype = self.types[k]` is the two indexed reads
    for s_ in [x for x in walk_own(init.node) if isinstance(x, ast.Assign) and isinstance(x.targets[0], (ast.Tuple, ast.List)) and not isinstance(x.value, (ast.Tuple, ast.List))]:
        for i_, t_ in enumerate(s_.targets[0].elts):
            sts.setdefault(norm(t_), ast.copy_location(ast.Assign(targets=[t_], value=ast.Subscript(value=s_.value, slice=ast.Constant(value=i_), ctx=ast.Load())), s_))
    ctx.need('self.ctype' in sts and 'self.pytype' in sts, 'ParamTocElement.__init__: stores of ctype / pytype not found')
    ctx.inst(rule, init, 'param-extended-bit', 'self.extended' in sts and (canon_test(sts['self.extended'].value) in (fact_key('metadata & 16 != 0')[0], 'not ' + fact_key('metadata & 16 == 0')[0], 'not 0 == metadata & 16') or norm(sts['self.extended'].value) == 'bool(metadata & 16)'),
             'extended marker = bit 4; found %s' % (norm(sts['self.extended'].value) if 'self.extended' in sts else None))
    g2 = cfg_of(init)
    ro = [n for n in g2.nodes if n.kind == 'stmt' and isinstance(n.ast, ast.Assign) and norm(n.ast.targets[0]) == 'self.access']
    okro = len(ro) == 2
    for n in ro:
        want_ro = fact_key('metadata & 64 != 0', True) in g2.fact_keys_at(n)
        v_ = n.ast.value                                       # the class constant by value, however the class is named at the site
        cname = v_.attr if isinstance(v_, ast.Attribute) and isinstance(v_.value, ast.Name) and v_.value.id in ('self', 'ParamTocElement', 'cls') else None
        okro = okro and cname == ('RO_ACCESS' if want_ro else 'RW_ACCESS')
    ctx.inst(rule, init, 'param-readonly-bit', okro, 'access = RO iff bit 6 set')
    # the numbers behind the two names are written into the TOC cache files ("access": 0 / 1) that clients ship and keep across
    # library versions: renumbering them makes every cached read-only parameter writable and every writable one refused
    acc = {n_: fold_in(init, pe.consts[n_]) if n_ in pe.consts else None for n_ in ('RW_ACCESS', 'RO_ACCESS')}
    ctx.inst(rule, (PAR, 'ParamTocElement'), 'access-numbers-are-the-cache-format', acc == {'RW_ACCESS': 0, 'RO_ACCESS': 1},
             'RW_ACCESS / RO_ACCESS are 0 / 1 in stored TOC caches; found %s' % acc)
    def _thru(st_):
        n_ = g2.node_of(st_.value)
        return norm(g2.expand_locals(n_, st_.value, pure_only=False, keep=('metadata', 'data'))) if n_ is not None else norm(st_.value)
    ctx.inst(rule, init, 'param-type-lookup', _thru(sts['self.ctype']) == 'self.types[metadata & 15][0]' and
             _thru(sts['self.pytype']) == 'self.types[metadata & 15][1]', 'ctype/pytype come from columns 0/1 of the type row')


def log_type_table_rules(ctx, rule='R6'):
    """LogTocElement.types against the firmware's log.h (code -> C type, size) and the column getters.  Shared with C05: the
    size and the decoding of every logged value come from this table."""
    m = ctx.model
    le = m.cls(LOG, 'LogTocElement')
    ltypes = fold_in(le.method('__init__'), le.consts['types'])
    ctx.need(isinstance(ltypes, dict), 'LogTocElement.types not foldable')
    for code, (cname, fmt, size) in sorted(ltypes.items()):
        fw = FW_LOG_TYPES.get(code)
        try:
            fsize = struct.calcsize(fmt)
        except struct.error:
            fsize = None
        ok = fw == (cname, size) and fsize == size and fmt[:1] == '<'
        if ok and cname not in ('float', 'FP16'):
            ok = fmt[-1].isupper() == cname.startswith('u')
        if ok and cname == 'float':
            ok = fmt == '<f'
        if ok and cname == 'FP16':
            ok = fmt == '<e'
        ctx.inst(rule, (LOG, 'LogTocElement'), 'log-type:%d' % code, ok, 'log type %d = (%s, %s, %s); firmware log.h: %s' % (code, cname, fmt, size, fw))
    ctx.inst(rule, (LOG, 'LogTocElement'), 'log-type-set', set(ltypes) == set(FW_LOG_TYPES), 'log type codes %s' % sorted(ltypes))
    for getter, col in (('get_cstring_from_id', 0), ('get_unpack_string_from_id', 1), ('get_size_from_id', 2)):
        f = le.method(getter)
        gf_ = cfg_of(f)
        rets = [norm(gf_.expand_locals(gf_.node_of(s), s.value, pure_only=False, keep=tuple(f.params))) if gf_.node_of(s) is not None else norm(s.value)
                for s in walk_own(f.node) if isinstance(s, ast.Return) and s.value is not None]
        ctx.inst(rule, f, 'log-column', rets == ['LogTocElement.types[%s][%d]' % (f.params[0], col)], '%s returns %s, expected column %d' % (getter, rets, col))
    li = le.method('__init__')
    lst = {norm(s.targets[0]): norm(s.value) for s in sorted([x for x in walk_own(li.node) if isinstance(x, ast.Assign)], key=lambda x: x.lineno)}
    ctx.inst(rule, li, 'log-type-from-byte-0', lst.get('self.ctype') == 'LogTocElement.get_cstring_from_id(data[0])' and
             lst.get('self.pytype') == 'LogTocElement.get_unpack_string_from_id(data[0])', 'type comes from byte 0 of the element data')



def generation_switch_rules(ctx, rule='R5'):
    """Every place that chooses between the legacy and the current protocol generation (`self._useV2 = ...`, in the table
    fetcher, the log and the parameter subsystem) switches at protocol version 4: the fetcher, the requester and the decoder of one
    connection must agree on the index width.  Shared with C04 (write / read index) and C05 (block records)."""
    m = ctx.model
    sites = []
    PS = m.cls('cflib/crazyflie/platformservice.py', 'PlatformService')

    def v2_threshold(expr):
        """smallest protocol version for which the generation switch `expr` is true: `version >= k` -> k, `version > k` -> k + 1; the
        version may be read through get_protocol_version() or through a one-line PlatformService predicate"""
        e = expr
        if isinstance(e, ast.Call) and isinstance(e.func, ast.Attribute) and norm(e.func.value).endswith('.platform') and not e.args and PS.has(e.func.attr) \
                and e.func.attr != 'get_protocol_version':
            body = effective(PS.method(e.func.attr).node.body)
            if len(body) == 1 and isinstance(body[0], ast.Return) and body[0].value is not None:
                e = body[0].value
        if isinstance(e, ast.Compare) and len(e.ops) == 1:
            def is_version(x):
                return norm(x).endswith('get_protocol_version()') or norm(x) in ('self._protocolVersion', 'self._protocol_version')
            k = fold(e.comparators[0], Scope(m.mod('cflib/crazyflie/platformservice.py'), PS)) if is_version(e.left) else \
                fold(e.left, Scope(m.mod('cflib/crazyflie/platformservice.py'), PS)) if is_version(e.comparators[0]) else None
            if isinstance(k, int):
                op = type(e.ops[0])
                if not is_version(e.left):
                    op = {ast.Lt: ast.Gt, ast.LtE: ast.GtE, ast.Gt: ast.Lt, ast.GtE: ast.LtE}.get(op, op)
                return {ast.GtE: k, ast.Gt: k + 1}.get(op)
        return None
    for path in (TOC, LOG, PAR):
        for f in m.mod(path).all_funcs():
            for s_ in walk_own(f.node):
                if isinstance(s_, ast.Assign) and norm(s_.targets[0]) == 'self._useV2' and 'platform' in norm(s_.value):
                    sites.append((f, s_.value))
    ctx.need(len(sites) >= 4, 'expected >= 4 protocol-generation switches, found %d' % len(sites))
    for f, v in sites:
        th = v2_threshold(v)
        ctx.inst(rule, f, 'v2-switch', th == 4, 'generation switch `%s` is true from protocol version %s on, expected 4' % (norm(v), th))



def fetch_completion_rules(ctx, rule, fetcher, cb, g, reqs):
    """The download is declared complete on exactly three branches - usable cache hit, empty table, last index answered - and a miss
    with a non-empty table requests element 0, then the next one while more remain.  Shared with C02 (connected is signalled only
    when the tables are complete)."""
    fins = g.find(lambda n: method_call(n, '_toc_fetch_finished'))
    ctx.need(len(fins) >= 3, '_new_packet_cb: expected 3 completion sites, found %d' % len(fins))
    # the branch that adopts the cached table: `self.toc.toc = <cache result>`
    adopt = [n for n in g.nodes if n.kind == 'stmt' and isinstance(n.ast, ast.Assign) and norm(n.ast.targets[0]) == 'self.toc.toc']
    ctx.need(len(adopt) == 1, '_new_packet_cb: adoption of the cached table not found')
    hit_edges = [e for e in g.dominating_edges(adopt[0]) if e.label and e.label[0] == 'cond' and norm(adopt[0].ast.value) in norm(e.label[1])]
    ctx.need(len(hit_edges) == 1, '_new_packet_cb: cache-hit test not recognised')
    hit_edge = hit_edges[0]
    miss_edge = [e for e in hit_edge.src.succ if e.label and e.label[0] == 'cond' and e is not hit_edge][0]

    def on(edge, n):
        return ('e', edge.id) in (g.dom().get(('n', n.id)) or ())
    kinds = set()
    for n, x in fins:
        keys = g.fact_keys_at(n)
        if on(hit_edge, n):
            k = 'cache-hit'
        elif fact_key('self.nbr_of_items > 0', False) in keys and on(miss_edge, n):
            k = 'empty-table'
        elif fact_key('self.requested_index < self.nbr_of_items - 1', False) in keys and fact_key('ident != self.requested_index', False) in keys:
            k = 'last-index'
        else:
            k = 'unexpected@%d' % n.line
            ctx.inst(rule, cb, 'completion:' + k, False, 'download completion signalled under %s' % sorted(keys))
            continue
        kinds.add(k)
        ctx.inst(rule, cb, 'completion:' + k, True, 'completion on the %s branch' % k)
    ctx.inst(rule, cb, 'completion-branches', kinds == {'cache-hit', 'empty-table', 'last-index'}, 'completion branches found: %s' % sorted(kinds))
    more = [(n, x) for n, x in reqs if fact_key('self.requested_index < self.nbr_of_items - 1', True) in g.fact_keys_at(n)]
    ctx.inst(rule, cb, 'continue-while-more', len(more) == 1, 'the next element is requested while requested_index < nbr_of_items - 1')
    first = [(n, x) for n, x in reqs if fact_key('self.nbr_of_items > 0', True) in g.fact_keys_at(n) and on(miss_edge, n)]
    ctx.inst(rule, cb, 'miss-starts-download', len(first) == 1, 'a cache miss with a non-empty table requests element 0')
    z = [n for n in g.nodes if n.kind == 'stmt' and isinstance(n.ast, ast.Assign) and norm(n.ast.targets[0]) == 'self.requested_index']
    ctx.inst(rule, cb, 'download-starts-at-0', len(z) == 1 and fold_in(cb, z[0].ast.value) == 0, 'download starts at index 0')


def check(ctx):
    m = ctx.model
    fetcher, cb, g, pkv, adds, reqs = fetch_guard_rules(ctx, 'R1')
    advs = g.find(lambda n: isinstance(n, ast.AugAssign) and norm(n.target) == 'self.requested_index')

    # ---- R2: V1/V2 pairing -------------------------------------------------------------
    start = fetcher.method('start')
    rq = fetcher.method('_request_toc_element')
    want = {
        True: {'info_cmd': 'CMD_TOC_INFO_V2', 'info_fmt': '<HI', 'item_cmd': 'CMD_TOC_ITEM_V2', 'id_width': 2},
        False: {'info_cmd': 'CMD_TOC_INFO', 'info_fmt': '<BI', 'item_cmd': 'CMD_TOC_ELEMENT', 'id_width': 1},
    }
    cmdval = {'CMD_TOC_ELEMENT': 0, 'CMD_TOC_INFO': 1, 'CMD_TOC_ITEM_V2': 2, 'CMD_TOC_INFO_V2': 3}
    for name, val in cmdval.items():
        got = fold(ast.Name(id=name, ctx=ast.Load()), Scope(m.mod(TOC)))
        ctx.inst('R2', (TOC, ''), 'cmd:' + name, got == val, '%s is %s, protocol value %d' % (name, got, val))
    for fn in (start, rq):
        ps, _ = paths_of(fn)
        for p in ps:
            v2 = fact_key('self._useV2', True) in p.fact_keys()
            for e in p.calls(lambda c: method_call(c, 'send_packet')):
                kw = {k.arg: k.value for k in e.node.keywords}
                stores = {norm(x.node.targets[0]): x.node.value for x in p.events if x.kind == 'store'}
                data = stores.get('pk.data')
                er = kw.get('expected_reply')
                ok = data is not None and er is not None and norm(er) == norm(data)
                ctx.inst('R2', fn, 'expected-reply=request[%s]' % ('V2' if v2 else 'V1'), ok,
                         'expected reply %s must equal the request bytes %s' % (norm(er) if er is not None else None, norm(data) if data is not None else None))
                first = norm(data.elts[0]) if isinstance(data, ast.Tuple) and data.elts else None
                wantcmd = want[v2]['info_cmd'] if fn is start else want[v2]['item_cmd']
                ctx.inst('R2', fn, 'command[%s]' % ('V2' if v2 else 'V1'), first == wantcmd, 'request command %s, expected %s' % (first, wantcmd))
    # reply decoding per generation
    ups = g.find(lambda n: isinstance(n, ast.Call) and dotted(n.func) in ('struct.unpack', 'struct.unpack_from'))
    seen_info = set()
    for n, c in ups:
        keys = g.fact_keys_at(n)
        # the format may be chosen first and carried in a local: one (generation, format) pair per binding of that local
        pairs = []
        if isinstance(c.args[0], ast.Name) and g.reaching_defs(n, c.args[0].id):
            for d_ in g.reaching_defs(n, c.args[0].id):
                dv_ = g.def_value(d_, c.args[0].id) if d_.ast is not None else None
                dk_ = g.fact_keys_at(d_) | keys
                v2_ = True if fact_key('self._useV2', True) in dk_ else False if fact_key('self._useV2', False) in dk_ else None
                pairs.append((v2_, fold_in(cb, dv_) if dv_ is not None else None))
        else:
            pairs.append((fact_key('self._useV2', True) in keys, fold_in(cb, c.args[0])))
        for v2, fmt in pairs:
            if fact_key('self.state == GET_TOC_INFO', True) in keys:
                ok_ = v2 is not None and fmt == want[bool(v2)]['info_fmt']
                seen_info.add(bool(v2))
                ctx.inst('R2', cb, 'info-format[%s]' % ('V2' if v2 else 'V1'), ok_, 'info reply decoded with %r, expected %r' % (fmt, want[bool(v2)]['info_fmt']))
            else:
                ctx.inst('R2', cb, 'id-format[V2]', bool(v2) and fmt == '<H', 'element index decoded with %r under V2=%s' % (fmt, v2))
    ctx.need(seen_info == {True, False}, '_new_packet_cb: decoding of the info reply not found for both protocol generations (%s)' % sorted(seen_info))
    def branches(node, expr, depth=0):
        """[(nodes whose facts apply, expression)]: a local with several reaching plain assignments is followed into each of them"""
        if isinstance(expr, ast.Name) and depth < 3:
            ds = [d for d in g.reaching_defs(node, expr.id) if isinstance(d.ast, ast.Assign)]
            if ds:
                out = []
                for d in ds:
                    for ns, e in branches(d, d.ast.value, depth + 1):
                        out.append(([node, d] + ns, e))
                return out
        return [([node], expr)]
    for n, x in adds:
        a = x.args[0]
        arg = a.args[1] if isinstance(a, ast.Call) and len(a.args) > 1 else None
        ctx.need(arg is not None, '_new_packet_cb: element constructor call not recognised')
        for ns1, sl in branches(n, arg):
            low = sl.slice.lower if isinstance(sl, ast.Subscript) and isinstance(sl.slice, ast.Slice) and sl.slice.lower else None
            for ns2, lo_e in (branches(ns1[-1], low) if low is not None else [([], None)]):
                keys = set()
                for q in ns1 + ns2:
                    keys |= set(g.fact_keys_at(q))
                v2 = fact_key('self._useV2', True) in keys
                lo = fold_in(cb, lo_e) if lo_e is not None else None
                ctx.inst('R2', cb, 'element-offset[%s]' % ('V2' if v2 else 'V1'), lo == want[v2]['id_width'] and isinstance(sl, ast.Subscript) and sl.slice.upper is None and
                         norm(sl.value) == 'payload' and (v2 or fact_key('self._useV2', False) in keys),
                         'element data must start after the %d index byte(s) of the payload; slice %s' % (want[v2]['id_width'], norm(sl)))
    pl = [s for s in walk_own(cb.node) if isinstance(s, ast.Assign) and norm(s.targets[0]) == 'payload']
    ctx.inst('R2', cb, 'payload=data[1:]', len(pl) == 1 and norm(pl[0].value) == '%s.data[1:]' % pkv, 'payload skips the command byte')

    # ---- R3 --------------------------------------------------------------------------------
    slice_rule(ctx)

    # ---- R4: index split --------------------------------------------------------------------
    grq = cfg_of(rq)
    uses = []                                  # (role, node, expression): the request bytes as payload and as expected reply
    for n in grq.nodes:
        if n.kind == 'stmt' and isinstance(n.ast, ast.Assign) and norm(n.ast.targets[0]).endswith('.data'):
            uses.append(('data', n, n.ast.value))
        for c in (walk_own(n.ast) if n.kind == 'stmt' else []):
            if method_call(c, 'send_packet'):
                uses.extend(('expected_reply', n, k.value) for k in c.keywords if k.arg == 'expected_reply')
    for role, n, e in uses:
        # the tuple may be bound to a local first (one per protocol branch): look through it, per reaching definition
        cands = []
        if isinstance(e, ast.Name):
            for d in grq.reaching_defs(n, e.id):
                dv = grq.def_value(d, e.id)
                if dv is not None and fact_key('self._useV2', False) not in grq.fact_keys_at(d):
                    cands.append(grq.expand_locals(d, dv))
        elif fact_key('self._useV2', False) not in grq.fact_keys_at(n):
            cands.append(grq.expand_locals(n, e))
        for c in cands:
            if not (isinstance(c, ast.Tuple) and len(c.elts) == 3 and norm(c.elts[0]) == 'CMD_TOC_ITEM_V2'):
                if isinstance(c, ast.Tuple) and len(c.elts) == 2:
                    continue                   # the V1 request, selected by a conditional expression
                ctx.inst('R4', rq, 'index-split-little-endian:' + role, False, 'the V2 element request is (CMD_TOC_ITEM_V2, index low, index high); found %s' % norm(c))
                continue
            lo = B_.evaluate(c.elts[1], Scope.of(rq), {'index': 'index'})
            hi = B_.evaluate(c.elts[2], Scope.of(rq), {'index': 'index'})
            ok = B_.is_input_field(lo, 0, 8, 'index', 0) and all(b == 0 for b in lo[8:]) and \
                B_.is_input_field(hi, 0, 8, 'index', 8) and all(b == 0 for b in hi[8:])
            ctx.inst('R4', rq, 'index-split-little-endian:' + role, ok, 'request bytes must be index[7:0], index[15:8]; low=%s high=%s' % (B_.describe(lo, 8), B_.describe(hi, 8)))

    # ---- R5: version switch -----------------------------------------------------------------------
    generation_switch_rules(ctx, 'R5')

    # ---- R6: type tables ----------------------------------------------------------------------------
    pe = m.cls(PAR, 'ParamTocElement')
    init = pe.method('__init__')
    param_type_table_rules(ctx, 'R6')
    param_metadata_rules(ctx, 'R6')
    log_type_table_rules(ctx, 'R6')
    le = m.cls(LOG, 'LogTocElement')
    li = le.method('__init__')
    lst = {norm(s.targets[0]): norm(s.value) for s in sorted([x for x in walk_own(li.node) if isinstance(x, ast.Assign)], key=lambda x: x.lineno)}
    # ---- R7: names -----------------------------------------------------------------------------------
    ctx.inst('R7', li, 'log-skip-metadata', lst.get('naming') == 'data[1:]', 'names start after the one metadata byte')
    # (the position of the NUL may be kept in a local: the stored expressions are read with the locals - all but `naming` - written out)
    gli = cfg_of(li)

    def written_out(attr):
        ns_ = [n_ for n_ in gli.nodes if n_.kind == 'stmt' and isinstance(n_.ast, ast.Assign) and norm(n_.ast.targets[0]) == attr]
        return norm(gli.expand_locals(ns_[0], ns_[0].ast.value, keep=('naming', 'data'), pure_only=False)) if len(ns_) == 1 else None
    ctx.inst('R7', li, 'log-group', written_out('self.group') == "naming[:naming.find(bytearray((0,)))].decode('ISO-8859-1')",
             'group = bytes before the first NUL; found %s' % written_out('self.group'))
    ctx.inst('R7', li, 'log-name', written_out('self.name') == "naming[naming.find(bytearray((0,))) + 1:-1].decode('ISO-8859-1')",
             'name = bytes between the first NUL and the final NUL; found %s' % written_out('self.name'))
    ctx.inst('R7', li, 'log-ident', lst.get('self.ident') == 'ident', 'element index = constructor argument')
    pst = {norm(s.targets[0]): norm(s.value) for s in sorted([x for x in walk_own(init.node) if isinstance(x, ast.Assign)], key=lambda x: x.lineno)}
    pall = {(norm(x.targets[0]), norm(x.value)) for x in walk_own(init.node) if isinstance(x, ast.Assign)}
    names = param_name_terms(init)
    ctx.inst('R7', init, 'param-skip-metadata', names.get('self.group', ('', 0))[0] == 'fields(text(chars(data[1:])))' and ('metadata', 'data[0]') in pall,
             'names start after the one metadata byte, metadata = byte 0; group is %s' % (names.get('self.group'),))
    ctx.inst('R7', init, 'param-split', names.get('self.group') == ('fields(text(chars(data[1:])))', 0) and names.get('self.name') == ('fields(text(chars(data[1:])))', 1),
             'group, name = first and second NUL separated strings of the ISO-8859-1 text; found %s / %s' % (names.get('self.group'), names.get('self.name')))
    ctx.inst('R7', init, 'param-ident', pst.get('self.ident') == 'ident', 'element index = constructor argument')

    toc_lookup_rules(ctx, 'R8')
    from .c11 import cache_name_rules
    cache_name_rules(ctx, 'R10')       # cache present: only a table stored under exactly the announced CRC may be adopted
    from .c11 import cached_table_adoption_rule
    cached_table_adoption_rule(ctx, 'R11')
    ext_fetcher_rules(ctx, 'R11')      # persistence marker: the extended-type pass (shared with C04.R10)
    session_object_rules(ctx, 'R11')   # ... on the table of this connection (shared with C04.R13)
    from .c11 import cache_codec_rules
    from .c07 import port_registration_rules
    port_registration_rules(ctx, 'R13')    # a finished fetcher really unregisters: port (un)registration agree on all five fields (shared with C07.R6)
    cache_codec_rules(ctx, 'R12')      # cache present: cached elements carry every attribute, `extended` included (shared with C11.R4)

    # ---- R9: completion ------------------------------------------------------------------------------------------
    fetch_completion_rules(ctx, 'R9', fetcher, cb, g, reqs)
    ff = fetcher.method('_toc_fetch_finished')
    body = [norm(s.value) for s in ff.node.body if isinstance(s, ast.Expr) and isinstance(s.value, ast.Call)]
    def calls_through(fn_, depth=0):
        """call texts of a method, own argument-less helpers of the class looked through"""
        out = []
        for s_ in fn_.node.body:
            if isinstance(s_, ast.Expr) and isinstance(s_.value, ast.Call):
                c_ = s_.value
                if depth < 2 and isinstance(c_.func, ast.Attribute) and norm(c_.func.value) == 'self' and not c_.args and not c_.keywords and fetcher.has(c_.func.attr):
                    out += calls_through(fetcher.method(c_.func.attr), depth + 1)
                else:
                    out.append(norm(c_))
        return out
    body = calls_through(ff)
    ctx.inst('R9', ff, 'finish', 'self.cf.remove_port_callback(self.port, self._new_packet_cb)' in body and body[-1] == 'self.finished_callback()',
             'finishing unregisters the packet callback and calls the completion callback last')
    fetcher_unsubscribe_rules(ctx, 'R9')
    # ... and the memory stage of the connection sequence forgets its continuation when the link drops: a late reply of the lost
    # session must not start the parameter download of the new one (while its log table is still being fetched)
    MEMP = 'cflib/crazyflie/mem/__init__.py'
    memk = m.cls(MEMP, 'Memory')

    def clears(fn_, attr, depth=2):
        for s_ in fn_.node.body:
            if isinstance(s_, ast.Assign) and any(norm(t_) == attr for t_ in s_.targets) and isinstance(s_.value, ast.Constant) and s_.value.value is None:
                return True
            if depth and isinstance(s_, ast.Expr) and isinstance(s_.value, ast.Call) and isinstance(s_.value.func, ast.Attribute) and norm(s_.value.func.value) == 'self' and \
                    memk.has(s_.value.func.attr) and clears(memk.method(s_.value.func.attr), attr, depth - 1):
                return True
        return False
    mdis = memk.method('_disconnected')
    for attr in ('self._refresh_callback', 'self._refresh_failed_callback'):
        ctx.inst('R9', mdis, 'link-loss-forgets:' + attr.split('.')[-1], clears(mdis, attr), 'Memory._disconnected sets %s to None on every path (directly or through the helpers it '
                 'calls unconditionally): a stale memory-count reply otherwise continues the connection sequence of the next session' % attr)
    from .c07 import caller_rules, removal_predicate_rules
    caller_rules(ctx, 'R9')              # ... and its `disconnected` hook is reached although an earlier listener un-registers itself during the call (shared with C07.R2)
    removal_predicate_rules(ctx, 'R9')   # ... and the un-registration of its packet callback (a bound method) finds it: == not `is` (shared with C07.R4)
    rt = m.func(PAR, 'Param.refresh_toc')
    rd = rt.nested('refresh_done')
    g4 = cfg_of(rd)
    direct = g4.find(lambda n: isinstance(n, ast.Call) and norm(n.func) == 'refresh_done_callback')
    handed = g4.find(lambda n: method_call(n, 'set_callback') and [norm(a) for a in n.args] == ['refresh_done_callback'])
    ok = len(direct) == 1 and len(handed) == 1 and bool(nonempty_keys('extended_elements', False) & set(g4.fact_keys_at(direct[0][0]))) and \
        bool(nonempty_keys('extended_elements', True) & set(g4.fact_keys_at(handed[0][0])))
    ctx.inst('R9', rd, 'extended-pass', ok, 'completion is called directly only when no element is extended, otherwise handed to the extended-type fetcher')
    # every extended element of every group is asked for its extended type - selected by is_extended() alone (a further condition,
    # on the access mode say, leaves the persistence marker of the others unset)
    app = g4.find(lambda n: method_call(n, 'append') and norm(n.func.value) == 'extended_elements')
    oka = len(app) == 1 and len(app[0][1].args) == 1 and isinstance(app[0][1].args[0], ast.Name)
    if oka:
        ev = app[0][1].args[0].id
        loops_ = [l for l in walk_own(rd.node) if isinstance(l, ast.For)]
        oka = g4.fact_keys_at(app[0][0]) == {fact_key('%s.is_extended()' % ev, True)} and \
            [norm(l.iter) for l in loops_] == ['self.toc.toc', 'self.toc.toc[%s].values()' % (norm(loops_[0].target) if loops_ else '?')] and norm(loops_[1].target) == ev
    ctx.inst('R9', rd, 'every-extended-element-asked', oka, 'the elements handed to the extended-type fetcher are exactly those with is_extended(), over all groups; guards %s' %
             (sorted(g4.fact_keys_at(app[0][0])) if len(app) == 1 else 'append sites: %d' % len(app)))
    tf = [c for c in walk_own(rt.node) if isinstance(c, ast.Call) and dotted(c.func) == 'TocFetcher']
    ctx.inst('R9', rt, 'fetcher-completion', len(tf) == 1 and len(tf[0].args) >= 5 and norm(tf[0].args[4]) == 'refresh_done' and norm(tf[0].args[1]) == 'ParamTocElement'
             and norm(tf[0].args[2]) == 'CRTPPort.PARAM', 'param TOC fetcher completes into refresh_done with ParamTocElement on the PARAM port')


VARIANTS = [
    M('R11', PAR, "                if extended_type == ParamTocElement.EXTENDED_PERSISTENT:\n                    self._toc.get_element_by_id(var_id).mark_persistent()\n                self._count -= 1\n                if self._count == 0:\n                    if self._done_callback is not None:\n                        self._done_callback()\n                    self._close()\n", "                self._count -= 1\n                if self._count == 0:\n                    if self._done_callback is not None:\n                        self._done_callback()\n                    self._close()\n                if extended_type == ParamTocElement.EXTENDED_PERSISTENT:\n                    self._toc.get_element_by_id(var_id).mark_persistent()\n", 'marker set after the completion callback'),
    M('R11', PAR, "                self._req_param = -1\n                try:", "                try:", 'fetcher stays tuned to the answered id'),
    M('R11', PAR, "                    self._toc.get_element_by_id(var_id).mark_persistent()", "                    self._toc.get_element_by_id(self._count).mark_persistent()", 'wrong element marked'),
    M('R1', TOC, "            if ident != self.requested_index:\n                return\n", "", 'index check dropped'),
    M('R1', TOC, "        if (chan != 0):\n            return\n", "", 'channel check dropped'),
    M('R1', TOC, "                self.requested_index += 1\n", "                self.requested_index += 2\n", 'advance by two'),
    M('R2', TOC, "            pk.data = (CMD_TOC_ITEM_V2, index & 0x0ff, (index >> 8) & 0x0ff)", "            pk.data = (CMD_TOC_ELEMENT, index & 0x0ff, (index >> 8) & 0x0ff)", 'V1 command on V2 branch'),
    M('R2', TOC, "                self.toc.add_element(self.element_class(ident, payload[2:]))", "                self.toc.add_element(self.element_class(ident, payload[1:]))", 'V2 element offset'),
    M('R2', TOC, "            self.cf.send_packet(pk, expected_reply=(CMD_TOC_ELEMENT, index))", "            self.cf.send_packet(pk, expected_reply=(CMD_TOC_ELEMENT,))", 'expected reply shortened'),
    M('R3', TOC, "'<HI', payload[:6])", "'<HI', payload[:5])", 'info slice short'),
    M('R3', TOC, "'<HI', payload[:6])", "'<HH', payload[:6])", 'info format'),
    M('R4', TOC, "            pk.data = (CMD_TOC_ITEM_V2, index & 0x0ff, (index >> 8) & 0x0ff)", "            pk.data = (CMD_TOC_ITEM_V2, index & 0x0ff, (index >> 8) & 0x00f)", 'high byte masked'),
    M('R5', LOG, "        self._useV2 = self.cf.platform.get_protocol_version() >= 4\n\n        self._toc_cache = toc_cache", "        self._useV2 = self.cf.platform.get_protocol_version() > 4\n\n        self._toc_cache = toc_cache", 'log switch > 4'),
    M('R6', PAR, "             0x09: ('uint16_t', '<H'),", "             0x09: ('uint16_t', '<h'),", 'uint16 signed'),
    M('R6', PAR, "            if ((metadata & 0x40) != 0):", "            if ((metadata & 0x20) != 0):", 'read-only bit'),
    M('R6', LOG, "             0x05: ('int16_t', '<h', 2),", "             0x05: ('int16_t', '<h', 4),", 'log size column'),
    M('R6', LOG, "             0x08: ('FP16', '<e', 2),\n             0x07: ('float', '<f', 4)}", "             0x07: ('FP16', '<e', 2),\n             0x08: ('float', '<f', 4)}", 'float/FP16 codes swapped'),
    M('R7', PAR, "            self.group = strs[0]\n            self.name = strs[1]", "            self.group = strs[1]\n            self.name = strs[0]", 'group/name swapped'),
    M('R7', LOG, "            naming = data[1:]", "            naming = data[2:]", 'log naming offset'),
    M('R8', TOC, "                if self.toc[group][name].ident == ident:\n                    return self.toc[group][name]", "                if self.toc[group][name].ident >= ident:\n                    return self.toc[group][name]", 'by-id >='),
    M('R9', TOC, "            if (self.requested_index < (self.nbr_of_items - 1)):", "            if (self.requested_index < (self.nbr_of_items - 2)):", 'stops one early'),
    M('R9', PAR, "            if len(extended_elements) > 0:\n                extended_type_fetcher", "            refresh_done_callback()\n            if len(extended_elements) > 0:\n                extended_type_fetcher", 'completion before extended pass'),
    B(TOC, "            if ident != self.requested_index:\n                return\n", "            if not ident == self.requested_index:\n                return\n", 'not =='),
    B(TOC, "        payload = packet.data[1:]\n\n        if (self.state == GET_TOC_INFO):", "        payload = packet.data[1:]\n        logger.debug('payload %s', payload)\n        if (self.state == GET_TOC_INFO):", 'logging added'),
]
