"""C01 - radio link exactly-once, in order, despite loss (host-side alternating-bit invariants)."""
import ast

from .. import bits as B_
from ..astutil import aug_form, dotted, handler_names, method_call, stores
from ..flow import unchanged_param
from ..symexec import paths_of
from ..cfg import cfg_of, fact_key, norm, walk_own
from ..consteval import Scope, fold, fold_in
from ..model import AnchorError
from ..mutate import B, M

PROP = 'C01'
RD = 'cflib/crtp/radiodriver.py'

EXPLANATION = (
    'Static analysis (CFG dominators, edge-restricted reachability, bit-provenance) of _RadioDriverThread and RadioDriver, roles '
    'inferred from the header expression (U/D = attributes shifted by 3/2): R1 the header write clears exactly the two sequence bits it '
    'then sets and the reply test masks exactly D\'s bit; R2 every store to U is a toggle guarded by resp and resp.ack; R3 every store to '
    'D is a toggle guarded by ack, non-empty payload and the bit comparison; R4 one radio transmission per safe-send, its result returned; '
    'R5 in the main loop no path from a transmission to the dequeue / rebinding of the frame avoids the ack-is-False->continue and '
    'None->continue edges (an un-acked frame is retransmitted, never replaced); R6 the frame is bound only by the initial null packet '
    'and after the dequeue and both send branches transmit it; R7 failure counter: decremented by 1 only on the ack-False edge, re-armed '
    'to the configured retries on the ack-True path before the next transmission, error reported only when it reaches 0; R8 safelink '
    'enabled only inside the <= 10 attempt start-up loop on an exact echo of the request, both bits reset there, needs_resending = not '
    'safelink before the main loop, safe-send gated by the flag; R9 hand-off queues: out Queue(1), send_packet True only after put, False '
    'only on Full (with error callback), receive_packet returns only queue items or None, downlink packet = (byte 0, rest); R10 outgoing '
    'frame = header byte then data bytes in order; R11 several links on one dongle: every instance of the shared radio gets an id that no live instance holds (monotone counter bumped under the lock, or another fresh-id idiom), its own new reply queue registered under that id, the radio thread answers a transmission on the queue of the id that asked for it and the instance returns that answer. The peer\'s half of the protocol and timing are not decided.')
ASSUMPTIONS = ['the peer implements the matching alternating-bit half (nRF firmware)',
               'the radio dongle reports ack=True only for frames acknowledged by the peer']
FLOORS = {'R1': 3, 'R2': 2, 'R3': 3, 'R4': 2, 'R5': 3, 'R6': 3, 'R7': 5, 'R8': 7, 'R9': 8, 'R10': 2, 'R11': 6}


def _unq(text):
    return text[6:] if isinstance(text, str) and text.startswith('queue.') else text      # `from queue import Queue` / `import queue`


def is_toggle(value, attr):
    t = norm(value).replace(' ', '')
    return t in ('1-%s' % attr, '%s^1' % attr, '1^%s' % attr, '(%s+1)%%2' % attr, 'not%s' % attr, 'int(not%s)' % attr)


def check(ctx):
    m = ctx.model
    T = m.cls(RD, '_RadioDriverThread')
    sps = T.method('_send_packet_safe')
    g = cfg_of(sps)
    crp, pkp = sps.params[1], sps.params[2]
    # ---- roles ----------------------------------------------------------------------
    hdr_or = [s for s in walk_own(sps.node) if isinstance(s, ast.AugAssign) and isinstance(s.op, ast.BitOr) and norm(s.target) == '%s[0]' % pkp]
    hdr_and = [s for s in walk_own(sps.node) if isinstance(s, ast.AugAssign) and isinstance(s.op, ast.BitAnd) and norm(s.target) == '%s[0]' % pkp]
    ctx.need(len(hdr_or) == 1 and len(hdr_and) == 1, '_send_packet_safe: header clear/set statements not found')
    hdr_val = g.expand_locals(g.node_of(hdr_or[0].value), hdr_or[0].value)      # explaining variables read through
    attrs = sorted({norm(a) for a in ast.walk(hdr_val) if isinstance(a, ast.Attribute) and norm(a).startswith('self.')})
    ctx.need(len(attrs) == 2, '_send_packet_safe: expected two sequence-bit attributes in the header expression, found %s' % attrs)
    sc = Scope.of(sps)
    hb = B_.evaluate(hdr_val, sc, {attrs[0]: 'a', attrs[1]: 'b'}, {'a': 1, 'b': 1})
    pos = {}
    for i, b in enumerate(hb):
        if isinstance(b, tuple):
            pos[b[1]] = i
    ctx.need(set(pos.values()) == {2, 3}, 'sequence bits are not at header bits 3 and 2: %s' % B_.describe(hb, 8))
    U = attrs[0] if pos['a'] == 3 else attrs[1]
    D = attrs[1] if pos['a'] == 3 else attrs[0]
    # ---- R1 ----------------------------------------------------------------------------
    mask = fold_in(sps, hdr_and[0].value)
    ctx.inst('R1', sps, 'clear-mask', mask == 0xFF & ~0x0C, 'header &= 0x%02X must clear exactly bits 3 and 2 (0xF3)' % (mask if isinstance(mask, int) else -1))
    ctx.inst('R1', sps, 'clear-before-set', hdr_and[0].lineno < hdr_or[0].lineno and all(b == 0 or isinstance(b, tuple) for b in hb[:8]) and all(b == 0 for b in hb[8:]),
             'the two bits are cleared, then set from the current sequence numbers: %s' % B_.describe(hb, 8))
    cmps = [c for c in ast.walk(sps.node) if isinstance(c, ast.Compare) and 'data[0]' in norm(c)]
    if len(cmps) == 1:
        cn = g.node_of(cmps[0])
        left, right = g.expand_locals(cn, cmps[0].left), g.expand_locals(cn, cmps[0].comparators[0])
        lb = B_.evaluate(left, sc, {'resp.data[0]': 'r', D: 'd'}, {'r': 8, 'd': 1})
        rb = B_.evaluate(right, sc, {'resp.data[0]': 'r', D: 'd'}, {'r': 8, 'd': 1})
        if not any(isinstance(b, tuple) and b[1] == 'r' for b in lb):
            lb, rb = rb, lb
        ok = lb[2] == ('in', 'r', 2) and all(b == 0 for i, b in enumerate(lb) if i != 2) and rb[2] == ('in', 'd', 0) and all(b == 0 for i, b in enumerate(rb) if i != 2) and isinstance(cmps[0].ops[0], ast.Eq)
        ctx.inst('R1', sps, 'reply-bit', ok, 'the reply is tested on exactly bit 2 against the expected downlink number: %s == %s' % (B_.describe(lb, 8), B_.describe(rb, 8)))
        cmp_txt = norm(cmps[0])
    else:
        ctx.inst('R1', sps, 'reply-bit', False, 'no comparison of the reply\'s downlink bit with the expected number (found %d)' % len(cmps))
        cmp_txt = 'reply_bit_matches_expected_downlink_number' 
    # ---- R2 / R3 -----------------------------------------------------------------------------
    sends = g.find(lambda n: method_call(n, 'send_packet') and norm(n.func.value) == crp)
    for attr, rule, extra in ((U, 'R2', []), (D, 'R3', ['len(resp.data)', cmp_txt])):
        st = [n for n in g.nodes if n.kind == 'stmt' and isinstance(n.ast, (ast.Assign, ast.AugAssign)) and norm(n.ast.targets[0] if isinstance(n.ast, ast.Assign) else n.ast.target) == attr]
        ctx.need(st, '_send_packet_safe: no store to %s' % attr)
        for n in st:
            val = n.ast.value if isinstance(n.ast, ast.Assign) else None
            ctx.inst(rule, sps, 'toggle:' + attr, val is not None and is_toggle(val, attr), 'store %s must be a toggle of the bit' % norm(n.ast))
            keys = g.fact_keys_at(n)
            need = [fact_key('resp', True), fact_key('resp.ack', True)] + [fact_key(x, True) for x in extra]
            ctx.inst(rule, sps, 'guard:' + attr, all(k in keys for k in need) and all(g.dominates(s[0], n) for s in sends),
                     '%s may flip only after the transmission, under %s; guards %s' % (attr, ['resp', 'resp.ack'] + extra, sorted(keys)))
        if attr == U:
            # ... and on EVERY acknowledged transmission: a further condition on the flip (a payload in the ack, say) makes the next
            # frame go out under the old number although the peer took this one - it is dropped as a duplicate
            for n in st:
                more = [k for k in g.fact_keys_at(n) if k not in (fact_key('resp', True), fact_key('resp.ack', True)) and not k[0].startswith('resp is') and k[0] not in ('resp', 'resp.ack')]
                ctx.inst(rule, sps, 'flip-on-every-ack:' + attr, not more, '%s flips under further conditions: %s' % (attr, more))
        ctx.inst(rule, sps, 'single-store:' + attr, len(st) == 1, 'exactly one flip site for %s' % attr)
    others = [(f.qualname, norm(s)) for f in T.methods.values() if f.name not in ('_send_packet_safe', '__init__', 'run') for s in walk_own(f.node)
              if isinstance(s, (ast.Assign, ast.AugAssign)) and norm(s.targets[0] if isinstance(s, ast.Assign) else s.target) in (U, D)]
    ctx.inst('R2', T.method('_send_packet_safe'), 'no-other-writers', not others, 'sequence bits written elsewhere: %s' % others)
    # ---- R4 ------------------------------------------------------------------------------------
    ctx.inst('R4', sps, 'one-transmission', len(sends) == 1 and not any(isinstance(x, (ast.For, ast.While)) for x in walk_own(sps.node)), 'exactly one radio transmission per call, not in a loop')
    rets = [norm(s.value) for s in walk_own(sps.node) if isinstance(s, ast.Return)]
    rv = [s for s in walk_own(sps.node) if isinstance(s, ast.Assign) and sends and s.value is sends[0][1]]
    ctx.inst('R4', sps, 'returns-radio-result', len(rv) == 1 and bool(rets) and set(rets) == {norm(rv[0].targets[0])} and [norm(a) for a in sends[0][1].args] == [pkp], 'the radio result for this very frame is returned')

    # ================================= run() ======================================================
    run = T.method('run')
    g = cfg_of(run)
    wl = [n for n in g.nodes if n.kind == 'while']
    ctx.need(len(wl) == 1, 'run(): main loop not found')
    body = {n.id for n in g.loop_body_nodes(wl[0])}
    tx = [(n, c) for n, c in g.find(lambda q: method_call(q, 'send_packet') or method_call(q, '_send_packet_safe')) if n.id in body]
    ctx.need(len(tx) == 2, 'run(): expected a safe and a plain transmission in the loop, found %d' % len(tx))
    ackv = norm(tx[0][0].ast.targets[0]) if isinstance(tx[0][0].ast, ast.Assign) else None
    ctx.need(ackv and all(isinstance(n.ast, ast.Assign) and norm(n.ast.targets[0]) == ackv for n, _ in tx), 'run(): transmissions do not assign one ack variable')
    frame = norm(tx[0][1].args[-1])
    # ---- R6 ----------------------------------------------------------------------------------------
    ctx.inst('R6', run, 'both-branches-send-frame', all(norm(c.args[-1]) == frame for _, c in tx), 'both send branches transmit the same frame variable %s' % frame)
    fb = sorted([n for n in g.nodes if n.kind == 'stmt' and isinstance(n.ast, ast.Assign) and norm(n.ast.targets[0]) == frame], key=lambda n: (n.id in body, n.line))   # the binding before the loop first (inlined code keeps its own line numbers)
    deq = [(n, c) for n, c in g.find(lambda q: method_call(q, 'get') and 'out_queue' in norm(q.func.value)) if n.id in body]
    ctx.need(len(deq) >= 1 and len(fb) >= 2, 'run(): dequeue / frame bindings not found (dequeues=%d, bindings=%d)' % (len(deq), len(fb)))
    def initial_items(v):
        # array.array('B'[, <display or constant>]) -> the elements it starts with ([] when none), None if not such a constructor
        if not (isinstance(v, ast.Call) and norm(v.func) in ('array.array', 'array') and v.args and fold_in(run, v.args[0]) == 'B' and not v.keywords):
            return None
        if len(v.args) == 1:
            return []
        a = v.args[1]
        if isinstance(a, (ast.Tuple, ast.List)):
            return list(a.elts)
        c = fold_in(run, a)
        if isinstance(c, (list, tuple)) and all(isinstance(x, int) for x in c):
            return [ast.Constant(value=x) for x in c]
        return None
    i0 = initial_items(fb[0].ast.value)
    ctx.inst('R6', run, 'initial-null-frame', fb[0].id not in body and i0 is not None and [fold_in(run, e) for e in i0] == [255],
             'the first frame is the null packet 0xFF; found %s' % norm(fb[0].ast.value))
    ctx.inst('R6', run, 'rebind-after-dequeue', all(b.id in body and any(g.dominates(d[0], b) for d in deq) for b in fb[1:]), 'the frame is rebuilt only after the dequeue')
    # ---- R5 ----------------------------------------------------------------------------------------
    cont_edges = []
    for n in g.nodes:
        if n.kind == 'if' and n.id in body:
            for e in n.succ:
                for f in e.facts():
                    if (f.text in ('%s.ack is False' % ackv, 'False is %s.ack' % ackv) and f.pol is False) or \
                       (f.text in ('None is %s' % ackv, '%s is None' % ackv) and f.pol is False) or \
                       (f.text == '%s.ack' % ackv and f.pol is True):
                        cont_edges.append(e)
    must = [e for e in cont_edges]
    tests = {e.src.id for e in must}
    # every place that takes the next packet or builds the next frame (there may be more than one) lies behind both ack tests
    sinks = [d[0] for d in deq] + [b for b in fb if b.id in body]
    doms = [g.dom().get(('n', x.id)) or set() for x in sinks]
    kinds = {'ack-not-false': True, 'status-not-none': True}
    for kind in kinds:
        es = [e for e in must if any(('status-not-none' if 'None' in f.text else 'ack-not-false') == kind for f in e.facts())]
        kinds[kind] = bool(es) and all(any(('e', e.id) in d for e in es) for d in doms)
    for kind, ok in kinds.items():
        ctx.inst('R5', run, 'unacked-frame-kept:' + kind, ok,
                 'every path to the dequeue and to the rebinding of the frame must pass the "%s" edge (otherwise an un-acknowledged frame is replaced = lost)' % kind)
    for n, c in tx:
        w = g.path_avoiding(n, sinks, avoid_edges=must)
        ctx.inst('R5', run, 'retry-before-dequeue@%d' % n.line, w is None and len(tests) == 2,
                 'path from the transmission to the next frame that avoids the ack tests: %s' % (g.fmt_path(w) if w else 'ack tests found: %d' % len(tests)))
    # ---- R7 ----------------------------------------------------------------------------------------
    dec = [n for n in g.nodes if n.id in body and n.kind == 'stmt' and isinstance(n.ast, (ast.Assign, ast.AugAssign)) and
           ((isinstance(n.ast, ast.Assign) and isinstance(n.ast.value, ast.BinOp) and isinstance(n.ast.value.op, ast.Sub) and norm(n.ast.value.left) == norm(n.ast.targets[0])) or
            (isinstance(n.ast, ast.AugAssign) and isinstance(n.ast.op, ast.Sub)))]
    ctx.need(len(dec) == 1, 'run(): failure counter decrement not found')
    ctr = norm(dec[0].ast.targets[0] if isinstance(dec[0].ast, ast.Assign) else dec[0].ast.target)
    amount = dec[0].ast.value.right if isinstance(dec[0].ast, ast.Assign) else dec[0].ast.value
    ack_false = fact_key('%s.ack is False' % ackv, True)
    ctx.inst('R7', run, 'decrement-by-one-on-ack-false', fold_in(run, amount) == 1 and ack_false in g.fact_keys_at(dec[0]), 'the counter drops by 1 exactly on the ack-False edge; guards %s' % sorted(g.fact_keys_at(dec[0])))
    rearm = [n for n in g.nodes if n.id in body and n.kind == 'stmt' and isinstance(n.ast, ast.Assign) and norm(n.ast.targets[0]) == ctr and n is not dec[0]]
    ok = len(rearm) == 1 and norm(rearm[0].ast.value) == '_nr_of_retries' and fact_key('%s.ack is False' % ackv, False) in g.fact_keys_at(rearm[0])
    ctx.inst('R7', run, 'rearm-on-ack', ok, 'the counter restarts at the configured retries on every acknowledged transmission')
    if ok:
        w = g.path_avoiding(rearm[0], [deq[0][0]], avoid=[]) is not None and g.dominates(rearm[0], deq[0][0])
        ctx.inst('R7', run, 'rearm-before-next-frame', w, 're-arming dominates the dequeue of the next frame')
    errs = [(n, c) for n, c in g.find(lambda q: isinstance(q, ast.Call) and norm(q.func) == 'self._link_error_callback') if n.id in body and ack_false in g.fact_keys_at(n)]
    ok = len(errs) == 1 and fact_key('%s == 0' % ctr, True) in g.fact_keys_at(errs[0][0]) and g.dominates(dec[0], errs[0][0])
    ctx.inst('R7', run, 'error-iff-counter-zero', ok, 'link error is reported on the ack-False edge only when the counter reached 0, after the decrement')
    ini = T.method('__init__')
    i0 = [s for s in walk_own(ini.node) if isinstance(s, ast.Assign) and norm(s.targets[0]) == ctr]
    ctx.inst('R7', ini, 'initial-counter', len(i0) == 1 and norm(i0[0].value) == '_nr_of_retries', 'the counter starts at the configured retries')
    wr = [(f.qualname, norm(s)) for f in m.mod(RD).all_funcs() for s in walk_own(f.node) if isinstance(s, (ast.Assign, ast.AugAssign)) and
          norm(s.targets[0] if isinstance(s, ast.Assign) else s.target).split('.')[-1] == ctr.split('.')[-1] and f.qualname not in ('_RadioDriverThread.run', '_RadioDriverThread.__init__')]
    ctx.inst('R7', run, 'no-other-counter-writers', not wr, 'other writers of the failure counter: %s' % wr)
    # the loop recognises a lost transmission by `ack is False` (identity): what the dongle driver stores in `.ack` must be a real
    # bool - the int of `status & 1` is never `False`, every loss would count as an (empty) acknowledgement
    CRD = 'cflib/drivers/crazyradio.py'
    identity_test = any(isinstance(c_, ast.Compare) and any(isinstance(o_, (ast.Is, ast.IsNot)) for o_ in c_.ops) and norm(c_.left).endswith('.ack') for c_ in walk_own(run.node))
    ack_w = []
    if m.exists(CRD):
        for f_ in m.mod(CRD).all_funcs():
            for s_ in walk_own(f_.node):
                if isinstance(s_, ast.Assign) and any(isinstance(t_, ast.Attribute) and t_.attr == 'ack' for t_ in s_.targets):
                    v_ = s_.value
                    booly = (isinstance(v_, ast.Constant) and isinstance(v_.value, bool)) or isinstance(v_, (ast.Compare, ast.BoolOp)) or \
                        (isinstance(v_, ast.UnaryOp) and isinstance(v_.op, ast.Not)) or (isinstance(v_, ast.Call) and norm(v_.func) == 'bool')
                    if isinstance(v_, ast.BoolOp):
                        booly = all(isinstance(x_, (ast.Compare, ast.Constant)) or (isinstance(x_, ast.UnaryOp) and isinstance(x_.op, ast.Not)) for x_ in v_.values)
                    if isinstance(v_, ast.Name) and f_.name == '__init__' and v_.id in f_.params and f_.cls is not None:
                        # a constructor parameter: what the constructor calls of the module pass for it (and its default)
                        def _b(e_):
                            return (isinstance(e_, ast.Constant) and isinstance(e_.value, bool)) or isinstance(e_, ast.Compare) or (isinstance(e_, ast.UnaryOp) and isinstance(e_.op, ast.Not)) or \
                                (isinstance(e_, ast.Call) and norm(e_.func) == 'bool')
                        idx_ = f_.params.index(v_.id) - 1
                        given = []
                        for g_ in m.mod(CRD).all_funcs():
                            for c_ in walk_own(g_.node):
                                if isinstance(c_, ast.Call) and norm(c_.func).split('.')[-1] == f_.cls.name:
                                    kw_ = [k_.value for k_ in c_.keywords if k_.arg == v_.id]
                                    if kw_:
                                        given.append(kw_[0])
                                    elif idx_ < len(c_.args):
                                        given.append(c_.args[idx_])
                        dflt_ = (f_.defaults() if callable(f_.defaults) else f_.defaults).get(v_.id)
                        booly = all(_b(e_) for e_ in given) and (dflt_ is None or _b(dflt_)) and (bool(given) or dflt_ is not None)
                    ack_w.append((f_.qualname, norm(s_)[:50], booly))
    if m.exists(CRD):
        def _b2(e_):
            return (isinstance(e_, ast.Constant) and isinstance(e_.value, bool)) or isinstance(e_, ast.Compare) or (isinstance(e_, ast.UnaryOp) and isinstance(e_.op, ast.Not)) or \
                (isinstance(e_, ast.Call) and norm(e_.func) == 'bool')
        # ... a class-level default `ack = False` and `ack=` keywords of constructor calls store into the same field
        for k_ in m.mod(CRD).all_classes():
            for st_ in k_.node.body:
                if isinstance(st_, ast.Assign) and [norm(t_) for t_ in st_.targets] == ['ack']:
                    ack_w.append((k_.qualname, norm(st_)[:50], _b2(st_.value)))
                elif isinstance(st_, ast.AnnAssign) and norm(st_.target) == 'ack' and st_.value is not None:
                    ack_w.append((k_.qualname, norm(st_)[:50], _b2(st_.value)))
        for f_ in m.mod(CRD).all_funcs():
            for c_ in walk_own(f_.node):
                if isinstance(c_, ast.Call):
                    for kw_ in c_.keywords:
                        if kw_.arg == 'ack':
                            ack_w.append((f_.qualname, 'ack=%s' % norm(kw_.value)[:40], _b2(kw_.value)))
    ctx.inst('R7', run, 'ack-flag-is-a-bool', not identity_test or (bool(ack_w) and all(b_ for _, _, b_ in ack_w)),
             'the radio loop tests `.ack is False`; values stored in .ack by the dongle driver: %s' % [(q_, t_) for q_, t_, b_ in ack_w if not b_])
    # the configured number is the number: the setter stores its argument as given (n + 1, max(n, 1) ... report after a different
    # number of losses than the application asked for), and nothing else writes the module-level limit
    lim_w = [(f, s_) for f in m.mod(RD).all_funcs() for s_ in walk_own(f.node) if isinstance(s_, (ast.Assign, ast.AugAssign, ast.AnnAssign)) and
             norm(s_.targets[0] if isinstance(s_, ast.Assign) else s_.target) == '_nr_of_retries' and
             any(isinstance(x, ast.Global) and '_nr_of_retries' in x.names for x in walk_own(f.node))]
    ok_lim = bool(lim_w) and all(f.qualname == 'set_retries_before_disconnect' and isinstance(s_, ast.Assign) and isinstance(s_.value, ast.Name) and
                                 s_.value.id == f.params[0] and unchanged_param(cfg_of(f), cfg_of(f).node_of(s_), f.params[0]) for f, s_ in lim_w)
    ctx.inst('R7', m.func(RD, 'set_retries_before_disconnect'), 'configured-limit-stored-as-given', ok_lim,
             'set_retries_before_disconnect(n) makes n the limit; writers of the limit: %s' % [(f.qualname, norm(s_)) for f, s_ in lim_w])
    # the report reaches the application's callback itself: connect() hands its link_error_callback argument to the thread as it got
    # it (not wrapped, filtered or replaced), the thread stores it and calls it
    tp = ini.params
    ctx.need('link_error_callback' in tp, '_RadioDriverThread.__init__: link_error_callback parameter not found')
    pos = tp.index('link_error_callback') - 1
    conm = m.cls(RD, 'RadioDriver').method('connect')
    gcn = cfg_of(conm)
    mk = [(n, c) for n, c in gcn.find(lambda q: isinstance(q, ast.Call) and dotted(q.func) == '_RadioDriverThread')]
    okcb = len(mk) == 1 and 'link_error_callback' in conm.params
    if okcb:
        n_, c_ = mk[0]
        arg = c_.args[pos] if pos < len(c_.args) else next((k.value for k in c_.keywords if k.arg == 'link_error_callback'), None)
        okcb = isinstance(arg, ast.Name) and arg.id == 'link_error_callback' and unchanged_param(gcn, n_, 'link_error_callback')
    st_cb = [s_ for s_ in walk_own(ini.node) if isinstance(s_, ast.Assign) and norm(s_.targets[0]) == 'self._link_error_callback']
    okcb = okcb and len(st_cb) == 1 and norm(st_cb[0].value) == 'link_error_callback' and unchanged_param(cfg_of(ini), cfg_of(ini).node_of(st_cb[0].value), 'link_error_callback')
    ctx.inst('R7', conm, 'error-callback-unfiltered', okcb, 'the link error callback given to connect() is the one the radio thread calls: a wrapper that drops, '
             'de-duplicates or rate-limits reports loses the report of a later outage')
    # ---- R8 ----------------------------------------------------------------------------------------
    flag_true = [n for n in g.nodes if n.kind == 'stmt' and isinstance(n.ast, ast.Assign) and isinstance(n.ast.value, ast.Constant) and n.ast.value.value is True and norm(n.ast.targets[0]).startswith('self.')]
    ctx.need(len(flag_true) == 1, 'run(): safelink enable site not found')
    flag = norm(flag_true[0].ast.targets[0])
    reqn = [(n, c) for n, c in g.find(lambda q: method_call(q, 'send_packet')) if n.id not in body and isinstance(c.args[0], ast.Tuple)]
    req = [c for n, c in reqn]
    # the negotiation loop is the loop that sends the request; the flag is set in it or after it (search loop + flag), never in the main loop
    fl = [n for n in g.nodes if n.kind == 'for' and reqn and reqn[0][0].id in {b.id for b in g.loop_body_nodes(n)}]
    rng = fold_in(run, fl[0].ast.iter) if fl else None
    placed = bool(fl) and flag_true[0].id not in body and (flag_true[0].id in {b.id for b in g.loop_body_nodes(fl[0])} or g.dominates(fl[0], flag_true[0]))
    ctx.inst('R8', run, 'negotiation-bounded', len(fl) == 1 and isinstance(rng, tuple) and 1 <= len(rng) <= 10 and fl[0].id not in body and placed,
             'safelink is negotiated in a start-up loop of at most 10 attempts; %s' % (len(rng) if isinstance(rng, tuple) else rng))
    sent = fold_in(run, req[0].args[0]) if req else None
    echo = None
    for f in g.facts_at(flag_true[0]):
        if f.op == '==' and f.pol:
            for a, b in ((f.left, f.right), (f.right, f.left)):
                if 'data' in norm(a):
                    echo = fold(b, Scope.of(run))
    ctx.inst('R8', run, 'enabled-only-on-exact-echo', sent == (0xff, 0x05, 0x01) and echo == sent, 'safelink is enabled only when the reply payload equals the request %s; compared with %s' % (sent, echo))
    resets = {norm(n.ast.targets[0]): fold_in(run, n.ast.value) for n in g.nodes if n.kind == 'stmt' and isinstance(n.ast, ast.Assign) and norm(n.ast.targets[0]) in (U, D) and
              any(e in g.dominating_edges(n) for e in g.dominating_edges(flag_true[0]) if e.label and e.label[0] == 'cond')}
    ctx.inst('R8', run, 'bits-reset-on-enable', resets == {U: 0, D: 0}, 'both sequence numbers restart at 0 when safelink is enabled; found %s' % resets)
    nr = [n for n in g.nodes if n.kind == 'stmt' and isinstance(n.ast, ast.Assign) and norm(n.ast.targets[0]).endswith('.needs_resending')]
    ok = len(nr) == 1 and norm(nr[0].ast.value) == 'not %s' % flag and nr[0].id not in body and fl and g.dominates(fl[0], nr[0]) and g.dominates(nr[0], wl[0])
    ctx.inst('R8', run, 'needs-resending=not-safelink', bool(ok), 'needs_resending = not safelink, decided after negotiation and before the main loop')
    safe = [n for n, c in tx if method_call(c, '_send_packet_safe')]
    plain = [n for n, c in tx if not method_call(c, '_send_packet_safe')]
    ok = len(safe) == 1 and len(plain) == 1 and fact_key(flag, True) in g.fact_keys_at(safe[0]) and fact_key(flag, False) in g.fact_keys_at(plain[0])
    ctx.inst('R8', run, 'safe-send-gated', ok, 'sequence-numbered transmission exactly when safelink was confirmed')
    fname = flag.split('.')[-1]
    outside = ['%s:%d' % (f_.qualname, t_.lineno) for f_ in m.mod(RD).all_funcs() for t_, st_ in stores(f_.node)
               if isinstance(t_, ast.Attribute) and t_.attr == fname and not (f_.cls is T and f_.name in ('run', '__init__'))]
    ctx.inst('R8', run, 'safelink-flag-owned-by-thread', not outside, 'the safelink flag is written only by the radio thread itself (constructor: off, start-up negotiation: on); other writers: %s' % (outside or 'none'))
    f0 = [s for s in walk_own(ini.node) if isinstance(s, ast.Assign) and norm(s.targets[0]) == flag]
    ctx.inst('R8', ini, 'safelink-off-initially', len(f0) == 1 and norm(f0[0].value) == 'False', 'safelink is off until negotiated')
    # ---- R9 / R10 ----------------------------------------------------------------------------------
    Dr = m.cls(RD, 'RadioDriver')
    con = Dr.method('connect')
    qs = {norm(s.targets[0]): norm(s.value) for s in walk_own(con.node) if isinstance(s, ast.Assign) and 'queue' in norm(s.targets[0])}
    ctx.inst('R9', con, 'out-queue-size-1', _unq(qs.get('self.out_queue')) == 'Queue(1)' and _unq(qs.get('self.in_queue')) == 'Queue()', 'hand-off queues: out Queue(1), in unbounded; found %s' % qs)
    sp = Dr.method('send_packet')
    gs = cfg_of(sp)
    put = gs.find(lambda q: method_call(q, 'put') and norm(q.func.value) == 'self.out_queue')
    rt = [n for n in gs.nodes if n.kind == 'return']
    tr = [n for n in rt if fold_in(sp, n.ast.value) is True]
    fa = [n for n in rt if fold_in(sp, n.ast.value) is False]
    ctx.inst('R9', sp, 'true-after-put', len(put) == 1 and len(tr) == 1 and gs.dominates(put[0][0], tr[0]) and
             gs.path_avoiding(put[0][0], [tr[0]], avoid_edges=[e for e in put[0][0].succ if e.label != ('raise',)]) is None, 'True is returned only after put() returned normally')
    tries = [t for t in walk_own(sp.node) if isinstance(t, ast.Try)]
    okf = len(fa) == 1 and len(tries) == 1 and [handler_names(h) for h in tries[0].handlers] == [['queue.Full']] and \
        any(isinstance(c, ast.Call) and norm(c.func) == 'self.link_error_callback' for s in tries[0].handlers[0].body for c in walk_own(s)) and \
        any(s is fa[0].ast for s in walk_own(tries[0].handlers[0]))
    ctx.inst('R9', sp, 'false-only-on-full', okf, 'False is returned only from the queue.Full handler, which reports the link error')
    ctx.inst('R9', sp, 'put-blocks-bounded', bool(put) and [norm(a) for a in put[0][1].args] == [sp.params[1], 'True', '2'], 'put(pk, block, 2 s)')
    rp = Dr.method('receive_packet')
    # every returning path, with the locals that choose the arguments substituted (`block, timeout = True, None` / `*args`)
    rps, _rx = paths_of(rp)
    rets, forms, okr = set(), [], False
    for p_ in rps:
        if p_.outcome[0] != 'return':
            continue
        v = p_.returned()
        rets.add(norm(v) if v is not None else 'None')
        if v is None or (isinstance(v, ast.Constant) and v.value is None):
            continue
        if not (isinstance(v, ast.Call) and norm(v.func) == 'self.in_queue.get' and not v.keywords):
            forms.append(['?'])
            continue
        args = []
        for a_ in v.args:
            if isinstance(a_, ast.Starred) and isinstance(a_.value, (ast.Tuple, ast.List)):
                args.extend(norm(e) for e in a_.value.elts)
            else:
                args.append(norm(a_))
        forms.append(args[:-1] if len(args) == 2 and args[-1] == 'None' else args)            # get(block, None) = get(block)
    okr = bool(forms) and all(f in (['False'], ['True'], ['True', rp.params[1]]) or (len(f) == 2 and f[0] == 'False') for f in forms)
    ctx.inst('R9', rp, 'receive-returns-queue-items', okr,
             'receive_packet returns only items of the in queue or None; returns %s' % sorted(rets))
    inq = [(n, c) for n, c in g.find(lambda q: method_call(q, 'put') and 'in_queue' in norm(q.func.value)) if n.id in body]
    ok = len(inq) == 1 and fact_key('len(data) > 0', True) in g.fact_keys_at(inq[0][0])
    mk = [s for s in walk_own(run.node) if isinstance(s, ast.Assign) and isinstance(s.value, ast.Call) and dotted(s.value.func) == 'CRTPPacket']
    dsrc = [s for s in walk_own(run.node) if isinstance(s, ast.Assign) and norm(s.targets[0]) == 'data']
    ok = ok and len(mk) == 1 and [norm(a) for a in mk[0].value.args] == ['data[0]', 'list(data[1:])'] and norm(inq[0][1].args[0]) == norm(mk[0].targets[0]) and \
        len(dsrc) == 1 and norm(dsrc[0].value) == '%s.data' % ackv
    ctx.inst('R9', run, 'downlink-enqueue', ok, 'a non-empty ack payload becomes CRTPPacket(byte 0, rest) and is queued once')
    ctx.inst('R9', run, 'downlink-after-ack', bool(inq) and fact_key('%s.ack is False' % ackv, False) in g.fact_keys_at(inq[0][0]) and fact_key('%s is None' % ackv, False) in g.fact_keys_at(inq[0][0]),
             'downlink data is taken only from an acknowledged transmission')
    ctx.inst('R9', run, 'dequeue-into-next-frame', norm(deq[0][0].ast.targets[0]) == 'outPacket' if isinstance(deq[0][0].ast, ast.Assign) else False, 'the dequeued packet becomes the next frame')
    apn = [(n, norm(c.args[0])) for n, c in g.find(lambda q: method_call(q, 'append') and norm(q.func.value) == frame) if n.id in body]
    # a frame born with elements (`array.array('B', (outPacket.header,))`) has them appended at its binding
    for b_ in fb:
        if b_.id in body:
            its_ = initial_items(b_.ast.value)
            ctx.need(its_ is not None, 'run(): frame binding %s not understood' % norm(b_.ast.value)[:50])
            apn += [(b_, str(fold_in(run, e_)) if isinstance(fold_in(run, e_), int) else norm(e_)) for e_ in its_]
    app = sorted((n.line, t) for n, t in apn)
    hdr = [n for n, t in apn if t == 'outPacket.header']
    dat = [n for n, t in apn if t in ('X', 'ord(X)')]
    nul = [n for n, t in apn if t == '255']
    have, none = fact_key('outPacket', True), fact_key('outPacket', False)
    ok = len(hdr) == 1 and len(dat) >= 1 and len(nul) == 1 and len(apn) == len(hdr) + len(dat) + len(nul) and have in g.fact_keys_at(hdr[0]) and \
        all(g.dominates(hdr[0], d) and have in g.fact_keys_at(d) for d in dat) and none in g.fact_keys_at(nul[0])
    ctx.inst('R10', run, 'frame=header+data', ok, 'frame = header byte, then each data byte in order (or the null packet 0xFF); appends %s' % app)
    lp = [n for n in g.nodes if n.kind == 'for' and n.id in body]
    ctx.inst('R10', run, 'data-in-order', len(lp) == 1 and norm(lp[0].ast.iter) == 'outPacket.data', 'data bytes are appended in iteration order')
    # a packet object must always be true: the loops test `if outPacket:` for "is there a packet", a header-only packet has no payload
    pkc = m.cls('cflib/crtp/crtpstack.py', 'CRTPPacket')
    sized = [n_ for n_ in ('__len__', '__bool__') if pkc.has(n_)]
    truth_tests = [n for n in g.nodes if n.kind == 'if' and norm(n.ast.test) == 'outPacket']
    ctx.inst('R9', run, 'packet-presence-test', not (sized and truth_tests), 'the dequeued packet is tested for presence by truth value while CRTPPacket defines %s: '
             'a packet without payload would be taken for "no packet" and replaced by a null packet' % (sized or 'neither __len__ nor __bool__'))
    shared_radio_rules(ctx)


def shared_radio_rules(ctx):
    """R11 - reply routing of the shared dongle: an ack (with the downlink payload) reaches exactly the link whose frame it answers."""
    m = ctx.model
    SR = m.cls(RD, '_SharedRadio')
    SI = m.cls(RD, '_SharedRadioInstance')
    oi = SR.method('open_instance')
    reg = [(t, st) for t, st in stores(oi.node) if isinstance(t, ast.Subscript) and isinstance(st, ast.Assign)]
    ctx.need(len(reg) == 1, '_SharedRadio.open_instance: expected one registration table[id] = queue, found %d' % len(reg))
    table, key, qv = norm(reg[0][0].value), reg[0][0].slice, reg[0][1].value
    ctx.need(isinstance(key, ast.Name) and isinstance(qv, ast.Name), 'open_instance: registration is not table[name] = name')
    kb = [st for t, st in stores(oi.node) if norm(t) == key.id]
    qb = [st for t, st in stores(oi.node) if norm(t) == qv.id]
    ctx.need(len(kb) == 1 and isinstance(kb[0], ast.Assign), 'open_instance: the instance id is not bound exactly once')
    idx = kb[0].value
    src = norm(idx)
    if any(norm(a) == table for a in ast.walk(idx)):
        fresh, why = False, 'the id %s is computed from the table of live instances, which shrinks when a link closes: a later link can take over the id (and replies) of a live one' % src
    elif isinstance(idx, ast.Attribute) and src.startswith('self.'):
        bumps = [(st, aug_form(st)) for st in walk_own(oi.node) if isinstance(st, ast.stmt) and aug_form(st) and aug_form(st)[0] == src]
        okb = len(bumps) == 1 and bumps[0][1][1] is ast.Add and isinstance(fold_in(oi, bumps[0][1][2]), int) and fold_in(oi, bumps[0][1][2]) >= 1
        withs = [w for w in walk_own(oi.node) if isinstance(w, ast.With)]
        same_lock = okb and any(kb[0] in w.body and bumps[0][0] in w.body and reg[0][1] in w.body for w in withs)
        others = []
        for mod_f in m.mod(RD).all_funcs():
            for t, st in stores(mod_f.node):
                if isinstance(t, ast.Attribute) and t.attr == idx.attr and not (mod_f is oi or mod_f.qualname == oi.qualname):
                    if not (mod_f.qualname == '_SharedRadio.__init__' and isinstance(st, ast.Assign) and isinstance(fold_in(mod_f, st.value), int)):
                        others.append('%s:%d' % (mod_f.qualname, st.lineno))
        fresh = okb and same_lock and not others
        why = 'id = %s, bumped by a positive constant in the same locked block (%s), no other writer (%s)' % (src, same_lock, others or 'none')
    elif isinstance(idx, ast.Call) and norm(idx.func) == 'next' and len(idx.args) == 1:
        fresh, why = True, 'id drawn from an iterator: %s' % src
    elif isinstance(idx, ast.Call) and norm(idx.func) == 'id' and [norm(a) for a in idx.args] == [qv.id]:
        fresh, why = True, 'id = id(queue) of the live queue object'
    else:
        raise AnchorError('open_instance: unrecognised instance-id expression %s' % src)
    ctx.inst('R11', oi, 'fresh-instance-id', fresh, why)
    ok = len(qb) == 1 and isinstance(qb[0], ast.Assign) and isinstance(qb[0].value, ast.Call) and norm(qb[0].value.func).split('.')[-1] == 'Queue' and not qb[0].value.args
    ctx.inst('R11', oi, 'own-new-reply-queue', ok, 'each instance registers a reply queue created in this call (unbounded Queue())')
    rets = [r.value for r in walk_own(oi.node) if isinstance(r, ast.Return)]
    ok = len(rets) == 1 and isinstance(rets[0], ast.Call) and norm(rets[0].func) == '_SharedRadioInstance' and \
        [norm(a) for a in rets[0].args[:3]] == [key.id, 'self._cmd_queue', qv.id]
    ctx.inst('R11', oi, 'instance-gets-id-and-queue', ok, 'the instance is built from the registered id, the command queue and the registered reply queue')
    ini = SI.method('__init__')
    p = ini.params
    binds = {norm(t): norm(st.value) for t, st in stores(ini.node) if isinstance(st, ast.Assign)}
    wr = [f.qualname for f in m.mod(RD).all_funcs() if f.cls is SI and f is not ini and f.name != '__init__'
          for t, _ in stores(f.node) if norm(t) in ('self._instance_id', 'self._rsp_queue', 'self._cmd_queue')]
    ok = len(p) >= 4 and binds.get('self._instance_id') == p[1] and binds.get('self._cmd_queue') == p[2] and binds.get('self._rsp_queue') == p[3] and not wr
    ctx.inst('R11', ini, 'instance-keeps-id-and-queue', ok, 'id / command queue / reply queue are the constructor arguments and never rewritten (writers: %s)' % (wr or 'none'))
    sp = SI.method('send_packet')
    puts = [c for c in walk_own(sp.node) if method_call(c, 'put')]
    gets = [c for c in walk_own(sp.node) if method_call(c, 'get')]
    rv = [r.value for r in walk_own(sp.node) if isinstance(r, ast.Return)]
    ok = len(puts) == 1 and len(gets) == 1 and norm(puts[0].func.value) == 'self._cmd_queue' and norm(gets[0].func.value) == 'self._rsp_queue' and not gets[0].args \
        and isinstance(puts[0].args[0], ast.Tuple) and [norm(e) for e in puts[0].args[0].elts[:2]] == ['self._instance_id', '_RadioCommands.SEND_PACKET'] \
        and puts[0].lineno < gets[0].lineno and len(rv) == 1
    if ok:
        gb = [norm(t) for t, st in stores(sp.node) if isinstance(st, ast.Assign) and st.value is gets[0]]
        ok = norm(rv[0]) in gb or rv[0] is gets[0]
    ctx.inst('R11', sp, 'one-command-one-reply', ok, 'send_packet posts (own id, SEND_PACKET, ...) once and returns the single untimed get() from its own reply queue')
    run = SR.method('run')
    g = cfg_of(run)
    cmd = [norm(t) for t, st in stores(run.node) if isinstance(st, ast.Assign) and method_call(st.value, 'get') and norm(st.value.func.value) == 'self._cmd_queue']
    ctx.need(len(cmd) == 1, '_SharedRadio.run: command dequeue not found')
    c = cmd[0]
    rp = g.find(lambda q: method_call(q, 'put'))
    tx = g.find(lambda q: method_call(q, 'send_packet') and norm(q.func.value) == 'self._radio')
    want = fact_key('%s[1] == _RadioCommands.SEND_PACKET' % c)
    ok = len(tx) == 1 and want in g.fact_keys_at(tx[0][0])
    if ok:
        txv = norm(tx[0][0].ast.targets[0]) if isinstance(tx[0][0].ast, ast.Assign) and len(tx[0][0].ast.targets) == 1 else None
        mine = [(n, q) for n, q in rp if want in g.fact_keys_at(n)]
        ok = txv is not None and len(mine) == 1 and norm(mine[0][1].func.value) == '%s[%s[0]]' % (table, c) and [norm(a) for a in mine[0][1].args] == [txv] \
            and g.dominates(tx[0][0], mine[0][0])
    ctx.inst('R11', run, 'ack-to-asking-instance', ok, 'in the SEND_PACKET branch the radio result is put once on %s[%s[0]], the queue of the instance that posted the command' % (table, c))
    bad = ['line %d: %s' % (n.line, norm(q.func.value)) for n, q in rp if norm(q.func.value) != '%s[%s[0]]' % (table, c)]
    ctx.inst('R11', run, 'replies-only-to-asker', not bad, 'every reply of the radio thread goes to the queue of the command\'s own id; others: %s' % (bad or 'none'))
    dels = [(n, t) for n in g.nodes if isinstance(n.ast, ast.Delete) for t in n.ast.targets if isinstance(t, ast.Subscript) and norm(t.value) == table]
    stop = fact_key('%s[1] == _RadioCommands.STOP' % c)
    ok = all(norm(t.slice) == '%s[0]' % c and stop in g.fact_keys_at(n) for n, t in dels) and len(dels) == 1
    ctx.inst('R11', run, 'unregister-only-own-id-on-stop', ok, 'a queue is unregistered only by the STOP command of its own id')
    # the table of users and the dongle are one state under one lock: the last user's release of the dongle happens inside the same
    # `with self._lock` as its unregistration (outside it, a new user can register between the two steps and gets a dongle that is
    # being closed: its packets are accepted and never transmitted)
    withs = [w for w in walk_own(run.node) if isinstance(w, ast.With) and any(norm(i.context_expr) == 'self._lock' for i in w.items)]
    locked = {id(x) for w in withs for s_ in w.body for x in walk_own(s_)}
    rel = [x for x in walk_own(run.node) if (isinstance(x, ast.Call) and method_call(x, 'close') and norm(x.func.value) == 'self._radio') or
           (isinstance(x, ast.Assign) and norm(x.targets[0]) == 'self._radio')]
    ctx.inst('R11', run, 'dongle-released-under-the-registry-lock', bool(rel) and all(id(x) in locked for x in rel) and all(id(t) in locked for n, t in dels),
             'unregistering the last user and closing the dongle are one critical section (with self._lock)')
    # a link stops its own radio thread before it gives the shared dongle back: a loop iteration after the release would use a closed
    # instance and report a link error that no lost packet caused
    clz = m.cls(RD, 'RadioDriver').method('close')
    gcz = cfg_of(clz)
    stp = gcz.find(lambda q: method_call(q, 'stop') and norm(q.func.value) == 'self._thread')
    rls = gcz.find(lambda q: method_call(q, 'close') and norm(q.func.value) == 'self._radio')
    ctx.inst('R7', clz, 'thread-stopped-before-dongle-released', len(stp) == 1 and len(rls) == 1 and gcz.dominates(stp[0][0], rls[0][0]),
             'RadioDriver.close stops (joins) the radio thread on every path before it closes its radio instance')
    from .c20 import radio_request_settings_rules
    radio_request_settings_rules(ctx, 'R11')      # channel / address / rate of the request are programmed before its transmission (shared with C20.R4)
    # pause() / restart(): restart() starts a new radio thread unless its guard says one is running; pause() stops the thread, so it
    # must leave that guard false, otherwise the link accepts packets after restart() and nothing transmits them
    RDc = m.cls(RD, 'RadioDriver')
    if RDc.has('pause') and RDc.has('restart'):
        ps, rs = RDc.method('pause'), RDc.method('restart')
        guards = [s_ for s_ in rs.node.body if isinstance(s_, ast.If) and s_.body and isinstance(s_.body[-1], ast.Return) and not s_.orelse]
        starts = [c_ for c_ in walk_own(rs.node) if method_call(c_, 'start')]
        if guards and starts and not any(isinstance(x, ast.Call) for x in ast.walk(guards[0].test)):
            tested = {norm(a) for a in ast.walk(guards[0].test) if isinstance(a, ast.Attribute) and norm(a).startswith('self.')}
            gp = cfg_of(ps)
            stopc = gp.find(lambda q: method_call(q, 'stop'))
            cleared = [st for t, st in stores(ps.node) if norm(t) in tested and isinstance(st, ast.Assign) and isinstance(st.value, ast.Constant) and not st.value.value]
            ok = bool(stopc) and bool(cleared) and all(gp.dominates(gp.node_of(c_), gp.exit) for c_ in cleared)
            ctx.inst('R7', ps, 'pause-leaves-restart-enabled', ok, 'restart() returns early while %s is set; pause() stops the thread and must clear it on every path '
                     '(cleared: %s)' % (sorted(tested), [norm(c_) for c_ in cleared] or 'never'))


VARIANTS = [
    M('R11', RD, "                self._radio.set_channel(channel)\n                self._radio.set_address(address)\n                self._radio.set_data_rate(datarate)\n                ack = self._radio.send_packet(data)\n", "                self._radio.set_channel(channel)\n                self._radio.set_data_rate(datarate)\n                ack = self._radio.send_packet(data)\n                self._radio.set_address(address)\n", 'address programmed after the transmission'),
    M('R1', RD, "        packet[0] &= 0xF3\n", "        packet[0] &= 0xF7\n", 'clear mask'),
    M('R1', RD, "           (resp.data[0] & 0x04) == (self._curr_down << 2):", "           (resp.data[0] & 0x08) == (self._curr_down << 2):", 'reply mask'),
    M('R2', RD, "        if resp and resp.ack:\n            self._curr_up = 1 - self._curr_up", "        if resp:\n            self._curr_up = 1 - self._curr_up", 'uplink flips without ack'),
    M('R3', RD, "        if resp and resp.ack and len(resp.data) and \\\n           (resp.data[0] & 0x04) == (self._curr_down << 2):", "        if resp and resp.ack and len(resp.data):", 'downlink flips on any payload'),
    M('R4', RD, "        resp = cr.send_packet(packet)\n        if resp and resp.ack and len(resp.data)", "        resp = cr.send_packet(packet)\n        if not resp:\n            resp = cr.send_packet(packet)\n        if resp and resp.ack and len(resp.data)", 'second transmission'),
    M('R5', RD, "                    self._link_error_callback('Too many packets lost')\n                continue\n", "                    self._link_error_callback('Too many packets lost')\n", 'continue deleted'),
    M('R5', RD, "            if ackStatus is None:\n                logger.info('Dongle reported ACK status == None')\n                continue\n", "            if ackStatus is None:\n                logger.info('Dongle reported ACK status == None')\n", 'None falls through'),
    M('R7', RD, "            self._retry_before_disconnect = _nr_of_retries\n\n            data = ackStatus.data", "            data = ackStatus.data", 'counter never re-armed'),
    M('R7', RD, "                if (self._retry_before_disconnect == 0 and", "                if (self._retry_before_disconnect == 1 and", 'error one early'),
    M('R8', RD, "            if resp and resp.data and tuple(resp.data) == (\n                    0xff, 0x05, 0x01):", "            if resp and resp.data:", 'safelink on any reply'),
    M('R8', RD, "        for _ in range(10):\n            resp = self._radio.send_packet((0xff, 0x05, 0x01))", "        for _ in range(11):\n            resp = self._radio.send_packet((0xff, 0x05, 0x01))", '11 attempts'),
    M('R8', RD, "        self._link.needs_resending = not self._has_safelink", "        self._link.needs_resending = False", 'never resends'),
    M('R9', RD, "        self.out_queue = queue.Queue(1)", "        self.out_queue = queue.Queue(2)", 'out queue 2'),
    M('R9', RD, "                inPacket = CRTPPacket(data[0], list(data[1:]))", "                inPacket = CRTPPacket(data[1], list(data[1:]))", 'downlink header byte'),
    M('R10', RD, "                dataOut.append(outPacket.header)\n                for X in outPacket.data:", "                for X in outPacket.data:", 'header byte missing'),
    M('R11', RD, "            instance_id = self._next_instance_id\n", "            instance_id = len(self._rsp_queues)\n", 'id from table size'),
    M('R11', RD, "            self._next_instance_id += 1\n", "", 'counter never bumped'),
    M('R11', RD, "                ack = self._radio.send_packet(data)\n                self._rsp_queues[command[0]].put(ack)", "                ack = self._radio.send_packet(data)\n                for q in self._rsp_queues.values():\n                    q.put(ack)", 'ack broadcast'),
    M('R7', RD, "        self._thread.stop()\n        self._thread = None\n\n    def restart", "        self._thread.stop()\n\n    def restart", 'pause keeps the thread handle'),
    B(RD, "            self._next_instance_id += 1\n", "            self._next_instance_id = self._next_instance_id + 1\n", 'plain increment'),
    B(RD, "            self._curr_up = 1 - self._curr_up", "            self._curr_up = self._curr_up ^ 1", 'xor toggle'),
    B(RD, "            if ackStatus.ack is False:\n                self._retry_before_disconnect = \\\n                    self._retry_before_disconnect - 1", "            if ackStatus.ack is False:\n                self._retry_before_disconnect -= 1", 'augmented decrement'),
]
