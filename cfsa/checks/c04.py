"""C04 - parameter writes and reads are typed correctly and never cross-attributed."""
import ast

from ..astutil import aug_form, dotted, effective, method_call
from ..cfg import cfg_of, fact_key, norm, walk_own
from ..consteval import fold_in
from ..mutate import B, M
from .c03 import generation_switch_rules, session_object_rules, ext_fetcher_rules, param_metadata_rules, param_type_table_rules, toc_lookup_rules
from ..symexec import paths_of, paths_of_block

PROP = 'C04'
PAR = 'cflib/crazyflie/param.py'

EXPLANATION = (
    'Static analysis of Param and _ParamUpdater: R1 the write request is enqueued only for an existing, not read-only element and both '
    'refusals raise before anything is built; R2 the value reaching struct.pack(element.pytype, .) is int(value)/float(value) of the '
    'caller\'s value with no mask/modulo/clamp, float conversion exactly for <f/<d; R3 index encoded <H (current) / <B (legacy) from '
    'element.ident on the WRITE channel, read requests symmetrically on the READ channel; R4 single outstanding request: the send in the '
    'updater loop is dominated by wait_lock.acquire() and by the store of the release pattern, whose width matches what the reply handler '
    'compares per channel, and the lock is released only on a pattern match, on close and on the no-link branch; R5 the status byte is '
    'stripped only from current-protocol READ replies and values are delivered only for solicited replies or value-changed notifications; '
    'R6 every one-shot reply closure tests channel, command and the 16-bit variable id of its own request before consuming the reply, and '
    'the request carries the same command and id; R7 decode: id at id_index, value after it, one string stored and passed once to each of '
    'the three fan-outs; R8 requests travel through one FIFO queue with a single consumer; R10 the extended-type fetcher follows the same protocol: untimed acquire and published id before each send, an answer is accepted only as MISC_GET_EXTENDED_TYPE reply for the published id, the id is forgotten before the lock is released, one counter step per answer; R12 the parameter type table (size, floatness, signedness per type code) and the split of the metadata byte: type = low nibble (every row of the table reachable), extended = bit 4, read-only = bit 6, RW/RO numbered 0/1 as in stored TOC caches (shared with C03.R6); R13 the extended-type fetcher is built per refresh from the current table; R14 a request that was answered is not transmitted again: the retry path re-arms and transmits only while its pattern is pending, decided under the send lock (shared with C10.R1/R2/R5); R11 Caller.call hands the value once to every callable of a snapshot of the list (shared with C07.R2).')
ASSUMPTIONS = ['queue.Queue is FIFO and thread safe', 'the device echoes the variable id in bytes 1..2 of MISC replies']
FLOORS = {'R9': 5, 'R1': 3, 'R2': 2, 'R3': 6, 'R4': 11, 'R5': 4, 'R6': 16, 'R7': 7, 'R8': 4, 'R10': 14, 'R11': 2, 'R12': 17, 'R13': 1, 'R14': 8}


def param_lookup_rule(ctx, rule):
    """Every value packet is resolved against the TOC of the current connection at the time it arrives: the element is whatever
    self.toc.get_element_by_id(id) returns now.  A memo of earlier look-ups (also of "not found") survives a new TOC download and a
    reconnection and then files values under the wrong - or no - parameter.  Shared with C02 (fully_connected only when every
    parameter of this connection has a value)."""
    pu = ctx.model.func('cflib/crazyflie/param.py', 'Param._param_updated')
    binds = [s_ for s_ in walk_own(pu.node) if isinstance(s_, (ast.Assign, ast.AugAssign, ast.AnnAssign)) and
             any(norm(t) == 'element' for t in (s_.targets if isinstance(s_, ast.Assign) else [s_.target]))]
    ok = len(binds) >= 1 and all(isinstance(b, ast.Assign) and norm(b.value) == 'self.toc.get_element_by_id(var_id)' for b in binds)
    ctx.inst(rule, pu, 'element-by-id', ok, 'element looked up by the decoded id in the current TOC, on every packet; bindings: %s' % [norm(b) for b in binds])


def check(ctx):
    m = ctx.model
    P = m.cls(PAR, 'Param')
    U = m.cls(PAR, '_ParamUpdater')

    # ---- R1 ---------------------------------------------------------------------
    sv = P.method('set_value')
    g = cfg_of(sv)
    enq = g.find(lambda n: method_call(n, 'request_param_setvalue'))
    ctx.need(len(enq) == 1, 'set_value: enqueue of the write request not found')
    keys = g.fact_keys_at(enq[0][0])
    ctx.inst('R1', sv, 'needs-element', fact_key('element', True) in keys, 'write only for a parameter found in the TOC; guards %s' % sorted(keys))
    ctx.inst('R1', sv, 'needs-not-readonly', fact_key('element.access == ParamTocElement.RO_ACCESS', False) in keys, 'write only if the element is not read-only')
    builds = g.find(lambda n: isinstance(n, ast.Call) and dotted(n.func) in ('CRTPPacket', 'struct.pack'))
    ok = all(fact_key('element', True) in g.fact_keys_at(n) and fact_key('element.access == ParamTocElement.RO_ACCESS', False) in g.fact_keys_at(n) for n, _ in builds)
    ctx.inst('R1', sv, 'nothing-built-before-refusal', ok and bool(builds), 'no packet is built before both refusal tests passed')
    raises = [n for n in g.nodes if n.kind == 'raise']
    rk = [sorted(k[0] for k in g.fact_keys_at(n) if k[0] in ('element', 'ParamTocElement.RO_ACCESS == element.access')) for n in raises]
    ctx.inst('R1', sv, 'refusals-raise', ['element'] in rk and any('ParamTocElement.RO_ACCESS == element.access' in r for r in rk),
             'unknown and read-only parameters raise; raise guards %s' % rk)
    el = [s for s in walk_own(sv.node) if isinstance(s, ast.Assign) and norm(s.targets[0]) == 'element']
    ctx.inst('R1', sv, 'element-lookup', len(el) == 1 and norm(el[0].value) == 'self.toc.get_element_by_complete_name(%s)' % sv.params[1], 'element looked up by the complete name')

    # ---- R2 / R3 (write) ---------------------------------------------------------------
    ps, _ = paths_of(sv)
    n_send = 0
    for p in ps:
        sends = p.calls(lambda c: method_call(c, 'request_param_setvalue'))
        if not sends:
            continue
        n_send += 1
        fk = p.fact_keys()
        v2 = fact_key('self._useV2', True) in fk
        isf = fact_key("element.pytype == '<f' or element.pytype == '<d'", True) in fk
        stores = [e for e in p.events if e.kind == 'store']
        data = [e.node.value for e in stores if norm(e.node.targets[0]) == 'pk.data']
        final = data[-1] if data else None
        parts = flatten_add(final) if final is not None else []
        ok_shape = len(parts) == 2 and all(isinstance(x, ast.Call) and dotted(x.func) == 'struct.pack' for x in parts)
        if not ok_shape:
            ctx.inst('R3', sv, 'write-layout', False, 'write payload is not pack(index) + pack(value): %s' % (norm(final) if final is not None else None))
            continue
        f0 = fold_in(sv, parts[0].args[0])
        ctx.inst('R3', sv, 'write-index[%s]' % ('V2' if v2 else 'V1'), f0 == ('<H' if v2 else '<B') and [norm(a) for a in parts[0].args[1:]] == ['element.ident'],
                 'index packed as %r from %s' % (f0, [norm(a) for a in parts[0].args[1:]]))
        vt = [norm(a) for a in parts[1].args]
        conv = parts[1].args[1] if len(parts[1].args) > 1 else None
        if isinstance(conv, ast.Name):
            binds = [s_.value for s_ in walk_own(sv.node) if isinstance(s_, ast.Assign) and len(s_.targets) == 1 and norm(s_.targets[0]) == conv.id]
            conv = next((b_ for b_ in binds if isinstance(b_, ast.Call) and not isinstance(b_.func, (ast.Name, ast.Attribute))), conv)
        # a converter picked from a computed table (`TABLE.get(pytype, int)(value)`) is beyond what is decided here: no verdict
        ctx.need(not (isinstance(conv, ast.Call) and not isinstance(conv.func, (ast.Name, ast.Attribute))), 'set_value: conversion of the value goes through a computed callable (%s)' %
                 (norm(conv.func)[:60] if isinstance(conv, ast.Call) else ''))
        want = 'float(%s)' % sv.params[2] if isf else 'int(%s)' % sv.params[2]
        ctx.inst('R2', sv, 'value-provenance[%s]' % ('float' if isf else 'int'), vt == ['element.pytype', want],
                 'value packed as %s, expected [element.pytype, %s] (no mask, modulo or clamp: struct raises on overflow)' % (vt, want))
        hdr = [e for e in p.calls(lambda c: method_call(c, 'set_header'))]
        ctx.inst('R3', sv, 'write-channel[%s]' % ('V2' if v2 else 'V1'), len(hdr) == 1 and [norm(a) for a in hdr[0].node.args] == ['CRTPPort.PARAM', 'WRITE_CHANNEL'],
                 'write requests go to (PARAM, WRITE_CHANNEL)')
    gens = {i.key for i in ctx.instances if i.key.startswith('write-index[')}
    ctx.inst('R3', sv, 'write-index-both-generations', gens == {'write-index[V2]', 'write-index[V1]'},
             'the index width must switch on the protocol generation; branches found: %s' % sorted(gens))
    ru = U.method('request_param_update')
    ps, _ = paths_of(ru)
    for p in ps:
        puts = p.calls(lambda c: method_call(c, 'put'))
        if not puts:
            continue
        fk_ = p.fact_keys()
        v2 = fact_key('self._useV2', True) in fk_ or any('get_protocol_version() < 4' in k[0] and not k[1] for k in fk_) or any('3 < ' in k[0] and 'get_protocol_version()' in k[0] and k[1] for k in fk_)
        stores = {norm(e.node.targets[0]): e.node.value for e in p.events if e.kind == 'store'}
        d = stores.get('pk.data')
        ok = isinstance(d, ast.Call) and fold_in(ru, d.args[0]) == ('<H' if v2 else '<B') and [norm(a) for a in d.args[1:]] == [ru.params[1]]
        ctx.inst('R3', ru, 'read-index[%s]' % ('V2' if v2 else 'V1'), ok, 'read request index: %s' % (norm(d) if d is not None else None))
        hdr = p.calls(lambda c: method_call(c, 'set_header'))
        ctx.inst('R3', ru, 'read-channel[%s]' % ('V2' if v2 else 'V1'), len(hdr) == 1 and [norm(a) for a in hdr[0].node.args] == ['CRTPPort.PARAM', 'READ_CHANNEL'],
                 'read requests go to (PARAM, READ_CHANNEL)')

    # ---- R4: single outstanding request ------------------------------------------------------
    run = U.method('run')
    g = cfg_of(run)
    sends = g.find(lambda n: method_call(n, 'send_packet'))
    acq = g.find(lambda n: method_call(n, 'acquire') and norm(n.func.value) == 'self.wait_lock')
    ctx.need(sends and len(acq) == 1, '_ParamUpdater.run: send/acquire not found')
    gets = g.find(lambda n: method_call(n, 'get') and norm(n.func.value) == 'self.request_queue')
    ctx.inst('R4', run, 'acquire-untimed', not acq[0][1].args and not acq[0][1].keywords, 'the wait for the previous reply must be an untimed acquire')
    for n, c in sends:
        ctx.inst('R4', run, 'send-after-acquire', g.dominates(acq[0][0], n) and all(g.dominates(x[0], acq[0][0]) for x in gets),
                 'every transmission follows dequeue then wait_lock.acquire() in the same iteration')
        keys = g.fact_keys_at(n)
        v2 = fact_key('self._useV2', True) in keys
        misc = fact_key('pk.channel == MISC_CHANNEL', True) in keys
        want = 'pk.data[:3]' if (v2 and misc) else 'pk.data[:2]' if v2 else 'pk.data[:1]'
        del want
        ctx.inst('R4', run, 'send-needs-link', fact_key('self.cf.link', True) in keys, 'nothing is sent without a link')
        ctx.inst('R4', run, 'sends-dequeued-packet', norm(c.args[0]) == 'pk' and any(isinstance(x[0].ast, ast.Assign) and norm(x[0].ast.targets[0]) == 'pk' for x in gets),
                 'the packet sent is the one dequeued')
    loop = [x for x in walk_own(run.node) if isinstance(x, ast.While)]
    ctx.need(len(loop) == 1, '_ParamUpdater.run: main loop not found')
    bps, _ = paths_of_block(run, loop[0].body)
    for p in bps:
        snd = [i for i, e in enumerate(p.events) if e.kind == 'call' and method_call(e.node, 'send_packet')]
        if not snd:
            continue
        fk = p.fact_keys()
        v2 = fact_key('self._useV2', True) in fk
        misc = fact_key('pk.channel == MISC_CHANNEL', True) in fk
        want = 'pk.data[:3]' if (v2 and misc) else 'pk.data[:2]' if v2 else 'pk.data[:1]'
        st = [norm(e.orig.value) for e in p.events[:snd[0]] if e.kind == 'store' and norm(e.node.targets[0]) == 'self._lock_pattern']
        ctx.inst('R4', run, 'pattern-before-send[%s%s]' % ('V2' if v2 else 'V1', ',misc' if misc else ''), st[-1:] == [want],
                 'release pattern stored before the send must be %s; stores on this path: %s' % (want, st))
        ctx.inst('R4', run, 'one-send-per-request[%s%s]' % ('V2' if v2 else 'V1', ',misc' if misc else ''), len(snd) == 1, 'one transmission per dequeued request')
    rels = []
    for f in U.methods.values():
        gf = cfg_of(f)
        for n, c in gf.find(lambda q: method_call(q, 'release') and norm(q.func.value) == 'self.wait_lock'):
            rels.append((f, gf, n))
    for f, gf, n in rels:
        keys = gf.fact_keys_at(n)
        if f.name == '_new_packet_cb':
            ok = fact_key('self._lock_pattern == release_pattern', True) in keys or \
                any(k_[1] and k_[0] in (fact_key('self._lock_pattern == pk.data[:%d]' % w_)[0] for w_ in (1, 2, 3)) for k_ in keys)      # the pattern with or without a local for it
            ctx.inst('R4', f, 'release-on-match@%s' % ('misc' if fact_key('pk.channel == MISC_CHANNEL', True) in keys else 'rw'), ok,
                     'the lock is released by a reply only if it matches the stored pattern; guards %s' % sorted(keys))
        elif f.name == 'run':
            ctx.inst('R4', f, 'release-no-link', fact_key('self.cf.link', False) in keys, 'run releases only on the no-link branch')
        else:
            ctx.inst('R4', f, 'release-site:' + f.name, f.name == 'close', 'unexpected release of wait_lock in %s' % f.qualname)
    cbk = U.method('_new_packet_cb')
    g = cfg_of(cbk)
    rp = [x for x in g.nodes if x.kind == 'stmt' and isinstance(x.ast, ast.Assign) and norm(x.ast.targets[0]) == 'release_pattern']
    for x in rp:
        keys = g.fact_keys_at(x)
        if fact_key('pk.channel == MISC_CHANNEL', True) in keys:
            want = 'pk.data[:3]'
        elif fact_key('self._useV2', True) in keys:
            want = 'pk.data[:2]'
        else:
            want = 'pk.data[:1]'
        ctx.inst('R4', cbk, 'compared-width:' + want, norm(x.ast.value) == want, 'reply prefix compared is %s, expected %s' % (norm(x.ast.value), want))

    # ---- R5 ----------------------------------------------------------------------------------
    strips = [x for x in g.nodes if x.kind == 'stmt' and isinstance(x.ast, ast.Assign) and norm(x.ast.targets[0]) == 'pk.data']
    ctx.need(len(strips) == 1, '_new_packet_cb: status byte strip not found')
    keys = g.fact_keys_at(strips[0])
    ctx.inst('R5', cbk, 'strip-read-only', fact_key('pk.channel == READ_CHANNEL', True) in keys and fact_key('self._useV2', True) in keys and
             norm(strips[0].ast.value) == 'pk.data[:2] + pk.data[3:]', 'status byte (index 2) removed only from current-protocol READ replies')
    # the strip happens after the pattern was taken from the unmodified reply or leaves bytes 0..1 intact: fine either way
    ucs = g.find(lambda n: isinstance(n, ast.Call) and norm(n.func) == 'self.updated_callback')
    for n, c in ucs:
        keys = g.fact_keys_at(n)
        ok = fact_key('self._lock_pattern == release_pattern', True) in keys or fact_key('command == MISC_VALUE_UPDATED', True) in keys
        ctx.inst('R5', cbk, 'deliver-solicited-or-notification', ok, 'values are delivered only for the awaited reply or a value-changed notification; guards %s' % sorted(keys))
    for n, c in ucs:
        if fact_key('pk.channel == READ_CHANNEL or pk.channel == WRITE_CHANNEL', True) in g.fact_keys_at(n) and fact_key('self._useV2', True) not in g.fact_keys_at(n):
            ctx.inst('R5', cbk, 'strip-before-deliver', g.path_avoiding(n, [strips[0]]) is None, 'the status byte is stripped before the value is decoded')
    cmdv = [s for s in walk_own(cbk.node) if isinstance(s, ast.Assign) and norm(s.targets[0]) == 'command']
    ctx.inst('R5', cbk, 'command=byte0', len(cmdv) == 1 and norm(cmdv[0].value) == 'pk.data[0]', 'MISC command is byte 0')

    # ---- R6: one-shot closures ------------------------------------------------------------------
    table = {'get_default_value': 'MISC_GET_DEFAULT_VALUE', 'persistent_clear': 'MISC_PERSISTENT_CLEAR',
             'persistent_store': 'MISC_PERSISTENT_STORE', 'persistent_get_state': 'MISC_PERSISTENT_GET_STATE'}
    for fname, cmd in table.items():
        f = P.method(fname)
        cl = f.nested('new_packet_cb')
        gc = cfg_of(cl)
        pkv = cl.params[0]
        consumed = gc.find(lambda n: isinstance(n, ast.Call) and (norm(n.func) == 'callback' or method_call(n, 'remove_port_callback')))
        ctx.need(consumed, '%s: closure does not consume the reply' % fname)
        idfact = fact_key("struct.unpack('<H', %s.data[1:3])[0] == element.ident" % pkv, True)
        for n, c in consumed:
            keys = gc.fact_keys_at(n)
            ctx.inst('R6', cl, '%s:channel+command' % fname, fact_key('%s.channel == MISC_CHANNEL' % pkv, True) in keys and fact_key('%s.data[0] == %s' % (pkv, cmd), True) in keys,
                     'reply consumed at line %d must be a MISC reply with command %s' % (n.line, cmd), line=n.line)
            ctx.inst('R6', cl, '%s:variable-id' % fname, idfact in keys,
                     'reply consumed at line %d without comparing its variable id (bytes 1..2) with the request\'s element.ident: with several requests '
                     'outstanding one reply is delivered to all of them' % n.line, line=n.line)
        # one shot: every delivery of the answer to the caller's callback is followed, on every path, by the removal of this handler
        # (a handler left behind by a refused request also receives the answer of the next request for the same parameter)
        rmv = [n for n, c in consumed if method_call(c, 'remove_port_callback')]
        dlv = [n for n, c in consumed if norm(c.func) == 'callback']
        leak = [n.line for n in dlv if gc.path_avoiding(n, [gc.exit], avoid=rmv) is not None]
        ctx.inst('R6', cl, '%s:handler-removed-after-every-answer' % fname, bool(dlv) and not leak,
                 'answers delivered at lines %s can leave the handler registered' % leak)
        packs = [c for c in walk_own(f.node) if isinstance(c, ast.Call) and dotted(c.func) == 'struct.pack' and fold_in(f, c.args[0]) == '<BH']
        ctx.inst('R6', f, '%s:request' % fname, len(packs) == 1 and [norm(a) for a in packs[0].args[1:]] == [cmd, 'element.ident'],
                 'request must be pack(<BH, %s, element.ident); found %s' % (cmd, [norm(c) for c in packs]))
        snd = [c for c in walk_own(f.node) if method_call(c, 'send_param_misc')]
        reg = [c for c in walk_own(f.node) if method_call(c, 'add_port_callback') and [norm(a) for a in c.args] == ['CRTPPort.PARAM', 'new_packet_cb']]
        ctx.inst('R6', f, '%s:registered-before-queued' % fname, len(snd) == 1 and len(reg) == 1 and reg[0].lineno < snd[0].lineno,
                 'the reply callback is registered before the request is queued')
        rem = [c for c in walk_own(cl.node) if method_call(c, 'remove_port_callback')]
        ctx.inst('R6', cl, '%s:one-shot' % fname, bool(rem) and all([norm(a) for a in c.args] == ['CRTPPort.PARAM', 'new_packet_cb'] for c in rem),
                 'the closure unregisters itself after consuming its reply')

    # ---- R7: decode and fan-out --------------------------------------------------------------------
    pu = P.method('_param_updated')
    g = cfg_of(pu)
    ids = [x for x in g.nodes if x.kind == 'stmt' and isinstance(x.ast, ast.Assign) and norm(x.ast.targets[0]) == 'id_index']
    vals = sorted((fact_key('pk.channel == MISC_CHANNEL', True) in g.fact_keys_at(x), fold_in(pu, x.ast.value)) for x in ids)
    ctx.inst('R7', pu, 'id-index', vals == [(False, 0), (True, 1)], 'id_index is 1 for MISC notifications and 0 otherwise; found %s' % vals)
    for x in [x for x in g.nodes if x.kind == 'stmt' and isinstance(x.ast, ast.Assign) and norm(x.ast.targets[0]) in ('var_id', 'value')]:
        v2 = fact_key('self._useV2', True) in g.fact_keys_at(x)
        t = norm(x.ast.targets[0])
        if t == 'var_id':
            want = "struct.unpack('<H', pk.data[id_index:id_index + 2])[0]" if v2 else 'pk.data[0]'
        else:
            # the payload slice may be bound to a local first: look through it, per protocol branch of the binding
            v = x.ast.value
            arg = v.value.args[1] if isinstance(v, ast.Subscript) and isinstance(v.value, ast.Call) and norm(v.value.func) == 'struct.unpack' and len(v.value.args) == 2 else None
            if isinstance(arg, ast.Name) and norm(v) == 'struct.unpack(element.pytype, %s)[0]' % arg.id:
                for d in g.reaching_defs(x, arg.id):
                    dv2 = fact_key('self._useV2', True) in g.fact_keys_at(d)
                    wantd = 'pk.data[id_index + 2:]' if dv2 else 'pk.data[1:]'
                    ctx.inst('R7', pu, 'value[%s]' % ('V2' if dv2 else 'V1'), isinstance(d.ast, ast.Assign) and norm(d.ast.value) == wantd and
                             (dv2 or fact_key('self._useV2', False) in g.fact_keys_at(d)), 'value payload is %s, expected %s' % (norm(d.ast.value), wantd))
                continue
            want = 'struct.unpack(element.pytype, pk.data[id_index + 2:])[0]' if v2 else 'struct.unpack(element.pytype, pk.data[1:])[0]'
        ctx.inst('R7', pu, '%s[%s]' % (t, 'V2' if v2 else 'V1'), norm(x.ast.value) == want, '%s decoded as %s, expected %s' % (t, norm(x.ast.value), want))
    st = {norm(s.targets[0]): norm(s.value) for s in sorted([s for s in walk_own(pu.node) if isinstance(s, ast.Assign)], key=lambda s: s.lineno)}
    param_lookup_rule(ctx, 'R7')
    ctx.inst('R7', pu, 'stored-string', st.get('value_s') in ('value.__str__()', 'str(value)') and st.get('self.values[element.group][element.name]') == 'value_s' and
             st.get('complete_name') == "'%s.%s' % (element.group, element.name)", 'one string is stored under values[group][name]')
    fan = [(n, c) for n, c in g.find(lambda n: method_call(n, 'call'))
           if norm(c.func.value) in ('self.param_update_callbacks[complete_name]', 'self.group_update_callbacks[element.group]', 'self.all_update_callback')]
    okf = sorted(norm(c.func.value) for n, c in fan) == sorted(['self.param_update_callbacks[complete_name]', 'self.group_update_callbacks[element.group]', 'self.all_update_callback']) and \
        all([norm(a) for a in c.args] == ['complete_name', 'value_s'] for n, c in fan) and all(fact_key('element', True) in g.fact_keys_at(n) for n, c in fan)
    ctx.inst('R7', pu, 'fan-out-once-each', okf, 'each of the three fan-outs is called once with (complete_name, value_s): %s' % [norm(c) for n, c in fan])
    # every answer is passed on: besides "the element exists" a fan-out depends only on whether anybody registered for that name /
    # group - not on the value (an unchanged value is still the answer to a request somebody is waiting for)
    extra = {}
    for n, c in fan:
        own = norm(c.func.value)
        for k in g.fact_keys_at(n):
            if k == fact_key('element', True) or k == fact_key('element is not None', True):
                continue
            if k[1] and k[0].endswith(' in self.param_update_callbacks') and own.startswith('self.param_update_callbacks['):
                continue
            if k[1] and k[0].endswith(' in self.group_update_callbacks') and own.startswith('self.group_update_callbacks['):
                continue
            extra.setdefault(own, []).append(k)
    ctx.inst('R7', pu, 'fan-out-for-every-answer', okf and not extra, 'conditions on the fan-outs other than "element found" and "somebody registered": %s' % extra)

    # ---- R8: FIFO, single consumer --------------------------------------------------------------------
    ini = U.method('__init__')
    q = [s for s in walk_own(ini.node) if isinstance(s, ast.Assign) and norm(s.targets[0]) == 'self.request_queue']
    ctx.inst('R8', ini, 'fifo-queue', len(q) == 1 and norm(q[0].value) == 'Queue()', 'requests travel through an unbounded FIFO Queue')
    prod, cons = [], []
    for f in U.methods.values():
        for c in walk_own(f.node):
            if isinstance(c, ast.Call) and isinstance(c.func, ast.Attribute) and norm(c.func.value) == 'self.request_queue':
                (prod if c.func.attr == 'put' else cons).append((f, c))
    ctx.inst('R8', U.method('run'), 'single-consumer', sorted(f.name for f, c in cons if not c.keywords) == ['run'], 'only run() takes requests off the queue (close() only drains)')
    ctx.inst('R8', U.method('run'), 'producers-put', len(prod) >= 3 and all(len(c.args) == 1 and not c.keywords for f, c in prod), 'all producers use put(pk)')
    pi = P.method('__init__')
    mk = [c for c in walk_own(pi.node) if isinstance(c, ast.Call) and dotted(c.func) == '_ParamUpdater']
    st_ = [c for c in walk_own(pi.node) if method_call(c, 'start') and norm(c.func.value) == 'self.param_updater']
    ctx.inst('R8', pi, 'one-updater', len(mk) == 1 and len(st_) == 1, 'exactly one updater thread per Param object')


    # ---- R9: table look-ups used by this subsystem (shared rule, see C03.R8) -----------------
    toc_lookup_rules(ctx, 'R9')

    # ---- R4 (continued): the pattern is forgotten before the lock is released -----------------
    cbk = U.method('_new_packet_cb')
    g = cfg_of(cbk)
    for n, c in g.find(lambda q: method_call(q, 'release') and norm(q.func.value) == 'self.wait_lock'):
        clr = [x for x in g.nodes if x.kind == 'stmt' and isinstance(x.ast, ast.Assign) and norm(x.ast.targets[0]) == 'self._lock_pattern' and norm(x.ast.value) == 'None'
               and g.dominates(x, n)]
        ctx.inst('R4', cbk, 'pattern-forgotten-before-release@%s' % ('misc' if fact_key('pk.channel == MISC_CHANNEL', True) in g.fact_keys_at(n) else 'rw'), bool(clr),
                 'the stored pattern is cleared before the lock is released, so a second copy of the same reply cannot release the lock of the next request')

    # ---- R11: the fan-out helper behind the three update-callback lists (shared rule, see C07.R2) --------
    from .c07 import caller_rules
    caller_rules(ctx, 'R11')

    # ---- R12: the type table that gives every parameter its struct format (shared rule, see C03.R6) -----
    param_type_table_rules(ctx, 'R12')
    param_metadata_rules(ctx, 'R12')
    from .c10 import retransmission_rules
    from .c10 import header_normalisation_rule
    header_normalisation_rule(ctx, 'R14')      # the answer must match the pending pattern, or the write is repeated after later ones (shared with C10.R8)
    retransmission_rules(ctx, 'R14', 'R14', 'R14')      # an answered write is never transmitted again (an old value after a newer one): retry decided under the send lock (shared with C10.R1/R2/R5)
    generation_switch_rules(ctx, 'R3')      # index width: Param, its updater and the table fetcher switch generation at the same version (shared with C03.R5)

    # ---- R13: the extended-type fetcher works on the table of the current connection ----------------------
    session_object_rules(ctx, 'R13')
    # read-only / type / index of a parameter may come from the TOC cache: what the cache stores is what it gives back (shared, C11.R4)
    from .c11 import cache_codec_rules
    cache_codec_rules(ctx, 'R13')
    # the one-request-at-a-time gate is a plain Lock: close() releases it "just in case" on every disconnect, which an unlocked Lock
    # refuses (error swallowed) but a Semaphore counts - after an idle disconnect two requests would go out back to back
    for cls_, attr in (('_ParamUpdater', 'self.wait_lock'), ('_ExtendedTypeFetcher', 'self._lock')):
        ini_ = m.cls('cflib/crazyflie/param.py', cls_).method('__init__')
        mk_ = [s_ for s_ in walk_own(ini_.node) if isinstance(s_, ast.Assign) and norm(s_.targets[0]) == attr]
        ctx.inst('R4', ini_, 'gate-is-a-lock:' + attr, len(mk_) == 1 and isinstance(mk_[0].value, ast.Call) and dotted(mk_[0].value.func) in ('Lock', 'threading.Lock') and not mk_[0].value.args,
                 '%s = %s; expected Lock()' % (attr, norm(mk_[0].value) if mk_ else None))

    # ---- R10: the extended-type fetcher (same single-outstanding-request protocol) ----------------
    ext_fetcher_rules(ctx, 'R10')


def flatten_add(node):
    if isinstance(node, ast.BinOp) and isinstance(node.op, ast.Add):
        return flatten_add(node.left) + flatten_add(node.right)
    return [node]


IDC = " and \\\n                    struct.unpack('<H', pk.data[1:3])[0] == element.ident:"
VARIANTS = [
    M('R3', PAR, "        self._useV2 = self.cf.platform.get_protocol_version() >= 4\n        toc_fetcher = TocFetcher(self.cf, ParamTocElement,", "        self._useV2 = self.cf.platform.get_protocol_version() > 4\n        toc_fetcher = TocFetcher(self.cf, ParamTocElement,", 'Param switches generation one version late'),
    M('R12', PAR, "            self.ctype = self.types[metadata & 0x0F][0]\n            self.pytype = self.types[metadata & 0x0F][1]", "            self.ctype = self.types[metadata & 0x07][0]\n            self.pytype = self.types[metadata & 0x07][1]", 'type mask loses the unsigned bit'),
    M('R12', PAR, "    RW_ACCESS = 0\n    RO_ACCESS = 1\n", "    RO_ACCESS = 0\n    RW_ACCESS = 1\n", 'access numbers swapped against stored caches'),
    M('R10', PAR, "                self._req_param = -1\n                try:", "                try:", 'fetcher stays tuned to the answered id'),
    M('R10', PAR, "        if pk.channel == MISC_CHANNEL and pk.data[0] == MISC_GET_EXTENDED_TYPE:\n            var_id", "        if pk.channel == MISC_CHANNEL:\n            var_id", 'any MISC packet answers (F-03a)'),
    M('R10', PAR, "                self._req_param = struct.unpack('<H', pk.data[1:3])[0]\n                self._cf.send_packet(pk, expected_reply=(tuple(pk.data[:3])))",
      "                self._cf.send_packet(pk, expected_reply=(tuple(pk.data[:3])))\n                self._req_param = struct.unpack('<H', pk.data[1:3])[0]", 'id published after the send'),
    M('R4', PAR, "                self.updated_callback(pk)\n                self._lock_pattern = None\n", "                self.updated_callback(pk)\n", 'pattern kept after release'),
    M('R1', PAR, "        elif element.access == ParamTocElement.RO_ACCESS:\n            logger.debug('[%s] is read only, no trying to set value',\n                         complete_name)\n            raise AttributeError('{} is read-only!'.format(complete_name))\n        else:",
      "        else:", 'read-only refusal dropped'),
    M('R2', PAR, "                value_nr = int(value)\n", "                value_nr = int(value) & 0xFFFFFFFF\n", 'value masked'),
    M('R2', PAR, "            if element.pytype == '<f' or element.pytype == '<d':", "            if element.pytype == '<f':", 'double treated as int'),
    M('R3', PAR, "            if self._useV2:\n                pk.data = struct.pack('<H', varid)\n            else:\n                pk.data = struct.pack('<B', varid)", "            pk.data = struct.pack('<B', varid)", '8-bit index on current protocol'),
    M('R3', PAR, "            pk.set_header(CRTPPort.PARAM, WRITE_CHANNEL)", "            pk.set_header(CRTPPort.PARAM, READ_CHANNEL)", 'write on read channel'),
    M('R4', PAR, "            if self._lock_pattern == release_pattern:\n                self._lock_pattern = None\n                self.wait_lock.release()", "            if True:\n                self._lock_pattern = None\n                self.wait_lock.release()", 'any misc reply releases'),
    M('R4', PAR, "                        self._lock_pattern = pk.data[:3]", "                        self._lock_pattern = pk.data[:2]", 'misc pattern width'),
    M('R4', PAR, "            pk = self.request_queue.get()  # Wait for request update\n            self.wait_lock.acquire()\n            if self.cf.link:\n                if self._useV2:\n                    if pk.channel == MISC_CHANNEL:",
      "            pk = self.request_queue.get()  # Wait for request update\n            self.wait_lock.acquire(timeout=0.5)\n            if self.cf.link:\n                if self._useV2:\n                    if pk.channel == MISC_CHANNEL:", 'timed acquire'),
    M('R5', PAR, "                if pk.channel == READ_CHANNEL:\n                    pk.data = pk.data[:2] + pk.data[3:]", "                pk.data = pk.data[:2] + pk.data[3:]", 'strip on write replies too'),
    M('R5', PAR, "            if (pk.channel != TOC_CHANNEL and self._lock_pattern == release_pattern and\n                    pk is not None):", "            if (pk.channel != TOC_CHANNEL and\n                    pk is not None):", 'unsolicited read delivered'),
    M('R6', PAR, "            if pk.channel == MISC_CHANNEL and pk.data[0] == MISC_PERSISTENT_GET_STATE" + IDC, "            if pk.channel == MISC_CHANNEL and pk.data[0] == MISC_PERSISTENT_GET_STATE:", 'F-04a reintroduced (get_state)'),
    M('R6', PAR, "            if pk.channel == MISC_CHANNEL and pk.data[0] == MISC_GET_DEFAULT_VALUE" + IDC, "            if pk.channel == MISC_CHANNEL and pk.data[0] == MISC_GET_DEFAULT_VALUE:", 'F-04a reintroduced (default)'),
    M('R6', PAR, "        pk.data = struct.pack('<BH', MISC_PERSISTENT_CLEAR, element.ident)", "        pk.data = struct.pack('<BH', MISC_PERSISTENT_STORE, element.ident)", 'clear sends store'),
    M('R7', PAR, "                value = struct.unpack(element.pytype, pk.data[id_index + 2:])[0]", "                value = struct.unpack(element.pytype, pk.data[id_index + 1:])[0]", 'value offset'),
    M('R7', PAR, "                self.group_update_callbacks[element.group].call(complete_name, value_s)", "                self.group_update_callbacks[element.group].call(complete_name, value)", 'group callback gets raw value'),
    M('R8', PAR, "        self.request_queue = Queue()\n        self.cf.add_port_callback(CRTPPort.PARAM, self._new_packet_cb)\n        self._should_close = False\n        self._lock_pattern = None", "        self.request_queue = LifoQueue()\n        self.cf.add_port_callback(CRTPPort.PARAM, self._new_packet_cb)\n        self._should_close = False\n        self._lock_pattern = None", 'LIFO queue'),
    B(PAR, "            if element.pytype == '<f' or element.pytype == '<d':\n                value_nr = float(value)\n            else:\n                value_nr = int(value)\n            pk.data += struct.pack(element.pytype, value_nr)",
      "            if element.pytype == '<f' or element.pytype == '<d':\n                pk.data += struct.pack(element.pytype, float(value))\n            else:\n                pk.data += struct.pack(element.pytype, int(value))", 'inline conversion'),
]
