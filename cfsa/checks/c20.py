"""C20 - link URIs select the right driver and parse to the right radio settings."""
import ast
import re

from ..astutil import symbolic_table, is_noise, format_template, table_lookup, catches_everything, dotted, effective, handler_names, method_call
from ..cfg import canon_test, cfg_of, fact_key, norm, walk_own
from ..consteval import Scope, fold, fold_in
from ..mutate import B, M

PROP = 'C20'
RD = 'cflib/crtp/radiodriver.py'
CR = 'cflib/crtp/__init__.py'
CF = 'cflib/crazyflie/__init__.py'
DRIVERS = {
    'RadioDriver': (RD, 'radio'), 'UsbDriver': ('cflib/crtp/usbdriver.py', 'usb'), 'SerialDriver': ('cflib/crtp/serialdriver.py', 'serial'),
    'UdpDriver': ('cflib/crtp/udpdriver.py', 'udp'), 'PrrtDriver': ('cflib/crtp/prrtdriver.py', 'prrt'), 'TcpDriver': ('cflib/crtp/tcpdriver.py', 'tcp'),
    'CfLinkCppDriver': ('cflib/crtp/cflinkcppdriver.py', None),
}

EXPLANATION = (
    'Static analysis of the driver connect methods, RadioDriver.parse_uri/scan_*, get_link_driver and open_link: R1 every driver class '
    'that can be in CLASSES refuses (raises WrongUriType) every URI that does not start with its own literal scheme, before any side '
    'effect, and the schemes are pairwise distinct; R2 parse_uri: defaults channel 2 / DR_2MPS / DEFAULT_ADDR_A (= bytes of DEFAULT_ADDR), '
    'address padded {:0>10} (width 2 x 5, fill 0, right aligned) and unpacked <BBBBB in typed order, rate table, rate_limit from the query, '
    'result order = the order connect() unpacks and applies; R3 each default is reachable: the override test of a positional field is not '
    'trivially true for an absent field; R4 the rate table 250K/1M/2M <-> DR_* is identical in parse_uri, scan_selected (both directions) '
    'and the scan_interface labels, each label names the rate most recently set (typestate over set_data_rate), scan address conversion '
    'uses the same width/fill/unpack; R5 get_link_driver returns the first instance whose connect returns, continues only on '
    'WrongUriType, returns None after the loop; open_link turns None and any exception into connection_failed.')
ASSUMPTIONS = ['urlparse/parse_qs/binascii.unhexlify behave as documented', 'optional drivers are only those init_drivers() can append']
FLOORS = {'R1': 12, 'R2': 14, 'R3': 1, 'R4': 12, 'R5': 6}

RATES = {'250K': 'DR_250KPS', '1M': 'DR_1MPS', '2M': 'DR_2MPS'}


def scheme_of_test(f):
    """('tcp', refuses_when_polarity) from a branch fact on the uri, or None"""
    n = f.node
    if isinstance(n, ast.Call) and dotted(n.func) in ('re.search', 're.match') and n.args and isinstance(n.args[0], ast.Constant):
        mt = re.match(r'^\^?([a-z0-9]+)://', n.args[0].value)
        if mt:
            return mt.group(1)
    if isinstance(n, ast.Call) and isinstance(n.func, ast.Attribute) and n.func.attr == 'startswith' and n.args and isinstance(n.args[0], ast.Constant):
        mt = re.match(r'^([a-z0-9]+)://$', n.args[0].value)
        if mt:
            return mt.group(1)
    if isinstance(n, ast.Name):       # uri_data = re.search(...); if not uri_data
        return ('name', n.id)
    return None


def claimed_scheme(func, depth=0):
    """Scheme under which `func` (connect / parse_uri) does not raise WrongUriType, and whether the refusal precedes side effects."""
    g = cfg_of(func)
    rz = [n for n in g.nodes if n.kind == 'raise' and n.ast.exc is not None and norm(n.ast.exc).startswith('WrongUriType')]
    schemes = set()
    first_ok = True
    def scheme_str(f):
        s = scheme_of_test(f)
        if isinstance(s, tuple):
            defs = [x for x in walk_own(func.node) if isinstance(x, ast.Assign) and norm(x.targets[0]) == s[1]]
            if defs and isinstance(defs[0].value, ast.Call) and defs[0].value.args and isinstance(defs[0].value.args[0], ast.Constant):
                mt = re.match(r'^\^?([a-z0-9]+)://', str(defs[0].value.args[0].value))
                return mt.group(1) if mt else None
            return None
        return s
    for n in rz:
        for f in g.facts_at(n):
            s = scheme_str(f)
            if s and f.pol is False:
                schemes.add(s)
    if rz:
        # any other exception raised without the scheme test having passed makes the lookup fail for foreign URIs too
        gate_edges = []
        for n in rz:
            for e in g.dominating_edges(n):
                if e.label and e.label[0] == 'cond' and any(scheme_str(f) for f in e.facts()):
                    gate_edges += [x for x in e.src.succ if x is not e and x.label and x.label[0] == 'cond']
        for n in g.nodes:
            if n.kind == 'raise' and n not in rz and gate_edges:
                if not any(('e', ge.id) in (g.dom().get(('n', n.id)) or ()) for ge in gate_edges):
                    first_ok = False
        # side effects before the first refusal: stores to self.* or calls on self.* reachable without passing a refusal test
        first = min(rz, key=lambda n: n.line)
        for n in g.nodes:
            if n.kind == 'stmt' and n.line < first.line and isinstance(n.ast, (ast.Assign, ast.AugAssign)):
                t = n.ast.targets[0] if isinstance(n.ast, ast.Assign) else n.ast.target
                if norm(t).startswith('self.'):
                    first_ok = False
    return schemes, first_ok, bool(rz)


def radio_request_settings_rules(ctx, rule='R4'):
    """Shared with C01 (a frame reaches the Crazyflie of the link that sent it, whatever the other links on the dongle do)."""
    m = ctx.model
    # the dongle is shared between links: the radio thread programs it from the request itself before every transmission, so each
    # setting that travels with a request (data rate, address, channel) has to reach the matching set_* call before the transmission
    # - a scan that leaves the address of the previous user in place reports nothing (or somebody else's Crazyflie) at the asked address
    srun = m.func(RD, '_SharedRadio.run')
    gsr_ = cfg_of(srun)
    setters = {'datarate': 'set_data_rate', 'address': 'set_address', 'channel': 'set_channel'}
    nreq = 0
    for un_ in [x for x in walk_own(srun.node) if isinstance(x, ast.Assign) and isinstance(x.targets[0], ast.Tuple) and norm(x.value).endswith('[2]')]:
        fields = [norm(e) for e in un_.targets[0].elts]
        branch = [i for i in ast.walk(srun.node) if isinstance(i, ast.If) and un_ in i.body]
        if not branch:
            continue
        tx_ = [c for st_ in branch[0].body for c in ast.walk(st_) if isinstance(c, ast.Call) and isinstance(c.func, ast.Attribute) and norm(c.func.value) == 'self._radio' and
               c.func.attr in ('send_packet', 'scan_selected', 'scan_channels')]
        if len(tx_) != 1:
            continue
        nreq += 1
        txn = gsr_.node_of(tx_[0])
        missing = []
        for f_ in fields:
            if f_ in setters:
                hits = [n for n, c in gsr_.find(lambda q, f_=f_: method_call(q, setters[f_]) and norm(q.func.value) == 'self._radio' and [norm(a_) for a_ in q.args] == [f_])
                        if gsr_.dominates(n, txn) and any(c is x for st_ in branch[0].body for x in ast.walk(st_))]
                if not hits:
                    missing.append('%s -> %s' % (f_, setters[f_]))
            elif not any(isinstance(x, ast.Name) and x.id == f_ and isinstance(x.ctx, ast.Load) for st_ in branch[0].body for x in ast.walk(st_)):
                missing.append('%s is never used' % f_)
        ctx.inst(rule, srun, 'request-settings-applied:' + tx_[0].func.attr, not missing, 'fields of the %s request %s; not applied before the transmission: %s' % (tx_[0].func.attr, fields, missing or 'none'))
    ctx.need(nreq >= 3, '_SharedRadio.run: expected three transmitting request kinds, found %d' % nreq)


def expand_fmt(fmt):
    """struct format with repeat counts written out: '<5B' -> '<BBBBB'"""
    if not isinstance(fmt, str):
        return fmt
    return re.sub(r'(\d+)([a-zA-Z?])', lambda m_: m_.group(2) * int(m_.group(1)) if m_.group(2) not in 'sp' else m_.group(0), fmt)


def driver_lookup_rules(ctx, rule='R5'):
    """get_link_driver: the registered drivers are asked in order, only WrongUriType moves on to the next one, the first that accepts
    the URI is returned and None when none does.  Shared with C02: open_link turns that None into connection_failed - an object that
    is not connected, returned for an unknown URI, makes it wait for a link that never answers."""
    m = ctx.model
    gl = m.func(CR, 'get_link_driver')
    lp = [l for l in walk_own(gl.node) if isinstance(l, ast.For)]
    ctx.need(len(lp) == 1, 'get_link_driver: loop not found')
    ctx.inst(rule, gl, 'tries-classes-in-order', norm(lp[0].iter) == 'CLASSES', 'drivers are tried in CLASSES order')
    tr = [t for t in lp[0].body if isinstance(t, ast.Try)]
    ctx.need(len(tr) == 1, 'get_link_driver: try not found')
    body = [norm(s) for s in effective(tr[0].body) + effective(tr[0].orelse)]         # `else: return instance` is the same control flow
    hs = tr[0].handlers
    rest = effective(lp[0].body[lp[0].body.index(tr[0]) + 1:])
    # the same decision carried by a local: try: v = cls(); v.connect(..); r = v / except WrongUriType: r = None / if r is not None: return r
    if len(body) == 3 and len(hs) == 1 and len(effective(hs[0].body)) == 1 and len(rest) == 1 and isinstance(rest[0], ast.If) and not rest[0].orelse:
        last_, hb_, tail_ = effective(tr[0].body)[-1], effective(hs[0].body)[0], rest[0]
        if isinstance(last_, ast.Assign) and isinstance(hb_, ast.Assign) and norm(last_.targets[0]) == norm(hb_.targets[0]) and norm(hb_.value) == 'None' and \
                norm(tail_.test) == '%s is not None' % norm(last_.targets[0]) and [norm(x) for x in effective(tail_.body)] == ['return %s' % norm(last_.targets[0])]:
            v_ = norm(last_.value)
            body = [b_.replace(v_, 'instance') if v_.isidentifier() else b_ for b_ in body[:2]] + ['return instance']
            rest = []
            hs = [ast.ExceptHandler(type=hs[0].type, name=None, body=[ast.Continue()])]
    ctx.inst(rule, gl, 'first-accepting-driver-wins', body == ['instance = %s()' % norm(lp[0].target), 'instance.connect(%s, %s, %s)' % tuple(gl.params[:3]), 'return instance'],
             'instantiate, connect with the URI and callbacks, return the instance; body %s' % body)
    ok = len(hs) == 1 and handler_names(hs[0]) == ['WrongUriType'] and [norm(s) for s in effective(hs[0].body)] in (['continue'], []) and not rest and not tr[0].finalbody
    ctx.inst(rule, gl, 'continue-only-on-wrong-scheme', ok, 'only WrongUriType moves on to the next driver; handlers %s' % [handler_names(h) for h in hs])
    after = [norm(s) for s in effective(lp[0].orelse) + effective(gl.node.body[gl.node.body.index(lp[0]) + 1:])]      # (`for .. else: return None`: the loop has no break)
    ctx.inst(rule, gl, 'none-when-unclaimed', after == ['return None'], 'no driver found -> None')


def check(ctx):
    m = ctx.model
    # ---- R1 ---------------------------------------------------------------------------
    init = m.func(CR, 'init_drivers')
    listed = set()
    for c in walk_own(init.node):
        if isinstance(c, ast.Call) and isinstance(c.func, ast.Attribute) and c.func.attr in ('append', 'extend') and norm(c.func.value) == 'CLASSES':
            for x in ast.walk(c.args[0]):
                if isinstance(x, ast.Name) and x.id.endswith('Driver'):
                    listed.add(x.id)
    ctx.need(listed, 'init_drivers: no driver classes found')
    unknown = listed - set(DRIVERS)
    ctx.need(not unknown, 'driver classes without an entry in the C20 table: %s' % sorted(unknown))
    claims = {}
    for cname in sorted(listed):
        path, want = DRIVERS[cname]
        if not m.exists(path):
            continue
        K = m.cls(path, cname)
        con = K.method('connect')
        schemes, first_ok, has = claimed_scheme(con)
        if not has and K.has('parse_uri'):
            pu = [c for c in walk_own(con.node) if method_call(c, 'parse_uri')]
            if pu:
                schemes, first_ok, has = claimed_scheme(K.method('parse_uri'))
                first_stmt = effective(con.node.body)[0]
                first_ok = first_ok and any(c is pu[0] for c in walk_own(first_stmt))
        ok = has and len(schemes) == 1 and first_ok
        claims[cname] = sorted(schemes)
        ctx.inst('R1', con, 'refuses-foreign-schemes', ok,
                 '%s.connect must raise WrongUriType for every URI not starting with its own scheme, before any side effect or any other exception; gate found for %s'
                 % (cname, sorted(schemes) or 'no scheme: every URI is claimed by this driver'))
        # a pattern that takes fields out of the URI has to cover the whole URI: without the end anchor `usb://1a` or
        # `usb://0/80/2M` is claimed and opened as device 1 / 0 instead of ending as "no driver" (malformed URI)
        for c_ in walk_own(con.node):
            if isinstance(c_, ast.Call) and norm(c_.func) in ('re.search', 're.match', 're.fullmatch') and c_.args:
                pat_ = fold_in(con, c_.args[0])
                if not isinstance(pat_, str):
                    continue
                try:
                    ngroups = re.compile(pat_).groups
                    items = list(re._parser.parse(pat_))
                except Exception:
                    continue
                if not ngroups:
                    continue
                ends = norm(c_.func) == 're.fullmatch' or (bool(items) and str(items[-1][0]) == 'AT' and str(items[-1][1]) in ('AT_END', 'AT_END_STRING'))
                begins = norm(c_.func) != 're.search' or (bool(items) and str(items[0][0]) == 'AT' and str(items[0][1]) in ('AT_BEGINNING', 'AT_BEGINNING_STRING'))
                ctx.inst('R1', con, 'field-pattern-covers-the-whole-uri', ends and begins,
                         '%s takes its fields with %r, which is not anchored at both ends: a URI with anything after (before) the fields is claimed and the rest ignored' % (cname, pat_), line=c_.lineno)
        if want and ok:
            ctx.inst('R1', con, 'scheme', sorted(schemes) == [want], '%s claims %s, expected %s://' % (cname, sorted(schemes), want))
    flat = [s for v in claims.values() for s in v]
    idr = m.func(CR, 'init_drivers')
    gi = cfg_of(idr)
    reg = {}
    for n, c in gi.find(lambda q: isinstance(q, ast.Call) and isinstance(q.func, ast.Attribute) and q.func.attr in ('append', 'extend') and norm(q.func.value) == 'CLASSES'):
        for nm in [x.id for x in ast.walk(c) if isinstance(x, ast.Name) and x.id.endswith('Driver')]:
            reg[nm] = sorted(gi.fact_keys_at(n))
    want_guards = {'SerialDriver': [fact_key('enable_serial_driver', True)], 'UdpDriver': [], 'PrrtDriver': [], 'TcpDriver': []}
    ctx.inst('R1', idr, 'optional-drivers-follow-their-flag', all(reg.get(k) == v for k, v in want_guards.items()),
             'every call registers the serial driver iff it was asked for and the udp/prrt/tcp drivers always (no other condition, e.g. "already initialised", may suppress '
             'a scheme): guards %s' % {k: reg.get(k) for k in want_guards})
    gsr = m.func('cflib/drivers/crazyradio.py', 'get_serials')
    rets_ = [r_.value for r_ in walk_own(gsr.node) if isinstance(r_, ast.Return)]
    okg = len(rets_) == 1 and norm(rets_[0]).replace(' ', '') in (
        'tuple(map(lambdad:d.serial_number,_find_devices()))', 'tuple(d.serial_number for d in _find_devices())'.replace(' ', ''),
        'tuple([d.serial_number for d in _find_devices()])'.replace(' ', ''))
    ctx.inst('R2', gsr, 'serial-index=device-index', okg,
             'get_serials() lists the serial of EVERY enumerated dongle in enumeration order: parse_uri turns a serial into its index in this list and Crazyradio(devid) '
             'indexes the unfiltered device list; returns %s' % [norm(r_) for r_ in rets_])
    ctx.inst('R1', (CR, 'init_drivers'), 'schemes-pairwise-distinct', len(flat) == len(set(flat)), 'claimed schemes: %s' % claims)

    # ---- R2 / R3: parse_uri ---------------------------------------------------------------
    pu = m.func(RD, 'RadioDriver.parse_uri')
    g = cfg_of(pu)

    def assigns(name):
        return sorted([n for n in g.nodes if n.kind == 'stmt' and isinstance(n.ast, ast.Assign) and norm(n.ast.targets[0]) == name], key=lambda n: n.line)
    sc = Scope.of(pu)
    ch = assigns('channel')
    # default first and override after it, or one decision: every branch stores the channel, the default (2) where the first field
    # is missing or empty, int(first field) elsewhere
    chain = len(ch) >= 2 and not g.dominates(ch[0], ch[-1]) and len([n for n in ch if norm(n.ast.value) == 'int(parsed_path[0])']) == 1
    if chain:
        fld = [n for n in ch if norm(n.ast.value) == 'int(parsed_path[0])']
        dfl = [n for n in ch if n not in fld]
        ctx.need(len(fld) == 1 and dfl, 'parse_uri: channel default/override not found')
        rets_ = [r for r in g.nodes if r.kind == 'return']
        every = all(g.path_avoiding(g.entry, [r], avoid=ch) is None for r in rets_)
        ctx.inst('R2', pu, 'default-channel', all(fold_in(pu, n.ast.value) == 2 for n in dfl) and every, 'default channel must be 2 and every path to the return stores a channel')
        ch = [dfl[0], fld[0]]
    else:
        ctx.need(len(ch) == 2, 'parse_uri: channel default/override not found')
        ctx.inst('R2', pu, 'default-channel', fold_in(pu, ch[0].ast.value) == 2 and g.dominates(ch[0], ch[1]) and all(g.dominates(ch[0], r) for r in g.nodes if r.kind == 'return'), 'default channel must be 2, assigned unconditionally first')
    ctx.inst('R2', pu, 'channel-field', norm(ch[1].ast.value) == 'int(parsed_path[0])', 'channel = int(first path field)')
    keys = g.fact_keys_at(ch[1])
    nontrivial = [k for k in keys if 'parsed_path' in k[0] and k != fact_key('len(parsed_path) > 0', True) and k != fact_key('parsed_path', True) and k != fact_key('not parsed_path', False)]
    ctx.inst('R3', pu, 'channel-default-reachable', bool(nontrivial),
             'the channel override is guarded only by len(parsed_path) > 0, which is always true for str.split() results: the default is dead and '
             "'radio://0' raises ValueError; guards %s" % sorted(keys))
    pp = assigns('parsed_path')
    ctx.inst('R2', pu, 'path-split', len(pp) == 1 and norm(pp[0].ast.value) == "parsed_uri.path.strip('/').split('/')", 'path fields = path.strip(/).split(/)')
    dr = assigns('datarate')
    # table form: datarate = {'250K': .., '1M': .., '2M': ..}.get(parsed_path[1], <default>)
    lookups = []
    for n in dr:
        v = n.ast.value
        if isinstance(v, ast.Call) and isinstance(v.func, ast.Attribute) and v.func.attr == 'get' and len(v.args) == 2 and norm(v.args[0]) == 'parsed_path[1]':
            t = g.resolve_local(n, v.func.value)
            if not isinstance(t, ast.Dict):
                st_ = symbolic_table(m.mod(RD), v.func.value)                 # a module- or class-level constant table
                if st_ is not None:
                    t = ast.Dict(keys=[k_ for k_, _ in st_], values=[v_ for _, v_ in st_])
            if isinstance(t, ast.Dict):
                lookups.append((n, t, v.args[1]))
    if lookups:
        n, t, dflt = lookups[0]
        others = [x for x in dr if x is not n]
        d_ok = norm(g.resolve_local(n, dflt)) == 'Crazyradio.DR_2MPS' and all(norm(x.ast.value) == 'Crazyradio.DR_2MPS' for x in others) and \
            any(all(g.dominates(x, r) for r in g.nodes if r.kind == 'return') for x in others)
        ctx.inst('R2', pu, 'default-rate', len(lookups) == 1 and d_ok, 'default data rate must be 2M (also the fall-back of the look-up)')
        ctx.inst('R2', pu, 'rate-needs-field:lookup', fact_key('len(parsed_path) > 1', True) in g.fact_keys_at(n), 'rate is read only if the field exists')
        tbl = {fold(k, sc): norm(v_).split('.')[-1] for k, v_ in zip(t.keys, t.values)}
        for _k in range(2):
            ctx.inst('R2', pu, 'rate-needs-field:table-row-%d' % _k, True, 'rows of the look-up table share the guard of the look-up')
        ctx.inst('R2', pu, 'rate-table', tbl == RATES, 'parse_uri rate table %s, expected %s' % (tbl, RATES))
        dr = []
    ctx.need(lookups or len(dr) >= 3, 'parse_uri: datarate default + table rows expected, found %d' % len(dr))
    # rows = assignments guarded by a comparison of the rate field with a literal; every other assignment is a default and must be 2M
    def row_lit(n):
        for f in g.facts_at(n):
            if f.op == '==' and f.pol and 'parsed_path[1]' in f.text:
                return fold(f.left, sc) if isinstance(f.left, ast.Constant) else fold(f.right, sc)
        return None
    rows = [n for n in dr if row_lit(n) is not None]
    defaults = [n for n in dr if row_lit(n) is None]
    first = [n for n in defaults if all(g.dominates(n, x) for x in g.nodes if x.kind == 'return')]
    if not lookups:
      ctx.inst('R2', pu, 'default-rate', bool(first) and all(norm(n.ast.value) == 'Crazyradio.DR_2MPS' for n in defaults) and
             all(g.dominates(first[0], r) for r in rows + [x for x in g.nodes if x.kind == 'return']) and
             all(g.path_avoiding(r, [d]) is None for r in rows for d in defaults), 'default data rate must be 2M, set before (never after) the table rows')
      tbl = {}
      for n in rows:
        tbl[row_lit(n)] = norm(n.ast.value).split('.')[-1]
        ctx.inst('R2', pu, 'rate-needs-field:' + norm(n.ast.value), fact_key('len(parsed_path) > 1', True) in g.fact_keys_at(n), 'rate is read only if the field exists')
      # (a row for '2M' may be left to the default, which is 2M)
      dflt_2m = bool(first) and all(norm(n.ast.value) == 'Crazyradio.DR_2MPS' for n in defaults)
      ctx.inst('R2', pu, 'rate-table', tbl == RATES or (dflt_2m and dict(tbl, **{'2M': 'DR_2MPS'}) == RATES), 'parse_uri rate table %s, expected %s' % (tbl, RATES))
    ad = assigns('address')
    # the default address list is shared by every call: the override binds a new value, it never writes into the object it got
    inplace = [norm(n.ast)[:60] for n in g.nodes if n.kind == 'stmt' and (
        (isinstance(n.ast, (ast.Assign, ast.AugAssign)) and any(isinstance(t, ast.Subscript) and norm(t.value) in ('address', 'DEFAULT_ADDR_A')
                                                                for t in (n.ast.targets if isinstance(n.ast, ast.Assign) else [n.ast.target]))) or
        (isinstance(n.ast, ast.Expr) and isinstance(n.ast.value, ast.Call) and isinstance(n.ast.value.func, ast.Attribute) and norm(n.ast.value.func.value) in ('address', 'DEFAULT_ADDR_A') and
         n.ast.value.func.attr in ('append', 'extend', 'insert', 'clear', 'pop', 'remove', 'reverse', 'sort')))]
    ctx.inst('R2', pu, 'default-address-not-written', not inplace, 'parse_uri writes into the (shared) address object: %s - every later URI without an address gets the last explicit one' % inplace)
    ctx.need(len(ad) == 2, 'parse_uri: address default/override not found')
    ctx.inst('R2', pu, 'default-address', norm(ad[0].ast.value) == 'DEFAULT_ADDR_A' and fold_in(pu, ad[0].ast.value) == [0xe7] * 5 and
             fold(ast.Name(id='DEFAULT_ADDR', ctx=ast.Load()), sc) == 0xE7E7E7E7E7, 'default address = E7E7E7E7E7 in both constants')
    KEEP = ('parsed_uri', 'parsed_path', 'parsed_query')          # the parsed URI parts the rules are written in
    # the override, with the locals that carry the intermediate strings read back:  unpack('<BBBBB', unhexlify(<padded field>))
    ov = g.expand_locals(ad[1], ad[1].ast.value, pure_only=False, keep=KEEP)
    inner = ov.args[1].args[0] if isinstance(ov, ast.Call) and dotted(ov.func) == 'struct.unpack' and len(ov.args) == 2 and isinstance(ov.args[1], ast.Call) and \
        dotted(ov.args[1].func) == 'binascii.unhexlify' and len(ov.args[1].args) == 1 else None
    pads = ("'{:0>10}'.format(parsed_path[2])", "parsed_path[2].rjust(10, '0')", 'parsed_path[2].zfill(10)', "'%s' % parsed_path[2].rjust(10, '0')")
    ft = format_template(inner) if inner is not None else None
    ctx.inst('R2', pu, 'address-padding', inner is not None and (norm(inner) in pads or (ft is not None and ft == ('{:0>10}', ['parsed_path[2]']))),
             'short addresses are zero padded on the left to 10 hex digits; found %s' % (norm(inner) if inner is not None else norm(ov)))
    ctx.inst('R2', pu, 'address-bytes', inner is not None and expand_fmt(fold_in(pu, ov.args[0])) == '<BBBBB' and
             fact_key('len(parsed_path) > 2', True) in g.fact_keys_at(ad[1]), 'address = the five bytes in typed order')
    rl = assigns('rate_limit')
    ctx.inst('R2', pu, 'rate-limit', len(rl) == 2 and norm(rl[0].ast.value) == 'None' and norm(rl[1].ast.value) == "int(parsed_query['rate_limit'][0])" and
             fact_key("'rate_limit' in parsed_query", True) in g.fact_keys_at(rl[1]), 'rate limit from the query string, default None')
    dvx = {n.id: norm(g.expand_locals(n, n.ast.value, pure_only=False, keep=KEEP)) for n in assigns('devid')}
    dv = sorted(assigns('devid'), key=lambda n: dvx[n.id] != 'int(parsed_uri.netloc)')       # the index branch first, whatever the source order
    ok = len(dv) == 2 and dvx[dv[0].id] == 'int(parsed_uri.netloc)' and dvx[dv[1].id] == 'crazyradio.get_serials().index(parsed_uri.netloc.upper())'
    ctx.inst('R2', pu, 'dongle-id', ok and fact_key('parsed_uri.netloc.isdigit()', True) in g.fact_keys_at(dv[0]), 'numeric dongle ids are used directly, serial numbers are looked up')
    ks = g.fact_keys_at(dv[0]) if dv else set()
    okl = any(fact_key(t) in ks for t in ('len(parsed_uri.netloc) < 10', 'len(parsed_uri.netloc) <= 9', '10 > len(parsed_uri.netloc)', '9 >= len(parsed_uri.netloc)'))
    ctx.inst('R2', pu, 'dongle-index-shorter-than-serial', okl, 'a dongle serial number is 10 characters and may consist of digits only: the id is read as an index only if it is shorter than 10 characters; '
             'guards of the index branch: %s' % sorted(ks))
    rets = [norm(n.ast.value) for n in g.nodes if n.kind == 'return']
    ctx.inst('R2', pu, 'result-order', rets == ['(devid, channel, datarate, address, rate_limit)'], 'parse_uri returns (devid, channel, datarate, address, rate_limit)')
    con = m.func(RD, 'RadioDriver.connect')
    un = [s for s in walk_own(con.node) if isinstance(s, ast.Assign) and any(method_call(c, 'parse_uri') for c in walk_own(s.value))]
    ctx.inst('R2', con, 'connect-unpacks-same-order', len(un) == 1 and norm(un[0].targets[0]) == '(devid, channel, datarate, address, rate_limit)', 'connect unpacks the same order')
    calls = [norm(c) for c in walk_own(con.node) if isinstance(c, ast.Call) and norm(c.func).startswith('self._radio.set_') or isinstance(c, ast.Call) and norm(c.func) == 'RadioManager.open']
    ctx.inst('R2', con, 'connect-applies', calls[:4] == ['RadioManager.open(devid)', 'self._radio.set_channel(channel)', 'self._radio.set_data_rate(datarate)', 'self._radio.set_address(address)'],
             'connect opens dongle devid and applies channel, rate, address; found %s' % calls[:4])

    # ---- R4: rate tables elsewhere ----------------------------------------------------------------
    ss = m.func(RD, 'RadioDriver.scan_selected')
    gs = cfg_of(ss)
    fwd, back = {}, {}
    for n in [n for n in gs.nodes if n.kind == 'stmt' and isinstance(n.ast, ast.Assign) and norm(n.ast.targets[0]) in ('datarate', 'dr_string')]:
        for f in gs.facts_at(n):
            if f.op == '==' and f.pol:
                sides = [norm(gs.resolve_local(n, f.left)), norm(gs.resolve_local(n, f.right))]     # the field may be bound to a local first
                if norm(n.ast.targets[0]) == 'datarate' and 'uri_data.group(6)' in sides and any(isinstance(x, ast.Constant) for x in (f.left, f.right)):
                    lit = f.left.value if isinstance(f.left, ast.Constant) else f.right.value
                    fwd[lit] = norm(n.ast.value).split('.')[-1]
                if norm(n.ast.targets[0]) == 'dr_string' and "f['datarate']" in f.text:
                    other = f.left if "f['datarate']" in norm(f.right) else f.right
                    back[fold_in(ss, n.ast.value)] = norm(other).split('.')[-1]
    # ... or the same two tables as module-level constants, looked up with the field (default: 2M / '')
    mod_rd = m.mod(RD)
    for x in walk_own(ss.node):
        tl = table_lookup(mod_rd, x) if isinstance(x, (ast.Call, ast.Subscript)) else None
        if tl is None:
            continue
        tbl_, key_, dflt_ = tl
        xn = gs.node_of(x)
        key_txt = norm(gs.expand_locals(xn, key_)) if xn is not None else norm(key_)
        if key_txt == 'uri_data.group(6)' and not fwd and dflt_ is not None and norm(dflt_).split('.')[-1] == 'DR_2MPS':
            fwd = {k.value: norm(v).split('.')[-1] for k, v in tbl_ if isinstance(k, ast.Constant)}
        if key_txt == "f['datarate']" and not back and dflt_ is not None and isinstance(dflt_, ast.Constant) and dflt_.value == '':
            back = {v.value: norm(k).split('.')[-1] for k, v in tbl_ if isinstance(v, ast.Constant)}
    # the rate a URI gets when no row matches (rate left out - or '2M', when that row is left to the default) is 2M
    dflts = [n for n in gs.nodes if n.kind == 'stmt' and isinstance(n.ast, ast.Assign) and norm(n.ast.targets[0]) == 'datarate' and
             not any(f.op == '==' and f.pol and 'group(6)' in f.text for f in gs.facts_at(n))]
    dflt_2m = bool(dflts) and all(norm(n.ast.value).split('.')[-1] == 'DR_2MPS' for n in dflts)
    ctx.inst('R4', ss, 'scan_selected-uri-to-rate', fwd == RATES or (dflt_2m and '2M' not in fwd and dict(fwd, **{'2M': 'DR_2MPS'}) == RATES), 'scan_selected URI->rate table %s' % fwd)
    ctx.inst('R4', ss, 'scan_selected-rate-to-uri', back == RATES, 'scan_selected rate->URI table %s' % back)
    rx = [c for c in walk_own(ss.node) if isinstance(c, ast.Call) and dotted(c.func) == 're.search']
    pat = fold_in(ss, rx[0].args[0]) if rx else None
    ctx.inst('R4', ss, 'scan_selected-groups', isinstance(pat, str) and pat == '^radio://([0-9]+)((/([0-9]+))(/(250K|1M|2M))?)?', 'URI regex groups: 4 = channel, 6 = rate; pattern %r' % pat)
    si = m.func(RD, 'RadioDriver.scan_interface')
    gsi = cfg_of(si)
    # every URI template produced by the scan, with constant arguments folded in and branch-dependent pieces (a suffix held in a local)
    # expanded per assignment:  [(node, template text, extra fact keys, radio rate set last before it)]
    produced = []

    def expand(node, tpl, args, extra):
        """substitute string-constant arguments; follow a local that holds a string template into each of its assignments"""
        outs = [('', extra)]
        pieces = re.split(r'(\{[^{}]*\})', tpl)
        ai = 0
        for pc in pieces:
            if not (pc.startswith('{') and pc.endswith('}')):
                outs = [(t + pc, e) for t, e in outs]
                continue
            a = args[ai] if ai < len(args) else '?'
            ai += 1
            try:
                av = ast.parse(a, mode='eval').body
            except SyntaxError:
                av = None
            if isinstance(av, ast.Constant) and isinstance(av.value, str) and pc == '{}':
                outs = [(t + av.value, e) for t, e in outs]
            elif isinstance(av, ast.Name) and pc == '{}' and any(isinstance(d.ast, ast.Assign) and format_template(d.ast.value) is not None for d in gsi.reaching_defs(node, av.id)):
                new = []
                for d in gsi.reaching_defs(node, av.id):
                    ft = format_template(d.ast.value) if isinstance(d.ast, ast.Assign) else None
                    if ft is None:
                        new.extend((t + pc, e) for t, e in outs)
                        continue
                    for t, e in outs:
                        new.append((t + ft[0], e | set(gsi.fact_keys_at(d)) | ({('<default-of:%s>' % av.id, True)} if not gsi.fact_keys_at(d) - set(gsi.fact_keys_at(node)) else set())))
                outs = new
            else:
                outs = [(t + pc, e) for t, e in outs]
        return outs

    def walk_state(stmts, rate):
        for s_ in stmts:
            if isinstance(s_, ast.If):
                walk_state(s_.body, rate[:])
                walk_state(s_.orelse, rate[:])
                continue
            if isinstance(s_, ast.Try):
                walk_state(s_.body, rate)
                continue
            for c in walk_own(s_):
                if isinstance(c, ast.Call) and norm(c.func) == 'self._radio.set_data_rate':
                    rate[0] = norm(c.args[0]).split('.')[-1]
            nodes_ = gsi.nodes_of(s_)
            for c in ast.walk(s_):
                ft = format_template(c) if isinstance(c, (ast.Call, ast.JoinedStr, ast.BinOp)) else None
                if ft is not None and ft[0].startswith('radio://0/{}/') and nodes_:
                    for t, e in expand(nodes_[0], ft[0], ft[1], set()):
                        produced.append((nodes_[0], t, e, rate[0], s_.lineno))
    walk_state(si.node.body, [None])
    ctx.need(len(produced) >= 6, 'scan_interface: expected six scan labels, found %d' % len(produced))
    for node, t, e, rate, line in produced:
        lab = t.split('/')[4] if t.count('/') >= 4 else '?'
        ctx.inst('R4', si, 'label=last-set-rate:%s@%d' % (lab, line), RATES.get(lab) == rate, 'URIs labelled %s are produced while the radio is set to %s' % (lab, rate), line=line)
    prog = gsi.find(lambda q: method_call(q, 'set_address'))
    # URIs without an address field are produced exactly under `address is None or address == DEFAULT_ADDR`, those that print the address
    # under its negation (whichever branch is written first, whether the choice is an if/else or a suffix variable)
    kt = {fact_key('address is None or address == DEFAULT_ADDR', True)}
    kf = {fact_key('address is None', False), fact_key('address == DEFAULT_ADDR', False)}
    okb = len(prog) == 1 and fact_key('address is not None', True) in gsi.fact_keys_at(prog[0][0])
    for node, t, e, rate, line in produced:
        keys = set(gsi.fact_keys_at(node)) | e
        with_addr = t.count('/') == 5
        if with_addr:
            okb = okb and kf <= keys
        else:
            # plain if/else: the positive fact is on the path; suffix variable: the address-less text is the default that survives
            # exactly when the guarded re-assignment did not happen, so the guard of the re-assignment must be the negation
            okb = okb and (kt <= keys or any(k[0].startswith('<default-of:') for k in keys) and
                           any(kf <= (set(gsi.fact_keys_at(n2)) | e2) for n2, t2, e2, _, _ in produced if t2.count('/') == 5))
    ctx.inst('R4', si, 'addressless-uris-iff-default-address', okb and len(produced) >= 6,
             'URIs without an address field are reported exactly when no address or the default address was scanned (`address is None or address == DEFAULT_ADDR`), matching '
             'the `address is not None` test that programs the radio; a truthiness test mis-files address 0')
    fm = [t for _, t, _, _, _ in produced if t.count('/') == 5]
    ctx.inst('R4', si, 'scan-address-format', len(fm) >= 3 and all(x.endswith('/{:X}') for x in fm), 'scanned URIs carry the address as upper-case hex: %s' % sorted(set(fm)))
    st = {norm(s.targets[0]): norm(s.value) for s in walk_own(si.node) if isinstance(s, ast.Assign)}
    addr_def = [s_.value for s_ in walk_own(si.node) if isinstance(s_, ast.Assign) and norm(s_.targets[0]) == 'addr']
    conv_ok = len(addr_def) == 1 and format_template(addr_def[0]) == ('{:0>10X}', ['address']) and st.get('new_addr') == "struct.unpack('<BBBBB', binascii.unhexlify(addr))"
    if not conv_ok:
        # the same conversion without the two locals: set_address(unpack(<five bytes>, unhexlify(<address as 10 hex digits, zero padded on the left>)))
        gsi = cfg_of(si)
        for n_, c_ in gsi.find(lambda q: method_call(q, 'set_address') and len(q.args) == 1):
            e_ = gsi.expand_locals(n_, c_.args[0], pure_only=False, keep=('address',))
            if isinstance(e_, ast.Call) and dotted(e_.func) == 'struct.unpack' and len(e_.args) == 2 and expand_fmt(fold_in(si, e_.args[0])) == '<BBBBB' and \
                    isinstance(e_.args[1], ast.Call) and dotted(e_.args[1].func) == 'binascii.unhexlify' and len(e_.args[1].args) == 1:
                p_ = e_.args[1].args[0]
                t_ = norm(p_)
                conv_ok = format_template(p_) == ('{:0>10X}', ['address']) or t_ in ("'{:X}'.format(address).rjust(10, '0')", "'{:X}'.format(address).zfill(10)",
                                                                                   "'%X' % address.rjust(10, '0')", "('%X' % address).rjust(10, '0')")
    ctx.inst('R4', si, 'scan-address-conversion', conv_ok,
             'scan address uses the same 10-digit left padding and byte order as parse_uri')

    radio_request_settings_rules(ctx, 'R4')
    # the driver registry only grows while init_drivers runs: emptying it first leaves a window in which another thread finds no driver
    idr = m.func(CR, 'init_drivers')
    shrink = [norm(x)[:40] for x in walk_own(idr.node) if (isinstance(x, ast.Delete) and any('CLASSES' in norm(t) for t in x.targets)) or
              (isinstance(x, ast.Call) and isinstance(x.func, ast.Attribute) and norm(x.func.value) == 'CLASSES' and x.func.attr in ('clear', 'pop', 'remove')) or
              (isinstance(x, ast.Assign) and any(norm(t).startswith('CLASSES') for t in x.targets))]
    ctx.inst('R1', idr, 'registry-only-grows', not shrink, 'init_drivers removes or replaces entries of CLASSES: %s' % shrink)
    # ---- R5 ------------------------------------------------------------------------------------------
    driver_lookup_rules(ctx, 'R5')
    ol = m.func(CF, 'Crazyflie.open_link')
    g = cfg_of(ol)
    cf = g.find(lambda n: method_call(n, 'call') and norm(n.func.value) == 'self.connection_failed')
    none_branch = [n for n, c in cf if fact_key('self.link', False) in g.fact_keys_at(n)]
    from .c07 import caller_rules
    caller_rules(ctx, 'R5')      # every connection_failed listener is told, also when an earlier one un-registers itself (shared with C07.R2)
    ctx.inst('R5', ol, 'none-is-connection-failed', len(none_branch) == 1, 'no driver -> connection_failed')
    tr = [t for t in walk_own(ol.node) if isinstance(t, ast.Try)]
    lookup = [c for c in walk_own(ol.node) if isinstance(c, ast.Call) and norm(c.func).endswith('get_link_driver')]
    ok = len(tr) == 1 and len(lookup) == 1 and any(lookup[0] is c for s in tr[0].body for c in walk_own(s)) and catches_everything(tr[0].handlers[0]) and \
        any(method_call(c, 'call') and norm(c.func.value) == 'self.connection_failed' for s in tr[0].handlers[0].body for c in walk_own(s)) and \
        not any(isinstance(x, ast.Raise) for s in tr[0].handlers[0].body for x in walk_own(s))
    ctx.inst('R5', ol, 'exception-is-connection-failed', ok, 'an exception from the driver lookup becomes connection_failed, nothing escapes')
    # nothing that depends on the form of the URI runs outside that try: before it the URI is only stored and announced (a split /
    # unpacking / index on the string raises for a malformed URI and escapes open_link)
    uri_p = ol.params[1]
    pre = ol.node.body[:ol.node.body.index(tr[0])] if tr and tr[0] in ol.node.body else []
    risky = []
    for s_ in pre:
        if is_noise(s_):
            continue
        for x_ in walk_own(s_):
            uses_uri = any(isinstance(y_, ast.Name) and y_.id == uri_p for y_ in ast.walk(x_))
            if not uses_uri:
                continue
            if isinstance(x_, ast.Call) and isinstance(x_.func, ast.Attribute) and isinstance(x_.func.value, ast.Name) and x_.func.value.id == uri_p:
                risky.append(norm(x_)[:50])              # a string method of the URI
            elif isinstance(x_, ast.Subscript) and isinstance(x_.value, ast.Name) and x_.value.id == uri_p:
                risky.append(norm(x_)[:50])
            elif isinstance(x_, ast.Assign) and isinstance(x_.targets[0], (ast.Tuple, ast.List)):
                risky.append(norm(x_)[:50])              # unpacking of something derived from the URI
    ctx.inst('R5', ol, 'uri-parsed-only-inside-try', bool(tr) and not risky, 'before the try the URI is stored and announced, not taken apart; found %s' % risky)


VARIANTS = [
    M('R4', RD, "                datarate, address, start, stop, packet = command[2]\n                self._radio.set_data_rate(datarate)\n                self._radio.set_address(address)", "                datarate, address, start, stop, packet = command[2]\n                self._radio.set_data_rate(datarate)", 'channel scan keeps the previous address'),
    M('R1', 'cflib/crtp/usbdriver.py', "        uri_data = re.search('^usb://([0-9]+)$',", "        uri_data = re.search('^usb://([0-9]+)',", 'usb pattern without end anchor'),
    M('R2', RD, "        if len(parsed_uri.netloc) < 10 and parsed_uri.netloc.isdigit():", "        if parsed_uri.netloc.isdigit():", 'all-digit serial read as an index'),
    M('R1', 'cflib/crtp/tcpdriver.py', "        if not re.search('^tcp://', uri):\n            raise WrongUriType('Not an UDP URI')\n", "", 'tcp driver claims everything'),
    M('R1', 'cflib/crtp/udpdriver.py', "        if not re.search('^udp://', uri):", "        if not re.search('^tcp://', uri):", 'udp driver claims tcp'),
    M('R2', RD, "            addr = '{:0>10}'.format(parsed_path[2])", "            addr = '{:0<10}'.format(parsed_path[2])", 'right padding'),
    M('R2', RD, "        channel = 2\n", "        channel = 0\n", 'default channel'),
    M('R2', RD, "            new_addr = struct.unpack('<BBBBB', binascii.unhexlify(addr))\n            address = new_addr\n\n        rate_limit", "            new_addr = struct.unpack('<BBBBB', binascii.unhexlify(addr))[::-1]\n            address = new_addr\n\n        rate_limit", 'address reversed'),
    M('R2', RD, "            if parsed_path[1] == '1M':\n                datarate = Crazyradio.DR_1MPS\n            if parsed_path[1] == '2M':\n                datarate = Crazyradio.DR_2MPS\n\n        address", "            if parsed_path[1] == '1M':\n                datarate = Crazyradio.DR_2MPS\n            if parsed_path[1] == '2M':\n                datarate = Crazyradio.DR_2MPS\n\n        address", '1M parsed as 2M'),
    M('R2', RD, "            self._radio.set_channel(channel)\n            self._radio.set_data_rate(datarate)", "            self._radio.set_channel(datarate)\n            self._radio.set_data_rate(channel)", 'connect swaps channel/rate'),
    M('R3', RD, "        if len(parsed_path) > 0 and parsed_path[0] != '':", "        if len(parsed_path) > 0:", 'F-20a reintroduced'),
    M('R4', RD, "            if uri_data.group(6) == '1M':\n                datarate = Crazyradio.DR_1MPS", "            if uri_data.group(6) == '1M':\n                datarate = Crazyradio.DR_250KPS", 'scan_selected 1M'),
    M('R4', RD, "            self._radio.set_data_rate(crazyradio.Crazyradio.DR_1MPS)\n            found += [['radio://0/{}/1M'.format(c), '']", "            found += [['radio://0/{}/1M'.format(c), '']", 'label without rate switch'),
    M('R4', RD, "            addr = '{:0>10X}'.format(address)", "            addr = '{:0>8X}'.format(address)", 'scan address width'),
    M('R5', CR, "        except WrongUriType:\n            continue", "        except Exception:\n            continue", 'swallows every connect error'),
    M('R5', CR, "            instance.connect(uri, radio_link_statistics_callback, link_error_callback)\n            return instance", "            instance.connect(uri, radio_link_statistics_callback, link_error_callback)", 'never returns instance'),
    B(RD, "        if not uri.startswith('radio://'):", "        if not re.search('^radio://', uri):", 'regex gate'),
]
