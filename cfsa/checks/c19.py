"""C19 - swarm actions run once per member with the right arguments and error report."""
import ast

from ..astutil import callable_parts, catches_everything, dotted, effective, method_call
from ..cfg import cfg_of, fact_key, norm, walk_own
from ..consteval import fold_in
from ..flow import cannot_raise
from ..mutate import B, M
from ..symexec import paths_of

PROP = 'C19'
SW = 'cflib/crazyflie/swarm.py'

EXPLANATION = (
    'Static analysis (ast, CFG dominators, path summaries) of Swarm: R1 parallel_safe creates, records and starts one '
    'thread per member unconditionally and a loop joining every recorded thread (no timeout) dominates the reporter '
    'inspection and every normal exit; R2 it raises only if the reporter flags an error, chaining an element of '
    'reporter.errors; the thread wrapper runs the action inside try/except Exception and reports; Reporter sets flag and '
    'appends; R3 parallel swallows every Exception; R4 sequential calls func(*args) exactly once per member in dict order, '
    'args = [scf] + args_dict[uri], and the wrapper argument positions agree with the list built by parallel_safe; '
    'R5 open_links refuses a second open, marks open only after success, closes every link and re-raises on failure; '
    'close_links closes every member. Thread interleavings are covered by the join-dominates-inspection argument.')
ASSUMPTIONS = ['Thread.join() without timeout returns only after the thread function finished',
               'list.append is atomic under the GIL (Reporter._errors)']
FLOORS = {'R1': 6, 'R2': 6, 'R3': 2, 'R4': 5, 'R5': 7}


def loop_unconditional(g, loop_node, node):
    """node executes on every iteration: it post-dominates the loop body entry
    inside the body, approximated as: facts at node == facts at loop header plus nothing,
    and no break/continue/return/raise inside the body before it."""
    base = g.fact_keys_at(loop_node)
    return g.fact_keys_at(node) == base


def body_has_escape(loop):
    for n in walk_own(loop):
        if n is loop:
            continue
        if isinstance(n, (ast.Break, ast.Continue, ast.Return, ast.Raise)):
            return True
    return False


def iter_is_members(it):
    t = norm(it)
    return t in ('self._cfs.items()', 'self._cfs', 'self._cfs.values()', 'self._cfs.keys()')


def check(ctx):
    m = ctx.model
    ps = m.func(SW, 'Swarm.parallel_safe')
    g = cfg_of(ps)

    # ---- R1 ------------------------------------------------------------------
    loops = [n for n in g.nodes if n.kind == 'for']
    create = [(n, l) for l in loops for n in g.loop_body_nodes(l)
              if n.kind == 'stmt' and isinstance(n.ast, ast.Assign) and isinstance(n.ast.value, ast.Call)
              and dotted(n.ast.value.func) in ('Thread', 'threading.Thread')]
    ctx.need(len(create) == 1, 'parallel_safe: expected one Thread(...) creation inside a for loop, found %d' % len(create))
    cnode, cloop = create[0]
    tvar = norm(cnode.ast.targets[0])
    ctx.inst('R1', ps, 'member-loop', iter_is_members(cloop.ast.iter) and norm(cloop.ast.iter) == 'self._cfs.items()',
             'thread creation loop iterates %s (must be every member: self._cfs.items())' % norm(cloop.ast.iter))
    body = g.loop_body_nodes(cloop)
    appends = [n for n in body for c in walk_own(n.ast) if n.kind == 'stmt' and method_call(c, 'append')
               and c.args and norm(c.args[0]) == tvar]
    starts = [n for n in body for c in walk_own(n.ast) if n.kind == 'stmt' and method_call(c, 'start')
              and norm(c.func.value) == tvar]
    esc = body_has_escape(cloop.ast)
    ok = len(appends) == 1 and loop_unconditional(g, cloop, appends[0]) and not esc
    ctx.inst('R1', ps, 'record-every-thread', ok, 'each created thread must be appended to the join list on every iteration '
             '(appends=%d, escapes=%s)' % (len(appends), esc))
    ok = len(starts) == 1 and loop_unconditional(g, cloop, starts[0]) and not esc
    ctx.inst('R1', ps, 'start-every-thread', ok, 'each created thread must be started on every iteration (starts=%d)' % len(starts))
    ctx.need(appends, 'parallel_safe: no append of the created thread')
    lst = norm([c for c in walk_own(appends[0].ast) if method_call(c, 'append')][0].func.value)
    # the join loop
    jl = []
    for l in loops:
        if l is cloop:
            continue
        for n in g.loop_body_nodes(l):
            for c in walk_own(n.ast) if n.kind == 'stmt' else []:
                if method_call(c, 'join') and isinstance(l.ast.target, ast.Name) and norm(c.func.value) == l.ast.target.id:
                    jl.append((l, n, c))
    ctx.need(len(jl) >= 1, 'parallel_safe: no loop joining the threads found')
    jloop, jnode, jcall = jl[0]
    ok = norm(jloop.ast.iter) == lst and loop_unconditional(g, jloop, jnode) and not body_has_escape(jloop.ast)
    ctx.inst('R1', ps, 'join-all', ok, 'join loop must iterate the whole list %s and join unconditionally; iterates %s' % (lst, norm(jloop.ast.iter)))
    ctx.inst('R1', ps, 'join-untimed', not jcall.args and not jcall.keywords, 'join must be untimed; found %s' % norm(jcall))
    ctx.inst('R1', ps, 'create-before-join', g.dominates(cloop, jloop), 'creation loop must precede the join loop')
    insp = g.find(lambda n: method_call(n, 'is_error_reported') or (isinstance(n, ast.Attribute) and n.attr in ('error_reported', 'errors')
                                                                    and isinstance(n.ctx, ast.Load)))
    ctx.need(insp, 'parallel_safe: reporter inspection not found')
    for n, x in insp:
        # the loop's exit edge must dominate: every path to the inspection went through "join loop finished"
        exit_edges = [e for e in jloop.succ if e.label and e.label[0] == 'iter' and e.label[2] is False]
        ok = g.dominates(jloop, n) and any(e in g.dominating_edges(n) for e in exit_edges)
        ctx.inst('R1', ps, 'join-dominates-inspection:' + norm(x)[:40], ok,
                 'reporter is inspected at line %d before all threads were joined' % n.line)
    exit_edges = [e for e in jloop.succ if e.label and e.label[0] == 'iter' and e.label[2] is False]
    ok = ('n', jloop.id) in (g.dom().get(('n', g.exit.id)) or set()) and any(('e', e.id) in g.dom()[('n', g.exit.id)] for e in exit_edges)
    ctx.inst('R1', ps, 'join-dominates-exit', ok, 'every normal return of parallel_safe must follow the completed join loop')
    # thread target / args
    call = cnode.ast.value
    kw = {k.arg: k.value for k in call.keywords}
    tgt0 = kw.get('target')
    if isinstance(tgt0, ast.Name):
        b0 = [s_.value for s_ in walk_own(ps.node) if isinstance(s_, ast.Assign) and len(s_.targets) == 1 and norm(s_.targets[0]) == tgt0.id]
        tgt0 = b0[0] if len(b0) == 1 else tgt0
    if isinstance(tgt0, ast.Call) and norm(tgt0.func) in ('partial', 'functools.partial') and tgt0.args:
        tgt0 = tgt0.args[0]                    # the wrapper with its first arguments bound (they are accounted for under thread-args-layout)
    ctx.inst('R1', ps, 'thread-target', tgt0 is not None and norm(tgt0) == 'self._thread_function_wrapper',
             'threads must run the reporting wrapper; target=%s' % (norm(kw['target']) if 'target' in kw else None))

    # ---- R4 (argument assembly) ---------------------------------------------
    pad = m.func(SW, 'Swarm._process_args_dict')
    pp, ex = paths_of(pad)
    rets = sorted({norm(p.returned()) if p.returned() is not None else 'None' for p in pp})
    par = pad.params
    ctx.need(len(par) == 4, '_process_args_dict signature changed: %s' % par)
    scf, uri, ad = par[1], par[2], par[3]
    want = sorted(['[%s]' % scf, '[%s, *%s[%s]]' % (scf, ad, uri)])
    ctx.inst('R4', pad, 'args=[scf]+args_dict[uri]', rets == want, 'return values per path %s, expected %s (the entry is appended with extend semantics: any sequence, not only a list)' % (rets, want))
    conds = sorted({tuple(sorted(p.fact_keys())) for p in pp})
    ctx.inst('R4', pad, 'args-dict-optional', conds == sorted([(fact_key(ad, True),), (fact_key(ad, False),)]),
             'argument dictionary consulted iff given; path conditions %s' % (conds,))

    # wrapper positions
    wr = m.func(SW, 'Swarm._thread_function_wrapper')
    wp, _ = paths_of(wr)
    va = wr.node.args.vararg.arg if wr.node.args.vararg else None
    ctx.need(va is not None, '_thread_function_wrapper no longer takes *args')
    fcalls = []
    for p in wp:
        for e in p.calls():
            if norm(e.node.func) == '%s[0]' % va:
                fcalls.append(norm(e.node))
    import re as _re
    fcalls = [_re.sub(r'\bislice\((\w+), (\d+), None\)', r'\1[\2:]', t_) for t_ in fcalls]          # islice(args, 2, None) spreads args[2:]
    ok_w = sorted(set(fcalls)) == ['%s[0](*%s[2:])' % (va, va)]
    # list built by parallel_safe
    pps, _ = paths_of(ps)
    targs = set()
    eff_targets = set()
    for p in pps:
        for e in p.events:
            if e.kind == 'call' and dotted(e.node.func) in ('Thread', 'threading.Thread'):
                kws = {k.arg: e.expanded(k.value) for k in e.node.keywords}
                tgt_, args_ = kws.get('target'), kws.get('args')
                pre = []
                # target=partial(W, a, b), args=X   is   target=W, args=[a, b] + X
                if isinstance(tgt_, ast.Name):
                    b_ = [s_.value for s_ in walk_own(ps.node) if isinstance(s_, ast.Assign) and len(s_.targets) == 1 and norm(s_.targets[0]) == tgt_.id]
                    tgt_ = b_[0] if len(b_) == 1 else tgt_
                if isinstance(tgt_, ast.Call) and norm(tgt_.func) in ('partial', 'functools.partial') and tgt_.args and not tgt_.keywords:
                    pre = [norm(a_) for a_ in tgt_.args[1:]]
                    tgt_ = tgt_.args[0]
                eff_targets.add(norm(tgt_) if tgt_ is not None else None)
                if args_ is not None:
                    t_ = norm(args_)
                    # [a, b, *X] (a list extended by X) is [a, b] + X
                    mt_ = _re.match(r'^\[(.*), \*(self\._process_args_dict\(.*\))\]$', t_)
                    if mt_:
                        t_ = '[%s] + %s' % (mt_.group(1), mt_.group(2))
                    if pre:
                        t_ = '[%s] + %s' % (', '.join(pre), t_)
                    targs.add(t_)
    pars = ps.params
    tnames = [norm(x) for x in cloop.ast.target.elts] if isinstance(cloop.ast.target, ast.Tuple) else []
    ctx.need(len(tnames) == 2, 'member loop target is not (uri, scf)')
    rv = [norm(x.func.value) for n, x in insp if isinstance(x, ast.Call)]
    ctx.need(rv, 'parallel_safe: reporter.is_error_reported() receiver not found')
    want_args = '[%s, %s] + self._process_args_dict(<%s@loop>, <%s@loop>, %s)' % (pars[1], rv[0], tnames[1], tnames[0], pars[2])
    norm_got = sorted(targs)
    rdef = [st for st in walk_own(ps.node) if isinstance(st, ast.Assign) and norm(st.targets[0]) == rv[0]]
    ok_w = ok_w and len(rdef) == 1 and norm(rdef[0].value) in ('self.Reporter()', 'Swarm.Reporter()') and \
        not any(isinstance(a, (ast.For, ast.While)) and rdef[0] in list(walk_own(a)) for a in walk_own(ps.node))
    ctx.inst('R4', ps, 'thread-args-layout', ok_w and norm_got == [want_args],
             'wrapper calls %s; thread args %s; expected func at 0, reporter at 1, then member args (%s)' % (sorted(set(fcalls)), norm_got, want_args))

    # ---- R2 -----------------------------------------------------------------
    raises = [n for n in g.nodes if n.kind == 'raise']
    ctx.need(raises, 'parallel_safe never raises')
    for n in raises:
        keys = g.fact_keys_at(n)
        ok = fact_key('reporter.is_error_reported()', True) in keys
        ctx.inst('R2', ps, 'raise-iff-reported:L', ok, 'raise at line %d must be guarded by reporter.is_error_reported(); guards %s' % (n.line, sorted(keys)))
        cause = n.ast.cause
        okc = False
        if cause is not None:
            src = cause
            if isinstance(cause, ast.Name):
                defs = [s for s in walk_own(ps.node) if isinstance(s, ast.Assign) and norm(s.targets[0]) == cause.id]
                src = defs[-1].value if defs else cause
            # is_error_reported() promises one error, not two: only the first or the last element exists for sure
            okc = isinstance(src, ast.Subscript) and norm(src.value) == 'reporter.errors' and fold_in(ps, src.slice) in (0, -1)
        ctx.inst('R2', ps, 'raise-chained', okc, 'raise must chain an element of reporter.errors (`from`); found cause %s' % (norm(cause) if cause else None))
    # the only way to leave with the flag set is the raise: inspection's true edge leads to raise on all paths
    tests = [n for n in g.nodes if n.kind == 'if' and 'is_error_reported' in norm(n.ast.test) and any(g.dominates(n, r) for r in raises)]
    ctx.need(len(tests) >= 1, 'parallel_safe: no test of reporter.is_error_reported() guards the raise')
    tests = tests[-1:]
    # the edge on which an error WAS reported (the true edge of `if reported:` or the false edge of `if not reported:`)
    want_f = fact_key('reporter.is_error_reported()', True)
    tedge = [e for e in tests[0].succ if e.label and e.label[0] == 'cond' and any(f.key() == want_f for f in e.facts())]
    p_ok = tedge and g.path_avoiding(tests[0], [g.exit], avoid=[], avoid_edges=[e for e in tests[0].succ if e not in tedge]) is None
    ctx.inst('R2', ps, 'reported-implies-raise', bool(p_ok), 'when an error was reported every path must raise')
    # wrapper barrier
    tries = [t for t in walk_own(wr.node) if isinstance(t, ast.Try)]
    fc = [c for c in walk_own(wr.node) if isinstance(c, ast.Call) and isinstance(c.func, (ast.Name, ast.Subscript)) and
          (norm(c.func) in ('func', '%s[0]' % va))]
    ctx.need(len(tries) >= 1 and len(fc) == 1, 'wrapper: try / action call not found')
    with_call = [t_ for t_ in tries if any(fc[0] is c for s in t_.body for c in walk_own(s))]
    t = with_call[0] if with_call else tries[0]              # the try around the action (another one may guard the unpacking of the arguments)
    in_try = any(fc[0] is c for s in t.body for c in walk_own(s))
    hs = [h for h in t.handlers if catches_everything(h)]
    rep = [c for h in hs for s in h.body for c in walk_own(s) if method_call(c, 'report_error') and h.name and
           [norm(a) for a in c.args] == [h.name]]
    ctx.inst('R2', wr, 'wrapper-catches', in_try and len(hs) >= 1 and t.handlers[0] is hs[0],
             'action must run inside try/except Exception (first handler catches everything)')
    ctx.inst('R2', wr, 'wrapper-reports', len(rep) == 1, 'handler must pass the caught exception to reporter.report_error(e)')
    # action executed exactly once
    ctx.inst('R2', wr, 'action-once', len(fc) == 1 and not any(isinstance(x, (ast.For, ast.While)) for x in walk_own(wr.node)),
             'wrapper must call the action exactly once')
    rk = m.cls(SW, 'Swarm.Reporter')
    re_ = rk.method('report_error')
    flag_true = [s for s in walk_own(re_.node) if isinstance(s, ast.Assign) and isinstance(s.value, ast.Constant) and s.value.value is True
                 and norm(s.targets[0]).startswith('self.')]
    app = [c for c in walk_own(re_.node) if method_call(c, 'append') and [norm(a) for a in c.args] == [re_.params[1]]]
    ier = rk.method('is_error_reported')
    flag = norm(flag_true[0].targets[0]) if flag_true else None
    lst_txt = norm(app[0].func.value) if app else ''
    r_ok = [s for s in walk_own(ier.node) if isinstance(s, ast.Return) and s.value is not None and
            norm(s.value) in ((flag,) if flag else ()) + ('len(%s) > 0' % lst_txt, 'bool(%s)' % lst_txt)]
    rets = [s for s in walk_own(ier.node) if isinstance(s, ast.Return)]
    ctx.inst('R2', re_, 'reporter-flag', len(app) == 1 and len(r_ok) == 1 and len(rets) == 1 and
             (len(flag_true) == 1 or norm(r_ok[0].value) != flag) and
             not any(isinstance(x, (ast.If, ast.Try)) for x in walk_own(re_.node)),
             'report_error must unconditionally append the error and set the flag that is_error_reported returns '
             '(flag stores: %d, appends: %d, matching returns: %d)' % (len(flag_true), len(app), len(r_ok)))
    ri = rk.method('__init__') if rk.has('__init__') else None
    inits = {norm(s_.targets[0]): norm(s_.value) for s_ in walk_own(ri.node) if isinstance(s_, ast.Assign)} if ri else {}
    cls_level = sorted(k for k in rk.consts if ('self.' + k) in (lst_txt, flag))
    ok_i = ri is not None and inits.get(lst_txt) in ('[]', 'list()') and (flag is None or inits.get(flag) == 'False') and not cls_level
    ctx.inst('R2', (SW, 'Swarm.Reporter'), 'reporter-state-per-instance', ok_i,
             'each Reporter must start with its own empty error list and cleared flag (assigned in __init__); class-level %s would be shared by every swarm action ever run' % cls_level)
    errp = rk.method('errors')
    lst_attr = norm(app[0].func.value) if app else None
    r2 = [s for s in walk_own(errp.node) if isinstance(s, ast.Return) and s.value is not None and norm(s.value) == lst_attr]
    ctx.inst('R2', errp, 'reporter-errors', len(r2) == 1, 'errors must expose the appended list')

    # ---- R3 -----------------------------------------------------------------
    pl = m.func(SW, 'Swarm.parallel')
    body = effective(pl.node.body)
    ok = len(body) == 1 and isinstance(body[0], ast.Try) and body[0].handlers and catches_everything(body[0].handlers[0]) and \
        not any(isinstance(x, ast.Raise) for h in body[0].handlers for s in h.body for x in walk_own(s)) and not body[0].finalbody
    if ok:
        # ... and the handler itself cannot fail: pass, or logging of plain names (taking the swallowed exception apart - its cause, its
        # traceback - raises for exceptions that do not have one, and parallel() then raises after all)
        hb = [s_ for h_ in body[0].handlers for s_ in h_.body]
        ctx.inst('R3', pl, 'handler-cannot-raise', all(cannot_raise(s_) for s_ in hb), 'statements of the handler that may raise: %s' % [norm(s_)[:60] for s_ in hb if not cannot_raise(s_)])
    ctx.inst('R3', pl, 'swallows-exceptions', ok, 'parallel must wrap its whole body in try/except Exception without re-raising')
    cs = [c for c in walk_own(pl.node) if method_call(c, 'parallel_safe')]
    ctx.inst('R3', pl, 'delegates', len(cs) == 1 and [norm(a) for a in cs[0].args] == pl.params[1:3],
             'parallel must run parallel_safe(func, args_dict) once; found %s' % [norm(c) for c in cs])

    # ---- R4 sequential --------------------------------------------------------
    sq = m.func(SW, 'Swarm.sequential')
    gs = cfg_of(sq)
    sl = [n for n in gs.nodes if n.kind == 'for']
    ctx.need(len(sl) == 1, 'sequential: expected one loop')
    ctx.inst('R4', sq, 'member-loop', norm(sl[0].ast.iter) == 'self._cfs.items()' and isinstance(sl[0].ast.target, ast.Tuple),
             'sequential iterates %s (must be self._cfs.items(), insertion order of the given URIs)' % norm(sl[0].ast.iter))
    sp, _ = paths_of(sq)
    fcs = set()
    n_calls = 0
    for p in sp:
        for e in p.calls(lambda c: norm(c.func) == sq.params[1]):
            fcs.add(norm(e.expanded()))
            n_calls = max(n_calls, len(p.calls(lambda c: norm(c.func) == sq.params[1])))
    tn = [norm(x) for x in sl[0].ast.target.elts] if isinstance(sl[0].ast.target, ast.Tuple) else ['?', '?']
    want = '%s(*self._process_args_dict(<%s@loop>, <%s@loop>, %s))' % (sq.params[1], tn[1], tn[0], sq.params[2])
    body_nodes = gs.loop_body_nodes(sl[0])
    call_nodes = [n for n in body_nodes for c in walk_own(n.ast) if n.kind == 'stmt' and isinstance(c, ast.Call) and norm(c.func) == sq.params[1]]
    ok = sorted(fcs) == [want] and n_calls == 1 and len(call_nodes) == 1 and loop_unconditional(gs, sl[0], call_nodes[0]) and \
        not body_has_escape(sl[0].ast)
    ctx.inst('R4', sq, 'call-once-per-member', ok, 'per iteration exactly one %s; found %s (x%d)' % (want, sorted(fcs), n_calls))

    # ---- R5 -----------------------------------------------------------------
    ol = m.func(SW, 'Swarm.open_links')
    go = cfg_of(ol)
    eff_ = effective(ol.node.body)
    ok = bool(eff_) and isinstance(eff_[0], ast.If) and norm(eff_[0].test) == 'self._is_open' and \
        all(isinstance(s, ast.Raise) for s in effective(eff_[0].body)[-1:])
    swi = m.func(SW, 'Swarm.__init__')
    loops_ = [l for l in walk_own(swi.node) if isinstance(l, ast.For)]
    ctx.inst('R4', swi, 'members-in-given-order', len(loops_) == 1 and norm(loops_[0].iter) == swi.params[1] and
             any(isinstance(s_, ast.Assign) and norm(s_.targets[0]) == 'self._cfs[%s]' % norm(loops_[0].target) for s_ in walk_own(loops_[0])),
             'the member table is filled by iterating the given URIs as given (sequential actions run in that order); loop over %s' % [norm(l.iter) for l in loops_])
    sdc = m.func('cflib/crazyflie/syncCrazyflie.py', 'SyncCrazyflie._disconnected')
    gd_ = cfg_of(sdc)
    clr = [n for n in gd_.nodes if n.kind == 'stmt' and isinstance(n.ast, ast.Assign) and norm(n.ast.targets[0]) == 'self._is_link_open' and norm(n.ast.value) == 'False']
    ctx.inst('R5', sdc, 'link-loss-always-clears-open-flag', len(clr) == 1 and not gd_.fact_keys_at(clr[0]) and ('n', clr[0].id) in (gd_.dom().get(('n', gd_.exit.id)) or ()),
             'a lost link clears _is_link_open on every path (also while open_link is still waiting): open_link must then report the failure and the swarm closes every link')
    # ... and open_link reports the failure exactly when the link is not open after the wait - judged by the open flag, not by
    # whether an error text was recorded (a failure with an empty message is a failure)
    sol = m.func('cflib/crazyflie/syncCrazyflie.py', 'SyncCrazyflie.open_link')
    gso = cfg_of(sol)
    waits = gso.find(lambda q: method_call(q, 'wait') and '_connect_event' in norm(q.func.value))
    rs_ = [n_ for n_ in gso.nodes if n_.kind == 'raise' and waits and gso.dominates(waits[0][0], n_)]
    okf = len(waits) == 1 and len(rs_) == 1 and {k_ for k_ in gso.fact_keys_at(rs_[0]) if 'is_link_open()' not in k_[0]} == {fact_key('self._is_link_open', False)} and \
        gso.path_avoiding(waits[0][0], [gso.exit], avoid=[], avoid_edges=[e_ for n_ in gso.nodes for e_ in n_.succ
                                                                          if any(f_.key() == fact_key('self._is_link_open', True) for f_ in e_.facts())]) is None
    ctx.inst('R5', sol, 'failure-iff-link-not-open', okf, 'after the wait open_link raises iff _is_link_open is false (and returns normally only when it is true); guards of the raise %s' %
             (sorted(gso.fact_keys_at(rs_[0])) if rs_ else 'raise after the wait not found'))
    from .c02 import sync_wait_release_rules
    from .c02 import disconnect_listener_rules, failed_open_rules
    disconnect_listener_rules(ctx, 'R5')      # SyncCrazyflie._disconnected is reached (it is what lets a failed open_link return): no listener before it raises (shared with C02.R2)
    failed_open_rules(ctx, 'R5')      # a member whose open failed half-way does not keep its driver: close_links() only closes members that are open (shared with C02.R1)
    sync_wait_release_rules(ctx, 'R5')      # a member whose attempt ends (any of the three ways) returns from open_link (shared with C02.R5)
    ctx.inst('R5', ol, 'refuse-second-open', ok, 'open_links must start with `if self._is_open: raise`')
    sets = [n for n in go.nodes if n.kind == 'stmt' and isinstance(n.ast, ast.Assign) and norm(n.ast.targets[0]) == 'self._is_open'
            and isinstance(n.ast.value, ast.Constant) and n.ast.value.value is True]
    opens = go.find(lambda c: method_call(c, 'parallel_safe') or method_call(c, 'open_link'))
    ctx.need(sets and opens, 'open_links: flag store or open call not found')
    ok = all(go.dominates(opens[0][0], s) for s in sets) and \
        all(go.path_avoiding(opens[0][0], [s], avoid_edges=[e for e in opens[0][0].succ if e.label == ('raise',)]) is not None for s in sets)
    # the flag must not be reachable through the exception edge of the open call
    exc_edges = [e for e in opens[0][0].succ if e.label == ('raise',)]
    only_normal = all(go.path_avoiding(opens[0][0], [s], avoid_edges=[e for e in opens[0][0].succ if e not in exc_edges]) is None for s in sets)
    ctx.inst('R5', ol, 'open-flag-after-success', ok and only_normal, '_is_open = True only after the opening call returned normally')
    tr = [t for t in walk_own(ol.node) if isinstance(t, ast.Try)]
    ctx.need(tr, 'open_links: no try')
    h = tr[0].handlers[0] if tr[0].handlers else None
    okh = h is not None and catches_everything(h)
    closes = [c for s in (h.body if h else []) for c in walk_own(s) if method_call(c, 'close_links')]
    rr = [s for s in (h.body if h else []) if isinstance(s, ast.Raise)]
    ctx.inst('R5', ol, 'close-all-on-failure', okh and len(closes) == 1, 'handler for any Exception must call close_links()')
    ok_rr = bool(rr) and (rr[-1].exc is None or (h.name and norm(rr[-1].exc) == h.name)) and h.body[-1] is rr[-1]
    ctx.inst('R5', ol, 'reraise', ok_rr, 'handler must re-raise the failure')
    if closes and rr:
        ctx.inst('R5', ol, 'close-before-reraise', closes[0].lineno < rr[-1].lineno, 'close_links() must run before the re-raise')
    lam = [c for c in walk_own(ol.node) if method_call(c, 'parallel_safe')]
    cp = callable_parts(m.cls(SW, 'Swarm'), lam[0].args[0], ol) if len(lam) == 1 and lam[0].args else None      # a lambda or a small method of the class
    okl = cp is not None and any(method_call(c, 'open_link') and norm(c.func.value) == cp[0] for b_ in cp[1] for c in ast.walk(b_))
    if not okl and len(lam) == 1 and lam[0].args:
        # operator.methodcaller('open_link') - directly or under a module-level name - calls .open_link() on its argument
        a0 = lam[0].args[0]
        if isinstance(a0, ast.Name) and a0.id in m.mod(SW).consts:
            a0 = m.mod(SW).consts[a0.id]
        okl = isinstance(a0, ast.Call) and norm(a0.func) in ('methodcaller', 'operator.methodcaller') and [norm(x_) for x_ in a0.args] == ["'open_link'"] and not a0.keywords
    ctx.inst('R5', ol, 'opens-every-member', bool(okl), 'open_links must open every member through parallel_safe(lambda scf: scf.open_link())')
    cl = m.func(SW, 'Swarm.close_links')
    gc = cfg_of(cl)
    ll = [n for n in gc.nodes if n.kind == 'for']
    ctx.need(len(ll) == 1, 'close_links: expected one loop')
    cc = [n for n in gc.loop_body_nodes(ll[0]) if n.kind == 'stmt' and any(method_call(c, 'close_link') for c in walk_own(n.ast))]
    ok = iter_is_members(ll[0].ast.iter) and len(cc) == 1 and loop_unconditional(gc, ll[0], cc[0]) and not body_has_escape(ll[0].ast)
    ctx.inst('R5', cl, 'close-every-member', ok, 'close_links must call close_link() on every member unconditionally')
    fl = [n for n in gc.nodes if n.kind == 'stmt' and isinstance(n.ast, ast.Assign) and norm(n.ast.targets[0]) == 'self._is_open'
          and isinstance(n.ast.value, ast.Constant) and n.ast.value.value is False]
    ctx.inst('R5', cl, 'flag-reset', len(fl) == 1 and ('n', fl[0].id) in (gc.dom().get(('n', gc.exit.id)) or ()),
             'close_links must reset _is_open on every normal path')
    ex = m.func(SW, 'Swarm.__exit__')
    xs = [s for s in ex.node.body if isinstance(s, ast.Expr) and method_call(s.value, 'close_links')]
    ctx.inst('R5', ex, 'exit-closes', len(xs) == 1, '__exit__ must call close_links() unconditionally')


VARIANTS = [
    M('R2', SW, "            first_error = reporter.errors[0]", "            first_error = reporter.errors[1]", 'second error chained'),
    M('R5', 'cflib/crazyflie/syncCrazyflie.py', "        if self._connect_event:\n            # The link was lost before the connection was fully set up\n            self._error_message = 'Connection to %s lost during connection setup' % link_uri\n            self._connect_event.set()\n", "", 'link loss during set-up never wakes open_link'),
    M('R1', SW, '        for thread in threads:\n            thread.join()', '        for thread in threads[:1]:\n            thread.join()', 'join only first'),
    M('R1', SW, '        for thread in threads:\n            thread.join()', '        for thread in threads:\n            thread.join(1.0)', 'timed join'),
    M('R1', SW, '            threads.append(thread)\n            thread.start()', '            thread.start()\n            if not args_dict:\n                threads.append(thread)', 'conditional record'),
    M('R1', SW, "        for thread in threads:\n            thread.join()\n\n        if reporter.is_error_reported():\n            first_error = reporter.errors[0]\n            raise Exception('One or more threads raised an exception when '\n                            'executing parallel task') from first_error",
      "        if reporter.is_error_reported():\n            first_error = reporter.errors[0]\n            raise Exception('One or more threads raised an exception when '\n                            'executing parallel task') from first_error\n        for thread in threads:\n            thread.join()", 'inspect before join'),
    M('R2', SW, "'executing parallel task') from first_error", "'executing parallel task')", 'no chaining'),
    M('R2', SW, '        except Exception as e:\n            if reporter:', '        except ValueError as e:\n            if reporter:', 'narrow wrapper handler'),
    M('R2', SW, '            self.error_reported = True\n', '            pass\n', 'flag never set'),
    M('R3', SW, '            self.parallel_safe(func, args_dict)\n        except Exception:\n            pass', '            self.parallel_safe(func, args_dict)\n        except Exception:\n            raise', 'parallel re-raises'),
    M('R4', SW, '            args = self._process_args_dict(cf, uri, args_dict)\n            func(*args)', '            args = self._process_args_dict(cf, uri, args_dict)\n            func(*args)\n            func(*args)', 'func twice'),
    M('R4', SW, '        args = [scf]\n', '        args = []\n', 'scf last', extra=[(SW, '        return args\n\n    class Reporter', '        return args + [scf]\n\n    class Reporter')]),
    M('R4', SW, '            func(*args[2:])', '            func(*args[1:])', 'wrapper passes reporter'),
    M('R5', SW, "            self.parallel_safe(lambda scf: scf.open_link())\n            self._is_open = True", "            self._is_open = True\n            self.parallel_safe(lambda scf: scf.open_link())", 'flag before open'),
    M('R5', SW, '        except Exception as e:\n            self.close_links()\n            raise e', '        except Exception as e:\n            raise e', 'no close on failure'),
    M('R5', SW, '        for uri, cf in self._cfs.items():\n            cf.close_link()', '        for uri, cf in self._cfs.items():\n            cf.close_link()\n            break', 'close first only'),
    B(SW, '        for uri, cf in self._cfs.items():\n            cf.close_link()', '        for cf in self._cfs.values():\n            cf.close_link()', 'values()'),
    B(SW, '            raise e', '            raise', 'bare raise'),
    B(SW, '            first_error = reporter.errors[0]\n', '            first_error = reporter.errors[-1]\n', 'chain last error'),
]
