"""C13 - numeric wire codecs are exact or within their stated resolution."""
import ast


from .. import bits as B_
from .. import interval as I_
from ..astutil import is_noise, norm_nc, aug_form, dotted, effective, method_call
from ..cfg import canon_test, cfg_of, fact_key, norm, walk_own
from ..consteval import Scope, fold_in
from ..flow import one_shot_rules
from ..mutate import B, M

PROP = 'C13'
ENC = 'cflib/utils/encoding.py'
TRJ = 'cflib/crazyflie/mem/trajectory_memory.py'
LED = 'cflib/crazyflie/mem/led_driver_memory.py'
LEDT = 'cflib/crazyflie/mem/led_timings_driver_memory.py'
LOC = 'cflib/crazyflie/localization.py'

EXPLANATION = (
    'Static analysis of the codecs (bit-provenance and interval domains, constant folding, layout comparison): R1 every return of '
    'fp16_to_float is the float32 reinterpretation struct.unpack(f, struct.pack(I, bits)) of the assembled word; R2 binary16 field '
    'constants: sign bit 15 -> 31, exponent bits 14..10 -> 30..23 re-biased by 127-15, fraction bits 9..0 shifted by 13, implicit bit '
    '0x400 in the subnormal normalisation, exponent 31 -> 0x7f800000; R3 quaternion writer and reader agree: index above three 10-bit '
    'groups (sign<<9|9-bit magnitude), writer ascending / reader descending component order, same mask (1<<9)-1, same 1/sqrt2 scale, index '
    'shift 30; R4 trajectory: int(x*1000) and int(degrees(a)*10) reach <h fields unmasked, start record <hhhh (x,y,z,yaw), segment '
    '<BH(type nibbles x<<0|y<<2|z<<4|yaw<<6, int(d*1000.0)) then x,y,z,yaw elements, type table {0:0,1:1,3:2,7:3}; R5 RGB565: for an '
    '8-bit level the 5/6-bit value is monotone, 0 -> 0, 255 -> full scale, interval exactly [0,31]/[0,63], fields at 11/5/0, bytes high '
    'then low, in both LED writers; R6 range report: 5-byte <Bf records consumed in order under len%5==0; lighthouse stream: <Bfhhhfhhh, '
    'sensor k = base - fp16(offset k). Value exactness over all 65536 patterns and the quantisation bound are numeric and not decided.')
ASSUMPTIONS = ['IEEE-754 binary16/binary32 field widths (1,5,10)/(1,8,23), biases 15/127']
FLOORS = {'R7': 1, 'R1': 4, 'R2': 9, 'R3': 9, 'R4': 10, 'R5': 14, 'R6': 12}


def assigns(func):
    return sorted([s for s in walk_own(func.node) if isinstance(s, (ast.Assign, ast.AugAssign))], key=lambda s: (s.lineno, s.col_offset))


def check(ctx):
    m = ctx.model
    mutable_default_rule(ctx, [ENC, TRJ, LED, LEDT, LOC], 'R7')
    # ---- R1 / R2: fp16 --------------------------------------------------------------
    f = m.func(ENC, 'fp16_to_float')
    x = f.params[0]
    rets = [s for s in walk_own(f.node) if isinstance(s, ast.Return)]
    ctx.need(len(rets) >= 1, 'fp16_to_float: no return')
    gfp = cfg_of(f)
    for r in rets:
        rv_ = r.value
        if isinstance(rv_, ast.Name) and gfp.node_of(r) is not None:      # returned through a local
            rv_ = gfp.expand_locals(gfp.node_of(r), rv_, pure_only=False, keep=(x, 's', 'e', 'f'))
        ok, inner = reinterpret(rv_)
        ctx.inst('R1', f, 'return-is-float:L', ok, 'return at line %d yields %s - must be struct.unpack(f, struct.pack(I, bits))[0], not the integer bit pattern'
                 % (r.lineno, norm(r.value) if r.value is not None else None), line=r.lineno)
    sc = Scope.of(f)
    first = {}
    for s in assigns(f):
        if isinstance(s, ast.Assign) and isinstance(s.targets[0], ast.Name) and s.targets[0].id not in first:
            first[s.targets[0].id] = s.value
    ctx.need(all(k in first for k in ('s', 'e', 'f')), 'fp16_to_float: sign/exponent/fraction extraction not found')
    # width of the argument: a caller that unpacks the half float as a *signed* short ('h') hands in a sign-extended (possibly
    # negative) int, so bits above 15 are not known to be zero and every field must be masked, the sign bit included
    signed_callers = []
    la_ = m.func(LOC, 'Localization._decode_lh_angle')
    fm, res_ = lh_angle_symbolic(la_)
    if isinstance(fm, str):
        codes = [ch for ch in fm if ch.isalpha()]
        import re as _re
        for v in res_.values():
            for txt in (v if isinstance(v, list) else [v]):
                for k in _re.findall(r'fp16_to_float\(F(\d+)\)', txt or ''):
                    if int(k) < len(codes) and codes[int(k)] == 'h':
                        signed_callers.append('%s:field %s' % (la_.qualname, k))
    width = 32 if signed_callers else 16
    if signed_callers:
        ctx.note('fp16_to_float receives signed shorts from %s: fields must be masked (argument modelled %d bits wide)' % (signed_callers[:2], width))
    sb = B_.evaluate(first['s'], sc, {x: 'h'}, {'h': width})
    eb = B_.evaluate(first['e'], sc, {x: 'h'}, {'h': width})
    fb = B_.evaluate(first['f'], sc, {x: 'h'}, {'h': width})
    # places that can reject an input.  Not counted: an assertion / guarded raise that the masked fields already satisfy (each field is
    # bounded by its mask, by the bit domain), and a range guard on the very word that struct.pack('I', word) would reject anyway.
    gf16 = cfg_of(f)
    widths = {}
    for nm_, bv in (('s', sb), ('e', eb), ('f', fb)):
        hi = max([i for i, b in enumerate(bv) if b != 0] or [-1])
        widths[nm_] = (1 << (hi + 1)) - 1
    packed = {norm(c.args[1]) for c in walk_own(f.node) if isinstance(c, ast.Call) and dotted(c.func) == 'struct.pack' and len(c.args) == 2 and fold_in(f, c.args[0]) in ('I', '<I', '=I', '>I')}

    def bound(e_, node_):
        """(lo, hi) of a field name at a node where only its masked extraction reaches, or of an int constant"""
        v = fold_in(f, e_)
        if isinstance(v, int) and not isinstance(v, bool):
            return v, v
        if isinstance(e_, ast.Name) and e_.id in widths:
            ds = gf16.reaching_defs(node_, e_.id)
            if len(ds) == 1 and ds[0].ast is not None and isinstance(ds[0].ast, ast.Assign) and ds[0].ast.value is first[e_.id]:
                return 0, widths[e_.id]
        return None

    def holds(t_, node_):
        """True / False when the bit domain decides the test, None otherwise"""
        if isinstance(t_, ast.BoolOp):
            vs = [holds(v, node_) for v in t_.values]
            if isinstance(t_.op, ast.And):
                return False if False in vs else (None if None in vs else True)
            return True if True in vs else (None if None in vs else False)
        if isinstance(t_, ast.UnaryOp) and isinstance(t_.op, ast.Not):
            v = holds(t_.operand, node_)
            return None if v is None else not v
        if isinstance(t_, ast.Call) and isinstance(t_.func, ast.Name) and t_.func.id == 'isinstance' and len(t_.args) == 2 and norm(t_.args[1]) == 'int':
            a0 = t_.args[0]
            if isinstance(a0, ast.Name) and (bound(a0, node_) is not None or any(isinstance(d.ast, ast.Assign) and isinstance(gf16.def_value(d, a0.id), ast.Call) and
                                                                                norm(gf16.def_value(d, a0.id).func) == 'int' for d in gf16.reaching_defs(node_, a0.id))):
                return True
            return None
        if isinstance(t_, ast.Compare):
            terms = [t_.left] + list(t_.comparators)
            res = True
            for a_, op, b_ in zip(terms, t_.ops, terms[1:]):
                if isinstance(op, (ast.In, ast.NotIn)) and isinstance(b_, (ast.Tuple, ast.List, ast.Set)):
                    ba = bound(a_, node_)
                    vals = [fold_in(f, x) for x in b_.elts]
                    inside = ba is not None and all(isinstance(v, int) for v in vals) and set(range(ba[0], ba[1] + 1)) <= set(vals) if ba and ba[1] - ba[0] < 64 else None
                    r = inside if isinstance(op, ast.In) else (None if inside is None else not inside)
                    r = True if r else None
                else:
                    ba, bb = bound(a_, node_), bound(b_, node_)
                    if ba is None or bb is None:
                        # the word handed to struct.pack('I', ..): pack itself rejects anything outside 0 .. 0xffffffff
                        if isinstance(op, ast.LtE) and ((norm(b_) in packed and bound(a_, node_) == (0, 0)) or (norm(a_) in packed and bound(b_, node_) == (0xffffffff, 0xffffffff))):
                            r = True
                        else:
                            r = None
                    elif isinstance(op, ast.LtE):
                        r = True if ba[1] <= bb[0] else (False if ba[0] > bb[1] else None)
                    elif isinstance(op, ast.Lt):
                        r = True if ba[1] < bb[0] else (False if ba[0] >= bb[1] else None)
                    elif isinstance(op, ast.GtE):
                        r = True if ba[0] >= bb[1] else (False if ba[1] < bb[0] else None)
                    elif isinstance(op, ast.Gt):
                        r = True if ba[0] > bb[1] else (False if ba[1] <= bb[0] else None)
                    else:
                        r = None
                if r is None:
                    return None
                res = res and r
            return res
        return None
    raising = []
    for n_ in gf16.nodes:
        if n_.kind == 'stmt' and isinstance(n_.ast, ast.Assert):
            if holds(n_.ast.test, n_) is not True:
                raising.append(n_.line)
        elif n_.kind == 'raise':
            # reachable only through branch edges the bit domain cannot refute
            feasible = True
            for e_ in gf16.dominating_edges(n_):
                if e_.label and e_.label[0] == 'cond':
                    v = holds(e_.label[1], e_.src)
                    if v is not None and v != e_.label[2]:
                        feasible = False
            if feasible:
                raising.append(n_.line)
    ctx.inst('R1', f, 'total-on-signed-patterns', not (signed_callers and raising),
             'the decoder is handed signed shorts (%s): it must decode every 16-bit pattern, also when it arrives as a negative int, and may not reject it (raise at %s)'
             % (signed_callers[:1], raising))
    ctx.inst('R2', f, 'sign=bit15', B_.is_input_field(sb, 0, 1, 'h', 15) and all(b == 0 for b in sb[1:]), 'sign extracted as %s' % B_.describe(sb, 4))
    ctx.inst('R2', f, 'exponent=bits14..10', B_.is_input_field(eb, 0, 5, 'h', 10) and all(b == 0 for b in eb[5:]), 'exponent extracted as %s' % B_.describe(eb, 8))
    ctx.inst('R2', f, 'fraction=bits9..0', B_.is_input_field(fb, 0, 10, 'h', 0) and all(b == 0 for b in fb[10:]), 'fraction extracted as %s' % B_.describe(fb, 12))
    aug = [s for s in assigns(f) if isinstance(s, ast.AugAssign)]
    top = [(s, aug_form(s)) for s in f.node.body if aug_form(s)]
    rebias = [a[2] for s, a in top if a[0] == 'e' and a[1] is ast.Add]
    shift = [a[2] for s, a in top if a[0] == 'f' and a[1] is ast.LShift]
    ctx.inst('R2', f, 'rebias=127-15', len(rebias) == 1 and fold_in(f, rebias[0]) == 112, 'exponent re-bias must be 127 - 15 = 112')
    ctx.inst('R2', f, 'fraction-shift=13', len(shift) == 1 and fold_in(f, shift[0]) == 13, 'fraction shift must be 23 - 10 = 13')
    # the word assembled on the normal path: the argument of the final reinterpretation, looked through one local and int()
    last = [r for r in f.node.body if isinstance(r, ast.Return)]
    ctx.need(len(last) == 1, 'fp16_to_float: final return not found')
    lv_ = last[0].value
    if isinstance(lv_, ast.Name) and gfp.node_of(last[0]) is not None:
        lv_ = gfp.expand_locals(gfp.node_of(last[0]), lv_, pure_only=False, keep=(x, 's', 'e', 'f'))
    okf, word = reinterpret(lv_)
    ctx.need(okf, 'fp16_to_float: final return does not reinterpret an integer word')
    if isinstance(word, ast.Name):
        res = [s for s in f.node.body if isinstance(s, ast.Assign) and norm(s.targets[0]) == word.id]
        ctx.need(len(res) == 1, 'fp16_to_float: result assembly not found')
        word = res[0].value
    if isinstance(word, ast.Call) and norm(word.func) == 'int' and len(word.args) == 1:
        word = word.args[0]
    rb = B_.evaluate(word, sc, {'s': 's', 'e': 'e', 'f': 'f'}, {'s': 1, 'e': 8, 'f': 23})
    ctx.inst('R2', f, 'assembly', B_.is_input_field(rb, 31, 1, 's') and B_.is_input_field(rb, 23, 8, 'e') and B_.is_input_field(rb, 0, 23, 'f'),
             'float32 word must be s<<31 | e<<23 | f; bits %s' % B_.describe(rb, 32)[:80])
    loops = [w for w in walk_own(f.node) if isinstance(w, ast.While)]
    okn = len(loops) == 1 and canon_test(loops[0].test) in ('not f & 1024', fact_key('f & 1024 == 0')[0]) and \
        sorted((aug_form(s) or ('?',))[0:1] + ((aug_form(s)[1].__name__, norm(aug_form(s)[2])) if aug_form(s) else ()) for s in effective(loops[0].body)) == [('e', 'Sub', '1'), ('f', 'LShift', '1')]
    ctx.inst('R2', f, 'subnormal-normalisation', okn, 'subnormals: shift the fraction left (exponent down) until the implicit bit 0x400 appears')
    g = cfg_of(f)
    post = [n for n in g.nodes if n.kind == 'stmt' and aug_form(n.ast) and fact_key('e == 0', True) in g.fact_keys_at(n) and n.ast not in (loops[0].body if loops else [])]
    pt = sorted((aug_form(n.ast)[0], aug_form(n.ast)[1].__name__, norm(aug_form(n.ast)[2])) for n in post)
    ctx.inst('R2', f, 'subnormal-fixup', pt == [('e', 'Add', '1'), ('f', 'BitAnd', '~1024')], 'after normalisation: exponent + 1 and the implicit bit removed; found %s' % pt)
    infs = [r for r in rets if r.value is not None and any(fact_key('e == 31', True) in g.fact_keys_at(n) for n in g.nodes_of(r))]
    # one return per case (fraction zero: infinity / otherwise: NaN with its payload) or one return for both (f << 13 is 0 for infinity)
    oki = 1 <= len(infs) <= 2
    general = 0
    for r in infs:
        rv_ = r.value
        if isinstance(rv_, ast.Name) and gfp.node_of(r) is not None:
            rv_ = gfp.expand_locals(gfp.node_of(r), rv_, pure_only=False, keep=(x, 's', 'e', 'f'))
        _, inner = reinterpret(rv_)
        if inner is None:
            oki = False
            continue
        keys = set()
        for n in g.nodes_of(r):
            keys |= set(g.fact_keys_at(n))
        f_zero = fact_key('f == 0', True) in keys
        general += not f_zero
        ib = B_.evaluate(inner, sc, {'s': 's', 'f': 'f'}, {'s': 1, 'f': 10})
        oki = oki and B_.is_input_field(ib, 31, 1, 's') and all(ib[i] == 1 for i in range(23, 31)) and \
            ((f_zero and all(b == 0 for b in ib[:23])) or B_.is_input_field(ib, 13, 10, 'f'))
    oki = oki and general == 1
    ctx.inst('R2', f, 'inf-nan', oki, 'exponent 31 maps to sign | 0x7f800000 (| fraction << 13)')
    del aug

    quaternion_rules(ctx, 'R3')

    # ---- R4: trajectory ----------------------------------------------------------------------
    trajectory_rules(ctx, 'R4')

    # ---- R5: RGB565 -----------------------------------------------------------------------------------
    # the twelve LEDs are twelve objects: the ring is built element by element (the constructor is covered by the generic rules, among
    # them no-aliased-elements-by-list-multiplication)
    led_init = m.func(LED, 'LEDDriverMemory.__init__')
    ctx.touch(led_init)
    mk = [c for c in walk_own(led_init.node) if isinstance(c, ast.Call) and norm(c.func) == 'LED']
    ctx.inst('R5', led_init, 'one-led-object-per-position', len(mk) == 1 and any(isinstance(l_, (ast.For, ast.ListComp)) and any(mk[0] is x for x in ast.walk(l_)) for l_ in ast.walk(led_init.node)),
             'every position of the ring gets an LED object of its own (created inside the loop / comprehension that fills the ring)')
    for path, qual, chan in ((LED, 'LEDDriverMemory.write_data', lambda c: 'led.%s' % c), (LEDT, 'LEDTimingsDriverMemory.write_data', lambda c: "timing['rgb']['%s']" % c)):
        fx = m.func(path, qual)
        sc = Scope.of(fx)
        asg = {norm(s.targets[0]): s.value for s in walk_own(fx.node) if isinstance(s, ast.Assign) and isinstance(s.targets[0], ast.Name)}
        ctx.need(all(k in asg for k in ('R5', 'G6', 'B5')), '%s: R5/G6/B5 not found' % qual)
        for var, col, full in (('R5', 'r', 31), ('G6', 'g', 63), ('B5', 'b', 31)):
            core = scale_core(asg[var])
            iv = I_.evaluate(core, sc, {'int(%s)' % chan(col): (0, 255)}) if core is not None else None
            at0 = I_.evaluate(core, sc, {'int(%s)' % chan(col): (0, 0)}) if core is not None else None
            ok = iv is not None and iv[0] == 0 and iv[1] == full and iv[2] and at0 is not None and at0[1] == 0
            ctx.inst('R5', fx, 'scale:' + var, ok, '%s over level 0..255 ranges %s (need exactly [0,%d], monotone, 0 -> 0)' % (var, iv, full))
            ctx.inst('R5', fx, 'channel:' + var, core is not None and 'int(%s)' % chan(col) in norm(core), '%s is computed from the %s level' % (var, col))
        word = asg.get('tmp') if 'tmp' in asg else asg.get('led')
        ctx.need(word is not None, '%s: RGB565 word not found' % qual)
        wb = B_.evaluate(word, sc, {'int(R5)': 'r', 'int(G6)': 'g', 'int(B5)': 'b', 'R5': 'r', 'G6': 'g', 'B5': 'b'}, {'r': 5, 'g': 6, 'b': 5})      # with or without the int() around values that are ints already
        ctx.inst('R5', fx, 'fields', B_.is_input_field(wb, 11, 5, 'r') and B_.is_input_field(wb, 5, 6, 'g') and B_.is_input_field(wb, 0, 5, 'b') and all(b == 0 for b in wb[16:]),
                 'RGB565 word must be R<<11 | G<<5 | B; bits %s' % B_.describe(wb, 16))
        wn = 'tmp' if 'tmp' in asg else 'led'
        byts = [t for t in ast.walk(fx.node) if isinstance(t, (ast.Tuple, ast.List)) and any(norm(e) == '%s >> 8' % wn for e in t.elts)]
        okb = len(byts) == 1
        if okb:
            el = [norm(e) for e in byts[0].elts]
            i = el.index('%s >> 8' % wn)
            okb = el[i + 1:i + 2] == ['%s & 255' % wn]
        ctx.inst('R5', fx, 'bytes-high-low', okb, 'the word is emitted high byte then low byte')
    led_timing_rules(ctx, 'R5')

    # ---- R6: stream decoders -----------------------------------------------------------------------------
    inc = m.func(LOC, 'Localization._incoming')
    g = cfg_of(inc)
    up = g.find(lambda n: isinstance(n, ast.Call) and dotted(n.func) == 'struct.unpack' and fold_in(inc, n.args[0]) == '<Bf')
    itu = g.find(lambda n: isinstance(n, ast.Call) and dotted(n.func) == 'struct.iter_unpack' and len(n.args) == 2 and fold_in(inc, n.args[0]) == '<Bf')
    # any record decoder of the range branch, whatever its format: a 5-byte record read with another layout (signed anchor id '<bf')
    # is a verdict, not a missing anchor
    other = [(n_, c_) for n_, c_ in g.find(lambda n: isinstance(n, ast.Call) and dotted(n.func) in ('struct.iter_unpack', 'struct.unpack', 'struct.unpack_from'))
             if fact_key('pk_type == self.RANGE_STREAM_REPORT', True) in g.fact_keys_at(n_)]
    fmts_ = sorted({str(fold_in(inc, c_.args[0])) for _, c_ in other})
    ctx.inst('R6', inc, 'range-record-format', bool(other) and fmts_ == ['<Bf'], 'range records are <Bf (unsigned anchor id, float distance); formats used in the range branch: %s' % fmts_)
    if not up and len(itu) == 1:
        # the library's own record iterator: dict(struct.iter_unpack('<Bf', data)) walks the payload in 5-byte records, in order, and
        # builds a dictionary of its own from the (anchor id, distance) pairs
        n_, c_ = itu[0]
        keys = g.fact_keys_at(n_)
        ctx.inst('R6', inc, 'range-length-check', fact_key('len(data) % 5 != 0', False) in keys and fact_key('pk_type == self.RANGE_STREAM_REPORT', True) in keys,
                 'records are decoded only when the payload is a whole number of 5-byte records')
        whole = isinstance(n_.ast, ast.Assign) and isinstance(n_.ast.value, ast.Call) and norm(n_.ast.value.func) == 'dict' and n_.ast.value.args[:1] == [c_] and \
            len(n_.ast.value.args) == 1 and not n_.ast.value.keywords
        ctx.inst('R6', inc, 'range-record', norm(c_.args[1]) == 'data', 'the records are those of the whole payload')
        ctx.inst('R6', inc, 'range-count', whole, 'every record of the payload becomes an entry')
        ctx.inst('R6', inc, 'range-advance', whole, 'record -> (anchor id, distance), stored by id')
        ctx.inst('R6', inc, 'range-report-in-fresh-dict', whole and norm(n_.ast.targets[0]) == 'decoded_data', 'distances are stored in a dictionary created for this report')
        up = None
    elif len(up) == 1 and isinstance(up[0][1].args[1], ast.Subscript) and norm(up[0][1].args[1].value) == 'data' and isinstance(up[0][1].args[1].slice, ast.Slice) and \
            isinstance(up[0][1].args[1].slice.lower, ast.Name):
        # records read in place by slicing: for o in range(0, len(data), 5): id, d = struct.unpack('<Bf', data[o:o + 5]); decoded[id] = d
        n_, c_ = up[0]
        keys = g.fact_keys_at(n_)
        ctx.inst('R6', inc, 'range-length-check', fact_key('len(data) % 5 != 0', False) in keys and fact_key('pk_type == self.RANGE_STREAM_REPORT', True) in keys,
                 'records are decoded only when the payload is a whole number of 5-byte records')
        lp = [l for l in walk_own(inc.node) if isinstance(l, ast.For)]
        lv = norm(lp[0].target) if len(lp) == 1 and isinstance(lp[0].target, ast.Name) else None
        sl_ = c_.args[1].slice
        ctx.inst('R6', inc, 'range-record', lv is not None and norm(sl_.lower) == lv and sl_.upper is not None and norm(sl_.upper).replace(' ', '') == '%s+5' % lv and sl_.step is None,
                 'each record is the 5 bytes at the running offset')
        it = lp[0].iter if len(lp) == 1 else None
        step_ok = isinstance(it, ast.Call) and norm(it.func) == 'range' and len(it.args) == 3 and fold_in(inc, it.args[0]) == 0 and norm(it.args[1]) == 'len(data)' and fold_in(inc, it.args[2]) == 5
        ctx.inst('R6', inc, 'range-count', bool(step_ok), 'one iteration per 5-byte record, from offset 0 to the end of the payload')
        body = [norm(s_) for s_ in lp[0].body] if lp else []
        ctx.inst('R6', inc, 'range-advance', lv is not None and body == ["anchor_id, distance = struct.unpack('<Bf', data[%s:%s + 5])" % (lv, lv), 'decoded_data[anchor_id] = distance'] and
                 lv not in ('anchor_id', 'distance', 'data', 'decoded_data'), 'record -> (anchor id, distance), stored by id; body %s' % body)
        fresh_dict_rule(ctx, inc, g)
        up = None
    elif not up and len(g.find(lambda n: isinstance(n, ast.Call) and dotted(n.func) == 'struct.unpack_from' and len(n.args) == 3 and fold_in(inc, n.args[0]) == '<Bf')) == 1:
        # records read in place: for offset in range(0, len(data), 5): id, d = struct.unpack_from('<Bf', data, offset); decoded[id] = d
        n_, c_ = g.find(lambda n: isinstance(n, ast.Call) and dotted(n.func) == 'struct.unpack_from' and len(n.args) == 3 and fold_in(inc, n.args[0]) == '<Bf')[0]
        keys = g.fact_keys_at(n_)
        ctx.inst('R6', inc, 'range-length-check', fact_key('len(data) % 5 != 0', False) in keys and fact_key('pk_type == self.RANGE_STREAM_REPORT', True) in keys,
                 'records are decoded only when the payload is a whole number of 5-byte records')
        lp = [l for l in walk_own(inc.node) if isinstance(l, ast.For)]
        lv = norm(lp[0].target) if len(lp) == 1 and isinstance(lp[0].target, ast.Name) else None
        ctx.inst('R6', inc, 'range-record', lv is not None and [norm(a) for a in c_.args[1:]] == ['data', lv], 'each record is read from the payload at the running offset')
        it = lp[0].iter if len(lp) == 1 else None
        step_ok = isinstance(it, ast.Call) and norm(it.func) == 'range' and len(it.args) == 3 and fold_in(inc, it.args[0]) == 0 and norm(it.args[1]) == 'len(data)' and fold_in(inc, it.args[2]) == 5
        ctx.inst('R6', inc, 'range-count', bool(step_ok), 'one iteration per 5-byte record, from offset 0 to the end of the payload')
        body = [norm(s_) for s_ in lp[0].body] if lp else []
        # the dictionary that collects the records is decoded_data itself or a local that becomes decoded_data
        dn_ = body[1].split('[', 1)[0] if len(body) == 2 and '[' in body[1] else None
        flows = dn_ == 'decoded_data' or (dn_ is not None and dn_.isidentifier() and
                                          any(isinstance(s_, ast.Assign) and norm(s_.targets[0]) == 'decoded_data' and norm(s_.value) == dn_ for s_ in walk_own(inc.node)))
        ctx.inst('R6', inc, 'range-advance', lv is not None and flows and body == ["anchor_id, distance = struct.unpack_from('<Bf', data, %s)" % lv, '%s[anchor_id] = distance' % dn_] and
                 lv not in ('anchor_id', 'distance', 'data', 'decoded_data', dn_), 'record -> (anchor id, distance), stored by id; body %s' % body)
        fresh_dict_rule(ctx, inc, g)
        up = None
    else:
        ctx.need(len(up) == 1, '_incoming: range record decode not found')
    stream_rest(ctx, m, inc, g, up)


def stream_rest(ctx, m, inc, g, up):
    if up is not None:
        range_loop_rules(ctx, inc, g, up)
    st = {norm(s.targets[0]): norm(s.value) for s in walk_own(inc.node) if isinstance(s, ast.Assign)}
    short = [n for n in g.nodes if n.kind == 'return' for k in g.fact_keys_at(n) if k[0].endswith('< len(packet.data)') and not k[1]]
    ks = sorted({k[0] for n in short for k in g.fact_keys_at(n) if k[0].endswith('< len(packet.data)') and not k[1]})
    ctx.inst('R6', inc, 'only-empty-packets-dropped', ks == ['0 < len(packet.data)'],
             'a packet is dropped for its length only when it has no type byte at all: a type byte without payload is legal (e.g. a range report with zero anchors); guards %s' % ks)
    ctx.inst('R6', inc, 'type+payload', st.get('pk_type') == "struct.unpack('<B', packet.data[:1])[0]" and st.get('data') == 'packet.data[1:]', 'type = byte 0, payload from byte 1')
    la = m.func(LOC, 'Localization._decode_lh_angle')
    fmt, res = lh_angle_symbolic(la)
    ctx.inst('R6', la, 'lh-format', fmt == '<Bfhhhfhhh', 'angle stream record is <Bfhhhfhhh; found %r' % (fmt,))
    ctx.inst('R6', la, 'lh-basestation', res.get("'basestation'") == 'F0', 'base station = field 0; found %s' % res.get("'basestation'"))
    for axis, base in (('x', 1), ('y', 5)):
        got = res.get("'%s'" % axis)
        got = got if isinstance(got, list) else [None] * 4
        ctx.inst('R6', la, 'lh-%s0' % axis, got[0:1] == ['F%d' % base], 'sensor 0 angle = base angle (field %d); found %s' % (base, got[0:1]))
        for k in (1, 2, 3):
            want = 'F%d - fp16_to_float(F%d)' % (base, base + k)
            ctx.inst('R6', la, 'lh-%s%d' % (axis, k), got[k:k + 1] == [want], 'sensor %d %s angle = %s; found %s' % (k, axis, want, got[k:k + 1]))


def range_loop_rules(ctx, inc, g, up):
    keys = g.fact_keys_at(up[0][0])
    ctx.inst('R6', inc, 'range-length-check', fact_key('len(data) % 5 != 0', False) in keys and fact_key('pk_type == self.RANGE_STREAM_REPORT', True) in keys,
             'records are decoded only when the payload is a whole number of 5-byte records')
    ctx.inst('R6', inc, 'range-record', norm(up[0][1].args[1]) == 'raw_data[:5]', 'each record is the next 5 bytes')
    lp = [l for l in walk_own(inc.node) if isinstance(l, ast.For)]
    ctx.inst('R6', inc, 'range-count', len(lp) == 1 and norm(lp[0].iter) in ('range(int(len(data) / 5))', 'range(len(data) // 5)'), 'one iteration per record')
    body = [norm(s) for s in lp[0].body] if lp else []
    ctx.inst('R6', inc, 'range-advance', body == ["anchor_id, distance = struct.unpack('<Bf', raw_data[:5])", 'decoded_data[anchor_id] = distance', 'raw_data = raw_data[5:]'],
             'record -> (anchor id, distance), stored by id, then advance 5 bytes; body %s' % body)
    fresh_dict_rule(ctx, inc, g)


def fresh_dict_rule(ctx, inc, g):
    # the report is decoded into a dictionary of its own: what it lists is exactly what this packet carried (a dictionary kept on the
    # object still shows the anchors of earlier reports, and every delivered packet shares it)
    tgtd = [n for n in g.nodes if n.kind == 'stmt' and isinstance(n.ast, ast.Assign) and isinstance(n.ast.targets[0], ast.Subscript) and
            norm(n.ast.targets[0].slice) == 'anchor_id']
    okfr = len(tgtd) == 1 and isinstance(tgtd[0].ast.targets[0].value, ast.Name)
    if okfr:
        dsd = g.reaching_defs(tgtd[0], tgtd[0].ast.targets[0].value.id)
        dvd = [g.def_value(d, tgtd[0].ast.targets[0].value.id) for d in dsd]
        okfr = len(dsd) == 1 and dvd[0] is not None and norm(dvd[0]) in ('{}', 'dict()') and fact_key('pk_type == self.RANGE_STREAM_REPORT', True) in g.fact_keys_at(dsd[0])
    ctx.inst('R6', inc, 'range-report-in-fresh-dict', okfr, 'distances are stored in a dictionary created for this report ({} in the range branch)')


def lh_angle_symbolic(la):
    """Symbolic result of _decode_lh_angle: (struct format, {key text: value text or list of texts}) with the unpacked fields written F0..Fn,
    whether they are addressed as raw[k] or through names bound by tuple unpacking."""
    env, fmt, out = {}, None, {}
    lists_ = {}

    class S(ast.NodeTransformer):
        def visit_Subscript(self, n):
            self.generic_visit(n)
            if isinstance(n.value, ast.Name) and env.get(n.value.id) == '<record>' and isinstance(n.slice, ast.Constant) and isinstance(n.slice.value, int):
                return ast.Name(id='F%d' % n.slice.value, ctx=ast.Load())
            return n

        def visit_Name(self, n):
            v = env.get(n.id)
            if isinstance(v, str) and v.startswith('F'):
                return ast.Name(id=v, ctx=ast.Load())
            return n
    import copy as _copy

    def lst(e):
        """a list-valued expression as the list of its element texts: a display, a + of lists, a comprehension over a constant slice of the record"""
        if isinstance(e, ast.List):
            return [norm(S().visit(_copy.deepcopy(x))) for x in e.elts]
        if isinstance(e, ast.BinOp) and isinstance(e.op, ast.Add):
            a, b = lst(e.left), lst(e.right)
            return a + b if a is not None and b is not None else None
        if isinstance(e, ast.ListComp) and len(e.generators) == 1 and not e.generators[0].ifs and isinstance(e.generators[0].target, ast.Name):
            it = e.generators[0].iter
            if isinstance(it, ast.Subscript) and isinstance(it.value, ast.Name) and env.get(it.value.id) == '<record>' and isinstance(it.slice, ast.Slice) and it.slice.step is None:
                lo = fold_in(la, it.slice.lower) if it.slice.lower is not None else 0
                hi = fold_in(la, it.slice.upper) if it.slice.upper is not None else None
                if isinstance(lo, int) and isinstance(hi, int) and 0 <= lo <= hi <= 64:
                    out_ = []
                    for k in range(lo, hi):
                        saved = env.get(e.generators[0].target.id)
                        env[e.generators[0].target.id] = 'F%d' % k
                        out_.append(norm(S().visit(_copy.deepcopy(e.elt))))
                        if saved is None:
                            del env[e.generators[0].target.id]
                        else:
                            env[e.generators[0].target.id] = saved
                    return out_
        return None
    for st in la.node.body:
        if isinstance(st, ast.Return) and isinstance(st.value, ast.Dict) and not out and all(k is not None for k in st.value.keys):
            for k_, v_ in zip(st.value.keys, st.value.values):
                l_ = lst(v_)
                out[norm(k_)] = l_ if l_ is not None else norm(S().visit(_copy.deepcopy(v_)))
            continue
        if isinstance(st, ast.Expr) and isinstance(st.value, ast.Call) and isinstance(st.value.func, ast.Attribute) and st.value.func.attr == 'append' and \
                isinstance(st.value.func.value, ast.Name) and isinstance(lists_.get(st.value.func.value.id), list) and len(st.value.args) == 1:
            lists_[st.value.func.value.id].append(norm(S().visit(_copy.deepcopy(st.value.args[0]))))
            continue
        if not isinstance(st, ast.Assign) or len(st.targets) != 1:
            continue
        t, v = st.targets[0], st.value
        if isinstance(t, ast.Name) and env.get(t.id) != '<record>' and not (isinstance(v, ast.Call) and dotted(v.func) == 'struct.unpack'):
            # a local: a list under construction, or a field / expression of fields named for a while
            l_ = lst(v)
            if l_ is not None:
                lists_[t.id] = l_
                continue
            sv = S().visit(_copy.deepcopy(v))
            if isinstance(sv, ast.Name) and sv.id.startswith('F') and sv.id[1:].isdigit():
                env[t.id] = sv.id
                continue
        if isinstance(t, ast.Subscript) and isinstance(t.value, ast.Name) and isinstance(v, ast.Name) and isinstance(lists_.get(v.id), list):
            out[norm(t.slice)] = list(lists_[v.id])
            continue
        if isinstance(v, ast.Call) and dotted(v.func) == 'struct.unpack' and len(v.args) == 2 and norm(v.args[1]) == la.params[1]:
            fmt = fold_in(la, v.args[0])
            if isinstance(t, ast.Name):
                env[t.id] = '<record>'
            elif isinstance(t, (ast.Tuple, ast.List)):
                for k, e in enumerate(t.elts):
                    if isinstance(e, ast.Name):
                        env[e.id] = 'F%d' % k
            continue
        val = S().visit(_copy.deepcopy(v))
        if isinstance(t, ast.Subscript) and isinstance(t.value, ast.Name):                  # decoded[key] = ...
            key = norm(t.slice)
            out[key] = [norm(e) for e in val.elts] if isinstance(val, ast.List) else norm(val)
        elif isinstance(t, ast.Subscript) and isinstance(t.value, ast.Subscript) and isinstance(t.value.value, ast.Name):   # decoded[key][i] = ...
            key, idx = norm(t.value.slice), fold_in(la, t.slice)
            if isinstance(out.get(key), list) and isinstance(idx, int) and 0 <= idx < len(out[key]):
                out[key][idx] = norm(val)
    return fmt, out


def trajectory_rules(ctx, rule='R4'):
    """Compressed / polynomial trajectory images: units (mm, 0.1 deg, ms), unmasked int16 packing (overflow raises), element type codes,
    segment and start layouts.  Shared with C14 (write-only images have the byte layout the firmware reads)."""
    m = ctx.model
    cb_ = m.cls(TRJ, '_CompressedBase')
    # what pack() encodes is what the caller gave: the constructors keep their arguments as they are (a value folded into a range
    # there no longer overflows - and no longer raises - in pack())
    for cn_ in ('CompressedStart', 'CompressedSegment'):
        ini = m.cls(TRJ, cn_).method('__init__')
        ps_ = set(ini.params[1:])
        rebound = sorted({x.id for x in ast.walk(ini.node) if isinstance(x, ast.Name) and isinstance(x.ctx, (ast.Store, ast.Del)) and x.id in ps_})
        stores = {}
        for s_ in walk_own(ini.node):
            if isinstance(s_, ast.Assign):
                tg_, vl_ = s_.targets[0], s_.value
                prs_ = list(zip(tg_.elts, vl_.elts)) if isinstance(tg_, (ast.Tuple, ast.List)) and isinstance(vl_, (ast.Tuple, ast.List)) and len(tg_.elts) == len(vl_.elts) else [(tg_, vl_)]
                stores.update({norm(t_): norm(v_) for t_, v_ in prs_ if norm(t_).startswith('self.')})
        ctx.inst(rule, ini, 'arguments-kept-as-given', not rebound and bool(stores) and all(v_ in ps_ for v_ in stores.values()) and len(stores) == len(ps_),
                 '%s.__init__ stores each argument unchanged (re-bound: %s; stores: %s)' % (cn_, rebound, stores))
    for fn, want in (('_encode_spatial', 'int({0} * 1000)'), ('_encode_yaw', 'int(math.degrees({0}) * 10)')):
        fx = cb_.method(fn)
        rs = [norm(s.value) for s in walk_own(fx.node) if isinstance(s, ast.Return)]
        ctx.inst(rule, fx, 'unit+no-mask', rs == [want.format(fx.params[-1])], '%s returns %s, expected %s (unmasked: struct raises on overflow)' % (fn, rs, want.format(fx.params[-1])))
    for fn, inner in (('_encode_spatial_element', 'self._encode_spatial'), ('_encode_yaw_element', 'self._encode_yaw')):
        fx = cb_.method(fn)
        rs = [norm(s.value) for s in walk_own(fx.node) if isinstance(s, ast.Return)]
        ctx.inst(rule, fx, 'elementwise', rs == ['map(%s, %s)' % (inner, fx.params[-1])], '%s maps %s over the element; returns %s' % (fn, inner, rs))
    cs = m.func(TRJ, 'CompressedStart.pack')
    pk = [c for c in walk_own(cs.node) if isinstance(c, ast.Call) and dotted(c.func) == 'struct.pack']
    ctx.inst(rule, cs, 'start-record', len(pk) == 1 and [norm(a) for a in pk[0].args] == ["'<hhhh'", 'self._encode_spatial(self.x)', 'self._encode_spatial(self.y)',
                                                                                     'self._encode_spatial(self.z)', 'self._encode_yaw(self.yaw)'],
             'start record is <hhhh of x, y, z (mm) and yaw (0.1 deg)')
    sg = m.func(TRJ, 'CompressedSegment.pack')
    st = {norm(s.targets[0]): s.value for s in walk_own(sg.node) if isinstance(s, ast.Assign)}
    ctx.need('element_types' in st, 'CompressedSegment.pack: element_types not found')
    tb = B_.evaluate(st['element_types'], Scope.of(sg), {'self._encode_type(self.x)': 'x', 'self._encode_type(self.y)': 'y', 'self._encode_type(self.z)': 'z',
                                                        'self._encode_type(self.yaw)': 'w'}, {'x': 2, 'y': 2, 'z': 2, 'w': 2})
    ctx.inst(rule, sg, 'type-nibbles', B_.is_input_field(tb, 0, 2, 'x') and B_.is_input_field(tb, 2, 2, 'y') and B_.is_input_field(tb, 4, 2, 'z') and B_.is_input_field(tb, 6, 2, 'w'),
             'element types: x<<0 | y<<2 | z<<4 | yaw<<6; bits %s' % B_.describe(tb, 8))
    ctx.inst(rule, sg, 'duration-ms', norm(st.get('duration_ms')) in ('int(self.duration * 1000.0)', 'int(self.duration * 1000)'), 'duration in ms as int')
    # what is appended to the segment, in order; an element packed on the spot (`for part in <encoded>: data += struct.pack('<h', part)`)
    # is what _pack_element does and is written as that call
    seq, env_ = [], {}
    for s in sg.node.body:
        if isinstance(s, ast.AugAssign) and norm(s.target) == 'data':
            seq.append(norm(s.value))
        elif isinstance(s, ast.Assign) and len(s.targets) == 1 and isinstance(s.targets[0], ast.Name):
            env_[s.targets[0].id] = norm(s.value)
        elif isinstance(s, ast.For) and isinstance(s.target, ast.Name) and not s.orelse and len(s.body) == 1 and isinstance(s.body[0], ast.AugAssign) and norm(s.body[0].target) == 'data' and \
                norm(s.body[0].value) == "struct.pack('<h', %s)" % s.target.id:
            it_ = norm(s.iter)
            seq.append('self._pack_element(%s)' % env_.get(it_, it_))
        elif isinstance(s, ast.Expr) and isinstance(s.value, ast.Call) and not is_noise(s):
            seq.append('<call %s>' % norm(s.value.func))
    want = ["struct.pack('<BH', element_types, duration_ms)", 'self._pack_element(self._encode_spatial_element(self.x))', 'self._pack_element(self._encode_spatial_element(self.y))',
            'self._pack_element(self._encode_spatial_element(self.z))', 'self._pack_element(self._encode_yaw_element(self.yaw))']
    ctx.inst(rule, sg, 'segment-layout', seq == want, 'segment = <BH header then x, y, z, yaw elements; found %s' % seq)
    pe = m.func(TRJ, 'CompressedSegment._pack_element')
    pks = [c for c in walk_own(pe.node) if isinstance(c, ast.Call) and dotted(c.func) == 'struct.pack']
    lp = [l for l in walk_own(pe.node) if isinstance(l, ast.For)]
    gens_ = [x for x in ast.walk(pe.node) if isinstance(x, (ast.GeneratorExp, ast.ListComp)) and len(x.generators) == 1 and not x.generators[0].ifs]
    if len(pks) == 1 and not lp and len(gens_) == 1 and any(pks[0] is y for y in ast.walk(gens_[0].elt)):
        # b''.join(struct.pack('<h', part) for part in element): the same parts, in order, each packed <h
        lp = [ast.For(target=gens_[0].generators[0].target, iter=gens_[0].generators[0].iter, body=[], orelse=[])]
    ctx.inst(rule, pe, 'element-int16', len(pks) == 1 and len(lp) == 1 and [norm_nc(a) for a in pks[0].args] == ["'<h'", norm(lp[0].target)] and norm(lp[0].iter) == pe.params[-1],
             'each part is packed <h in order, unmasked')
    et = m.func(TRJ, 'CompressedSegment._encode_type')
    g = cfg_of(et)
    tbl = {}
    for n in [n for n in g.nodes if n.kind == 'return' and n.ast.value is not None]:
        for k in g.fact_keys_at(n):
            if k[1] and k[0].endswith('== len(%s)' % et.params[-1]):
                tbl[int(k[0].split(' ')[0])] = fold_in(et, n.ast.value)
            if not k[1] and k[0] == '0 < len(%s)' % et.params[-1] and not any(kk[1] and kk[0].endswith('== len(%s)' % et.params[-1]) for kk in g.fact_keys_at(n)):
                tbl[0] = fold_in(et, n.ast.value)        # len(element) == 0 is kept as `not 0 < len(element)`
    for n in [n for n in g.nodes if n.kind == 'return' and n.ast.value is not None]:
        v = n.ast.value
        src = None
        if isinstance(v, ast.Call) and isinstance(v.func, ast.Attribute) and v.func.attr == 'get' and len(v.args) == 1 and norm(v.args[0]) == 'len(%s)' % et.params[-1]:
            src = v.func.value
        elif isinstance(v, ast.Subscript) and norm(v.slice) == 'len(%s)' % et.params[-1]:
            src = v.value
        if src is not None:                     # a length -> code lookup table
            d = fold_in(et, src)
            if not isinstance(d, dict) and isinstance(src, ast.Attribute) and et.cls is not None and src.attr in et.cls.consts:
                d = fold_in(et, et.cls.consts[src.attr])
            if isinstance(d, dict):
                tbl.update(d)
    ctx.inst(rule, et, 'type-table', tbl == {0: 0, 1: 1, 3: 2, 7: 3}, 'element length -> type code table %s, expected {0:0, 1:1, 3:2, 7:3}' % tbl)
    # overflow raises out of write_data: the packing loop is not wrapped in a handler that turns struct.error (or anything broader) into a
    # quiet return
    wd = m.func(TRJ, 'TrajectoryMemory.write_data')
    packs_ = [c for c in walk_own(wd.node) if method_call(c, 'pack')]
    swallowed = [norm(h.type)[:30] if h.type is not None else 'bare except' for t in walk_own(wd.node) if isinstance(t, ast.Try)
                 if any(c is x for c in packs_ for s_ in t.body for x in walk_own(s_)) for h in t.handlers
                 if not any(isinstance(x, ast.Raise) and x.exc is None for s_ in h.body for x in walk_own(s_))]
    ctx.inst(rule, wd, 'overflow-propagates', bool(packs_) and not swallowed, 'element.pack() raises struct.error for a coordinate outside int16; handlers that swallow it: %s' % swallowed)
    # the encoded element is a one-shot map object: it is run through once, by the packing loop (a debug list(...) before it leaves the
    # segment without control points)
    one_shot_rules(ctx, rule, [TRJ])
    p4 = m.func(TRJ, 'Poly4D.pack')
    seq = [norm(s.value) for s in p4.node.body if isinstance(s, ast.AugAssign)]
    if not seq:
        # ... or the pieces joined in one expression: return bytearray(b''.join((E1, E2, ..)))
        for r_ in [s for s in p4.node.body if isinstance(s, ast.Return) and s.value is not None]:
            v_ = r_.value
            if isinstance(v_, ast.Call) and norm(v_.func) in ('bytearray', 'bytes') and len(v_.args) == 1:
                v_ = v_.args[0]
            if isinstance(v_, ast.Call) and isinstance(v_.func, ast.Attribute) and v_.func.attr == 'join' and isinstance(v_.func.value, ast.Constant) and v_.func.value.value == b'' and \
                    len(v_.args) == 1 and isinstance(v_.args[0], (ast.Tuple, ast.List)):
                seq = [norm(e_) for e_ in v_.args[0].elts]
    ctx.inst(rule, p4, 'poly4d-layout', seq == ["struct.pack('<ffffffff', *self.x.values)", "struct.pack('<ffffffff', *self.y.values)", "struct.pack('<ffffffff', *self.z.values)",
                                                "struct.pack('<ffffffff', *self.yaw.values)", "struct.pack('<f', self.duration)"], 'Poly4D = 8 floats for x, y, z, yaw then duration')



def led_timing_rules(ctx, rule='R5'):
    """LED timing sequence image (write only): records (time, colour high, colour low, flags), all-zero record = end of sequence, so no
    all-zero record may be emitted before the terminator.  Shared with C14 (write-only images have the layout the firmware reads)."""
    m = ctx.model
    lt = m.func(LEDT, 'LEDTimingsDriverMemory.write_data')
    rec = [t for t in ast.walk(lt.node) if isinstance(t, ast.List) and len(t.elts) == 4 and any('led >> 8' == norm(e) for e in t.elts)]
    ctx.inst(rule, lt, 'timing-record', len(rec) == 1 and [norm(e) for e in rec[0].elts] == ["timing['time'] & 255", 'led >> 8', 'led & 255', 'extra'],
             'timing record is (time, colour high, colour low, flags)')
    ex = [s for s in walk_own(lt.node) if isinstance(s, ast.Assign) and norm(s.targets[0]) == 'extra']
    if ex:
        eb = B_.evaluate(ex[0].value, Scope.of(lt), {"timing['leds']": 'leds', "timing['fade']": 'fade', "timing['rotate']": 'rot'}, {'leds': 8, 'fade': 1, 'rot': 8})
        ctx.inst(rule, lt, 'timing-flags', B_.is_input_field(eb, 0, 4, 'leds') and B_.is_input_field(eb, 4, 1, 'fade') and B_.is_input_field(eb, 5, 3, 'rot') and all(b == 0 for b in eb[8:]),
                 'flags byte = leds | fade<<4 | rotate<<5; bits %s' % B_.describe(eb, 8))
    term = [s for s in lt.node.body if isinstance(s, ast.AugAssign) and norm(s.target) == 'data' and norm(s.value) == '[0, 0, 0, 0]']
    ctx.inst(rule, lt, 'terminator', len(term) == 1, 'the sequence ends with an all-zero record')

    g = cfg_of(lt)
    app = [n for n in g.nodes if n.kind == 'stmt' and rec and any(x is rec[0] for x in ast.walk(n.ast))]
    ok, why = False, 'record append not found'
    if len(app) == 1:
        emitted = [norm(e) for e in rec[0].elts]
        covers = set(emitted) | {'led'}          # led != 0 <=> one of its two bytes != 0 (16-bit word)
        conds = [i_ for i_ in walk_own(lt.node) if isinstance(i_, ast.If) and any(x is app[0].ast for s_ in i_.body for x in ast.walk(s_))]
        if not conds:
            ok, why = False, 'records are appended unfiltered: an entry encoding to 00 00 00 00 ends the sequence early'
        else:
            # the record is skipped iff the test is false; the atoms that hold then must all be "<emitted byte> == 0", so that a
            # record that passes the filter has at least one non-zero byte (any spelling: or-chain, not (... and ...), named flag inlined)
            from ..cfg import implied as _implied
            skipped = _implied(conds[-1].test, False)
            zero = {canon_test(ast.parse('(%s) == 0' % x, mode='eval').body): x for x in covers}
            bad = [repr(f) for f in skipped if not (f.pol and f.text in zero)]
            ok = not bad and bool(skipped)
            why = 'a record is appended only if one of its own bytes is non-zero; conditions of a skipped record that are not "<emitted byte> == 0": %s' % (bad or 'none')
    ctx.inst(rule, lt, 'no-zero-record-before-terminator', ok, why)


def quaternion_rules(ctx, rule='R3'):
    """Quaternion writer/reader agreement (shared with C08: the full-state set-point carries the compressed orientation)."""
    m = ctx.model
    # ---- R3: quaternion ----------------------------------------------------------------
    cq = m.func(ENC, 'compress_quaternion')
    dq = m.func(ENC, 'decompress_quaternion')
    wl = [l for l in walk_own(cq.node) if isinstance(l, ast.For) and any(isinstance(s, ast.Assign) and norm(s.targets[0]) == 'comp' for s in walk_own(l))]
    # `for i, c in enumerate(quat_n[:4])` is the index loop `for i in range(4)` with c = quat_n[i]: analyse it in that form
    if len(wl) == 1 and isinstance(wl[0].iter, ast.Call) and norm(wl[0].iter.func) == 'enumerate' and len(wl[0].iter.args) == 1 and \
            norm(wl[0].iter.args[0]) in ('quat_n[:4]', 'quat_n') and isinstance(wl[0].target, ast.Tuple) and len(wl[0].target.elts) == 2 and \
            all(isinstance(e, ast.Name) for e in wl[0].target.elts):
        import copy as _copy
        from ..symexec import subst as _subst
        iv_, cv_ = wl[0].target.elts[0].id, wl[0].target.elts[1].id
        if not any(isinstance(x, ast.Name) and x.id == cv_ and isinstance(x.ctx, ast.Store) for st_ in wl[0].body for x in ast.walk(st_)):
            lp_ = _copy.deepcopy(wl[0])
            lp_.target = ast.Name(id=iv_, ctx=ast.Store())
            lp_.iter = ast.parse('range(4)', mode='eval').body
            lp_.body = [_subst(st_, {cv_: ast.parse('quat_n[%s]' % iv_, mode='eval').body}) for st_ in lp_.body]
            ast.fix_missing_locations(lp_)
            wl = [lp_]
    rl = [l for l in walk_own(dq.node) if isinstance(l, ast.For)]
    ctx.need(len(wl) == 1 and len(rl) == 1, 'quaternion codec loops not found')
    ctx.inst(rule, cq, 'writer-order-ascending', fold_in(cq, wl[0].iter) == (0, 1, 2, 3), 'writer visits components 0..3 ascending; iter %s' % norm(wl[0].iter))
    ctx.inst(rule, dq, 'reader-order-descending', fold_in(dq, rl[0].iter) == (3, 2, 1, 0), 'reader visits components 3..0 descending; iter %s' % norm(rl[0].iter))
    # the vector that is quantised is the input divided by its own norm, on every path
    gq = cfg_of(cq)
    qn = [n for n in gq.nodes if n.kind == 'stmt' and isinstance(n.ast, (ast.Assign, ast.AugAssign)) and norm(n.ast.targets[0] if isinstance(n.ast, ast.Assign) else n.ast.target) == 'quat_n']
    ctx.need(qn, 'compress_quaternion: the normalised vector quat_n is not assigned')
    srcs = {cq.params[0], 'np.array(%s)' % cq.params[0], 'np.asarray(%s)' % cq.params[0], 'np.array(%s, dtype=float)' % cq.params[0], 'np.asarray(%s, dtype=float)' % cq.params[0], 'quat_n'}

    def is_div(n_):
        a = n_.ast
        if isinstance(a, ast.AugAssign):
            l_, op_, r_ = a.target, a.op, a.value
        elif isinstance(a.value, ast.BinOp):
            l_, op_, r_ = a.value.left, a.value.op, a.value.right
        else:
            return False
        return isinstance(op_, ast.Div) and norm(l_) in srcs and isinstance(r_, ast.Call) and norm(r_.func) == 'np.linalg.norm' and len(r_.args) == 1 and norm(r_.args[0]) in srcs
    divs = [n for n in qn if is_div(n)]
    reads = [n for n in gq.nodes if n.ast is not None and n not in qn and n.kind in ('stmt', 'if', 'for', 'while', 'return') and
             any(isinstance(x, ast.Subscript) and norm(x.value) == 'quat_n' for x in (walk_own(n.ast) if n.kind == 'stmt' else ast.walk(n.ast.test if n.kind in ('if', 'while') else n.ast.iter if n.kind == 'for' else n.ast)))]
    okn = len(divs) == 1 and bool(reads) and all(gq.dominates(divs[0], r) for r in reads) and not gq.fact_keys_at(divs[0]) and \
        all(n is divs[0] or gq.dominates(n, divs[0]) for n in qn)
    ctx.inst(rule, cq, 'normalised-on-every-path', okn, 'the quantised vector is input / ||input|| unconditionally (a vector of length 1.005 quantised unscaled overflows the 9-bit magnitude '
             'and puts the whole length error into the dropped component); assignments: %s' % [norm(n.ast) for n in qn])
    sel = [l for l in walk_own(cq.node) if isinstance(l, ast.For) and any(isinstance(x, ast.Assign) and norm(x.targets[0]) == 'i_largest' for x in walk_own(l))]
    oks = False
    if len(sel) == 1:
        iv_ = norm(sel[0].target)
        tests = [i for i in walk_own(sel[0]) if isinstance(i, ast.If)]
        upd = [n for n in gq.nodes if n.kind == 'stmt' and isinstance(n.ast, ast.Assign) and norm(n.ast.targets[0]) == 'i_largest' and any(x is n.ast for x in walk_own(sel[0]))]
        # the index moves exactly under `abs(q[i]) > abs(q[i_largest])` (however the comparison is spelled or named)
        oks = len(tests) == 1 and len(upd) == 1 and norm(upd[0].ast.value) == iv_ and fact_key('abs(quat_n[%s]) > abs(quat_n[i_largest])' % iv_, True) in gq.fact_keys_at(upd[0]) and \
            fold_in(cq, sel[0].iter) in ((1, 2, 3), (0, 1, 2, 3))
    else:
        am = [s_ for s_ in cq.node.body if isinstance(s_, ast.Assign) and norm(s_.targets[0]) == 'i_largest']
        oks = len(am) == 1 and norm(am[0].value).replace(' ', '') in ('int(np.argmax(np.abs(quat_n)))', 'np.argmax(np.abs(quat_n))', 'int(np.argmax(abs(quat_n)))')
        if len(am) == 1 and isinstance(am[0].value, ast.Call) and norm(am[0].value.func) == 'max' and len(am[0].value.args) == 1:
            # max(range(4), key=lambda i: abs(quat_n[i])): the first index of largest magnitude (ties keep the first, like the loop with `>`)
            kf = next((k_.value for k_ in am[0].value.keywords if k_.arg == 'key'), None)
            oks = fold_in(cq, am[0].value.args[0]) == (0, 1, 2, 3) and isinstance(kf, ast.Lambda) and len(kf.args.args) == 1 and \
                norm(kf.body) == 'abs(quat_n[%s])' % kf.args.args[0].arg
    ctx.inst(rule, cq, 'largest-by-magnitude', oks, 'the dropped component must be the one of largest MAGNITUDE (abs); otherwise a kept component can exceed 1/sqrt2 and overflow its 9 bits')
    wa = [s for s in walk_own(wl[0]) if isinstance(s, ast.Assign) and norm(s.targets[0]) == 'comp']
    wb = B_.evaluate(wa[0].value, Scope.of(cq), {'comp': 'comp', 'negbit': 'neg', 'mag': 'mag'}, {'comp': 32, 'neg': 1, 'mag': 9})
    ctx.inst(rule, cq, 'writer-group', B_.is_input_field(wb, 0, 9, 'mag') and B_.is_input_field(wb, 9, 1, 'neg') and B_.is_input_field(wb, 10, 22, 'comp'),
             'each group is comp<<10 | sign<<9 | magnitude; bits %s' % B_.describe(wb, 14))
    skipw = [i for i in walk_own(wl[0]) if isinstance(i, ast.If) and canon_test(i.test) == canon_test(ast.parse('%s != i_largest' % norm(wl[0].target), mode='eval').body)]
    skipr = [i for i in walk_own(rl[0]) if isinstance(i, ast.If) and canon_test(i.test) == canon_test(ast.parse('%s != i_largest' % norm(rl[0].target), mode='eval').body)]
    ctx.inst(rule, cq, 'largest-skipped', len(skipw) == 1 and len(skipr) == 1, 'both sides skip the largest component')
    init = [s for s in cq.node.body if isinstance(s, ast.Assign) and norm(s.targets[0]) == 'comp']
    ctx.inst(rule, cq, 'index-first', len(init) == 1 and norm(init[0].value) == 'i_largest', 'the word starts with the index of the largest component')
    ra = {norm(s.targets[0]): s.value for s in walk_own(rl[0]) if isinstance(s, ast.Assign) and isinstance(s.targets[0], ast.Name)}
    mask = [s for s in dq.node.body if isinstance(s, ast.Assign) and norm(s.targets[0]) == 'mask']
    mv = fold_in(dq, mask[0].value) if mask else None
    ctx.inst(rule, dq, 'reader-mask', mv == 511, 'magnitude mask must be (1<<9)-1; found %s' % mv)
    okr = 'mag' in ra and 'negbit' in ra and 'comp' in ra
    if okr:
        mb = B_.evaluate(ra['mag'], Scope.of(dq, {'mask': 511}), {'comp': 'comp'}, {'comp': 32})
        nb = B_.evaluate(ra['negbit'], Scope.of(dq), {'comp': 'comp'}, {'comp': 32})
        cb = B_.evaluate(ra['comp'], Scope.of(dq), {'comp': 'comp'}, {'comp': 32})
        okr = B_.is_input_field(mb, 0, 9, 'comp', 0) and all(b == 0 for b in mb[9:]) and B_.is_input_field(nb, 0, 1, 'comp', 9) and all(b == 0 for b in nb[1:]) and \
            B_.is_input_field(cb, 0, 22, 'comp', 10)
    ctx.inst(rule, dq, 'reader-group', okr, 'reader pops magnitude = bits 8..0, sign = bit 9, then shifts by 10')
    # ... for every transmitted component: the only condition on popping a group is that the component is not the dropped one (a short
    # cut for a zero magnitude that also skips the shift makes all later components read the same bits)
    gdq = cfg_of(dq)
    shifts = [n for n in gdq.nodes if n.kind == 'stmt' and any(x is n.ast for x in walk_own(rl[0])) and
              ((isinstance(n.ast, ast.Assign) and norm(n.ast.targets[0]) == 'comp') or (isinstance(n.ast, ast.AugAssign) and norm(n.ast.target) == 'comp'))]
    ivr = norm(rl[0].target)
    oksh = len(shifts) == 1 and gdq.fact_keys_at(shifts[0]) - gdq.fact_keys_at(gdq.node_of(rl[0].iter) or shifts[0]) == {fact_key('%s == i_largest' % ivr, False)}
    ctx.inst(rule, dq, 'reader-consumes-every-group', oksh, 'the 10-bit group is shifted out whenever the component is not the dropped one; guards of the shift: %s'
             % (sorted(gdq.fact_keys_at(shifts[0])) if shifts else 'no shift'))
    il = [s for s in dq.node.body if isinstance(s, ast.Assign) and norm(s.targets[0]) == 'i_largest']
    ctx.inst(rule, dq, 'index-shift=30', len(il) == 1 and norm(il[0].value) == 'comp >> 30', 'index is read from bits 31..30 (3 groups x 10 bits)')
    wm = [s for s in walk_own(wl[0]) if isinstance(s, ast.Assign) and norm(s.targets[0]) == 'mag']
    ms = [s for s in cq.node.body if isinstance(s, ast.Assign) and norm(s.targets[0]) == 'M_SQRT1_2']
    okw = len(wm) == 1 and norm(wm[0].value) in ('int(%s * (abs(quat_n[%s]) / M_SQRT1_2) + 0.5)' % (f_, norm(wl[0].target)) for f_ in ('((1 << 9) - 1)', '511')) and \
        len(ms) == 1 and norm(ms[0].value) in ('1.0 / np.sqrt(2)', '1 / np.sqrt(2)', '1.0 / math.sqrt(2)')
    ctx.inst(rule, cq, 'writer-scale', okw, 'magnitude = round(511 * |q| / (1/sqrt2))')
    rq = [s for s in walk_own(rl[0]) if isinstance(s, ast.Assign) and norm(s.targets[0]) == 'q[%s]' % norm(rl[0].target)]
    # (the component may be worked out in a local that is stored into q[i] afterwards)
    carried = {norm(s.value) for s in rq if isinstance(s.value, ast.Name)}
    rq2 = rq + [s for s in walk_own(rl[0]) if isinstance(s, ast.Assign) and norm(s.targets[0]) in carried]
    ctx.inst(rule, dq, 'reader-scale', any(norm(s.value) in ('mag / mask / np.sqrt(2)', 'mag / mask / math.sqrt(2)') for s in rq2), 'component = magnitude / 511 / sqrt2')
    ns = [s for s in walk_own(wl[0]) if isinstance(s, ast.Assign) and norm(s.targets[0]) == 'negbit']
    ng = [s_ for s_ in cq.node.body if isinstance(s_, ast.Assign) and norm(s_.targets[0]) == 'negate']
    # ... read after the search has settled on the largest component: the sign test must not run before (or inside) the loop that
    # moves i_largest
    ng_late = bool(ng) and bool(sel) and all(s_.lineno > (sel[0].end_lineno or sel[0].lineno) and not any(x is s_ for x in ast.walk(sel[0])) for s_ in ng)
    ctx.inst(rule, cq, 'negate-after-the-search', ng_late or not sel, 'the sign of the dropped component is taken after the loop that finds it; negate at line %s, search loop at %s' %
             ([s_.lineno for s_ in ng], [sel[0].lineno] if sel else None))
    ctx.inst(rule, cq, 'negate=sign-of-largest', len(ng) == 1 and canon_test(ng[0].value) == canon_test(ast.parse('quat_n[i_largest] < 0', mode='eval').body),
             'the whole quaternion is negated exactly when the dropped (largest) component is negative - the decoder rebuilds it as a positive root; found %s' % [norm(s_.value) for s_ in ng])
    def xor_of_signs(v):
        # int(A ^ B) or int(A != B) - the same thing for two truth values - of "this component is negative" and `negate`, in either order
        if not (isinstance(v, ast.Call) and norm(v.func) == 'int' and len(v.args) == 1):
            return False
        e = v.args[0]
        if isinstance(e, ast.BinOp) and isinstance(e.op, ast.BitXor):
            a, b = e.left, e.right
        elif isinstance(e, ast.Compare) and len(e.ops) == 1 and isinstance(e.ops[0], ast.NotEq):
            a, b = e.left, e.comparators[0]
        else:
            return False
        neg = canon_test(ast.parse('quat_n[%s] < 0' % norm(wl[0].target), mode='eval').body)
        for x, y in ((a, b), (b, a)):
            if norm(y) == 'negate' and isinstance(x, ast.Compare) and canon_test(x) == neg:
                return True
        return False
    ctx.inst(rule, cq, 'sign-relative-to-largest', len(ns) == 1 and xor_of_signs(ns[0].value), 'sign bit is relative to the sign of the largest component')



def mutable_default_rule(ctx, paths, rule):
    """A parameter whose default is a mutable literal and that the body mutates or returns is shared between calls
    (state leaks from one decoded packet / object into the next)."""
    n = 0
    for path in paths:
        for f in ctx.model.mod(path).all_funcs():
            for pname, d in f.defaults().items():
                mutable = isinstance(d, (ast.Dict, ast.List, ast.Set)) or (isinstance(d, ast.Call) and norm(d.func) in ('dict', 'list', 'set', 'bytearray'))
                if not mutable:
                    continue
                n += 1
                used = []
                for x in ast.walk(f.node):
                    if isinstance(x, (ast.Assign, ast.AugAssign)):
                        for t in (x.targets if isinstance(x, ast.Assign) else [x.target]):
                            if isinstance(t, ast.Subscript) and norm(t.value) == pname or (isinstance(x, ast.AugAssign) and norm(t) == pname):
                                used.append(norm(x)[:40])
                    elif isinstance(x, ast.Call) and isinstance(x.func, ast.Attribute) and norm(x.func.value) == pname and x.func.attr in (
                            'append', 'extend', 'update', 'add', 'insert', 'pop', 'clear', 'setdefault', 'remove'):
                        used.append(norm(x)[:40])
                    elif isinstance(x, ast.Return) and x.value is not None and norm(x.value) == pname:
                        used.append('return ' + pname)
                ctx.inst(rule, f, 'shared-mutable-default:' + pname, not used,
                         'parameter %s defaults to a mutable object that is shared between calls and is %s: results of one call leak into the next' % (pname, used))
    ctx.inst(rule, paths[0], 'mutable-defaults-scanned', True, '%d mutable defaults inspected in %d modules' % (n, len(paths)))


def reinterpret(node):
    """struct.unpack('f', struct.pack('I', X))[0] -> (True, X)"""
    if isinstance(node, ast.Subscript) and isinstance(node.slice, ast.Constant) and node.slice.value == 0 and isinstance(node.value, ast.Call) and \
            dotted(node.value.func) == 'struct.unpack' and len(node.value.args) == 2 and isinstance(node.value.args[0], ast.Constant) and \
            node.value.args[0].value.lstrip('<=@') == 'f':
        inner = node.value.args[1]
        if isinstance(inner, ast.Call) and dotted(inner.func) == 'struct.pack' and len(inner.args) == 2 and isinstance(inner.args[0], ast.Constant) and \
                inner.args[0].value.lstrip('<=@') in ('I', 'L'):
            x = inner.args[1]
            if isinstance(x, ast.Call) and norm(x.func) == 'int' and len(x.args) == 1:
                x = x.args[0]
            return True, x
    return False, None


def scale_core(node):
    """((int)(((int(c) & 0xFF) * k + o) >> s) & m) [* intensity / 100]  ->  the masked scaling expression"""
    n = node
    if isinstance(n, ast.BinOp) and isinstance(n.op, ast.Div):
        n = n.left
    if isinstance(n, ast.BinOp) and isinstance(n.op, ast.Mult):
        n = n.left
    if isinstance(n, ast.Call) and norm(n.func) in ('int', '(int)') and len(n.args) == 1:
        n = n.args[0]
    if isinstance(n, ast.BinOp) and isinstance(n.op, ast.BitAnd):
        return n
    return None


VARIANTS = [
    M('R3', ENC, "    i_largest = 0\n    for i in range(1, 4):\n        if abs(quat_n[i]) > abs(quat_n[i_largest]):\n            i_largest = i\n    negate = quat_n[i_largest] < 0\n", "    i_largest = 0\n    negate = quat_n[i_largest] < 0\n    for i in range(1, 4):\n        if abs(quat_n[i]) > abs(quat_n[i_largest]):\n            i_largest = i\n", 'sign taken before the search'),
    M('R5', LEDT, "            if (timing['time'] & 0xFF) != 0 or led != 0 or extra != 0:", "            if timing['time'] != 0 or led != 0 or extra != 0:", 'filter tests the unmasked time'),
    M('R2', ENC, "    s = int((float16 >> 15) & 0x00000001)    # sign", "    s = int(float16 >> 15)    # sign", 'sign not masked: negative for the signed shorts of the angle stream'),
    M('R1', ENC, "            return struct.unpack('f', struct.pack('I', int(s << 31)))[0]", "            return int(s << 31)", 'F-13a reintroduced (zero)'),
    M('R2', ENC, "    e = int((float16 >> 10) & 0x0000001f)    # exponent", "    e = int((float16 >> 10) & 0x0000000f)    # exponent", 'exponent mask'),
    M('R2', ENC, "    f <<= 13\n", "    f <<= 12\n", 'fraction shift'),
    M('R2', ENC, "    e += 127 - 15\n", "    e += 127 - 16\n", 'bias'),
    M('R2', ENC, "            while not (f & 0x00000400):", "            while not (f & 0x00000200):", 'implicit bit'),
    M('R3', ENC, "            comp = (comp << 10) | (negbit << 9) | mag", "            comp = (comp << 10) | (negbit << 10) | mag", 'sign bit position'),
    M('R3', ENC, "    for i in range(3, -1, -1):", "    for i in range(4):", 'reader ascending'),
    M('R3', ENC, "    mask = (1 << 9) - 1\n    i_largest = comp >> 30", "    mask = (1 << 10) - 1\n    i_largest = comp >> 30", 'reader mask'),
    M('R4', TRJ, "        return int(coordinate * 1000)", "        return int(coordinate * 1000) & 0xFFFF", 'coordinate masked'),
    M('R4', TRJ, "        return int(math.degrees(angle_rad) * 10)", "        return int(math.degrees(angle_rad) * 100)", 'yaw unit'),
    M('R4', TRJ, "        element_types = (self._encode_type(self.x) << 0) | (self._encode_type(self.y) << 2) | (", "        element_types = (self._encode_type(self.x) << 0) | (self._encode_type(self.y) << 4) | (", 'type nibble'),
    M('R4', TRJ, "        if len(element) == 3:\n            return 2", "        if len(element) == 3:\n            return 3", 'type table'),
    M('R5', LED, "            R5 = ((int)((((int(led.r) & 0xFF) * 249 + 1014) >> 11) & 0x1F) *", "            R5 = ((int)((((int(led.r) & 0xFF) * 240 + 1014) >> 11) & 0x1F) *", 'red scale loses full scale'),
    M('R5', LED, "            tmp = (int(R5) << 11) | (int(G6) << 5) | (int(B5) << 0)", "            tmp = (int(R5) << 11) | (int(G6) << 6) | (int(B5) << 0)", 'green position'),
    M('R5', LED, "            data += bytearray((tmp >> 8, tmp & 0xFF))", "            data += bytearray((tmp & 0xFF, tmp >> 8))", 'byte order'),
    M('R5', LEDT, "            G6 = ((int)((((int(timing['rgb']['g']) & 0xFF) * 253 + 505) >> 10)", "            G6 = ((int)((((int(timing['rgb']['g']) & 0xFF) * 253 + 505) >> 11)", 'green shift'),
    M('R6', LOC, "        raw_data = struct.unpack('<Bfhhhfhhh', data)", "        raw_data = struct.unpack('<Bfhhfhhhh', data)", 'lh format'),
    M('R6', LOC, "        decoded_data['y'][2] = raw_data[5] - fp16_to_float(raw_data[7])", "        decoded_data['y'][2] = raw_data[5] - fp16_to_float(raw_data[8])", 'wrong offset field'),
    M('R6', LOC, "                raw_data = raw_data[5:]", "                raw_data = raw_data[4:]", 'range advance'),
    B(ENC, "    mask = (1 << 9) - 1\n    i_largest = comp >> 30", "    mask = 0x1FF\n    i_largest = comp >> 30", 'mask literal'),
    B(ENC, "    s = int((float16 >> 15) & 0x00000001)    # sign", "    s = (float16 & 0x8000) >> 15    # sign", 'sign extraction rewritten'),
]
