"""C02 - connection lifecycle is well-formed and never hangs under any link fault."""
import ast

from ..astutil import aug_form, catches_everything, dotted, effective, enclosing_stmt, handler_names, is_noise, method_call
from ..callgraph import CallGraph, fid
from ..consteval import fold_in
from ..cfg import CFG, cfg_of, fact_key, norm, walk_own, _own_exprs
from ..locks import regions
from ..model import AnchorError
from ..flow import cannot_raise
from ..mutate import B, M
from .c03 import fetch_completion_rules, fetch_guard_rules, fetcher_unsubscribe_rules
from .c04 import param_lookup_rule

PROP = 'C02'
CF = 'cflib/crazyflie/__init__.py'
SY = 'cflib/crazyflie/syncCrazyflie.py'
LS = 'cflib/crazyflie/link_statistics.py'

EXPLANATION = (
    'Static analysis of Crazyflie, _IncomingPacketHandler, SyncCrazyflie, LinkStatistics/Latency and the drivers with per-function CFGs '
    'and a whole-package call graph that includes callback registrations (Caller.add_callback -> Caller.call), port callbacks, the '
    'driver error-callback plumbing, class-hierarchy dispatch over the CRTPDriver subclasses and thread roots: R1 open_link announces '
    'connection_requested first, wraps driver lookup and set-up in try/except Exception -> connection_failed, and the no-driver branch '
    'fails without starting set-up; R2 link_established/connected/fully_connected each have one call site and the set-up continuation '
    'chain is platform -> log TOC -> memories -> param TOC -> connected -> all params -> fully_connected; R3 link-error fan-out table by '
    'state, link closed and nulled, state ends DISCONNECTED; R4 close_link: exactly one disconnected on every path, link closed and '
    'nulled, state DISCONNECTED; R5 every untimed Event.wait in SyncCrazyflie.open_link/close_link is released by a callback registered for '
    'every outcome that ends the awaited phase (connected, connection_failed, disconnected); R6 the send lock is released on every path '
    'including exceptional ones; R7 no untimed join/wait is reachable (call graph incl. callbacks) while the send lock is held on a thread '
    'that can itself need the send lock; R8 no thread can join itself unprotected; R9 long-lived thread loops do not test-then-reload an '
    'attribute that other threads null (Crazyflie.link); R10 the dispatcher idles while there is no link. Bounded *time* and the clause '
    '"no connected after the first disconnected" are not decided.')
ASSUMPTIONS = ['user callbacks are opaque and assumed not to block on library locks', 'a join/wait with a timeout of at most 10 s (or one that cannot be folded) is treated as non-blocking for deadlock purposes']
FLOORS = {'R11': 4, 'R12': 4, 'R1': 4, 'R13': 9, 'R2': 13, 'R3': 7, 'R4': 4, 'R5': 5, 'R6': 1, 'R7': 1, 'R8': 4, 'R9': 3, 'R10': 2}


MAX_BOUNDED_WAIT_S = 10.0


def blocking_calls(func):
    """untimed join / Event.wait / Queue.get(block) / acquire in a function: [(kind, call)]"""
    out = []
    for c in ast.walk(func.node):
        if not isinstance(c, ast.Call) or not isinstance(c.func, ast.Attribute):
            continue
        tmo = c.args[0] if c.args else next((k.value for k in c.keywords if k.arg == 'timeout'), None)
        timed = tmo is not None
        if timed:
            # a wait of minutes is a hang as far as "reaches the disconnected state in bounded time" goes (e.g. milliseconds handed to an API
            # that takes seconds): a timeout that folds to more than MAX_BOUNDED_WAIT_S seconds does not count as bounded
            v = fold_in(func, tmo)
            if isinstance(v, (int, float)) and not isinstance(v, bool) and v > MAX_BOUNDED_WAIT_S:
                timed = False
        if c.func.attr == 'join' and not timed and not isinstance(c.func.value, ast.Constant):
            recv = norm(c.func.value)
            if recv.startswith(("'", '"', 'os.path', 'path')) or 'str' in recv:
                continue
            out.append(('join', c))
        elif c.func.attr == 'wait' and not timed and ('event' in norm(c.func.value).lower() or 'Event' in norm(c.func.value)):
            out.append(('wait', c))
    return out


def link_names(func):
    """'self.link' and the locals of ``func`` that are bound (only) to it: the link as the function names it"""
    out = {'self.link'}
    binds = {}
    for s_ in walk_own(func.node):
        if isinstance(s_, ast.Assign) and len(s_.targets) == 1 and isinstance(s_.targets[0], ast.Name):
            binds.setdefault(s_.targets[0].id, []).append(norm(s_.value))
    for k_, vs in binds.items():
        if set(vs) == {'self.link'}:
            out.add(k_)
    return out


def sync_wait_release_rules(ctx, rule='R5'):
    """Every untimed Event.wait in SyncCrazyflie.open_link / close_link is released by each callback with which the attempt can end
    (connected, connection_failed, disconnected), and nothing that can fail runs in the callback before the release.  Shared with
    C19: Swarm.open_links can close the other links and raise only when the failing member's open_link returns."""
    m = ctx.model
    S = m.cls(SY, 'SyncCrazyflie')
    ac = S.method('_add_callbacks')
    regs = {}
    for c in walk_own(ac.node):
        if method_call(c, 'add_callback') and norm(c.func.value).startswith('self.cf.'):
            regs[norm(c.func.value).split('.')[-1]] = norm(c.args[0]).split('.')[-1]
    ending = {'_connect_event': ('connected', 'connection_failed', 'disconnected'), '_disconnect_event': ('disconnected',)}
    for fn, ev in (('open_link', '_connect_event'), ('close_link', '_disconnect_event')):
        f = S.method(fn)
        waits = [c for c in walk_own(f.node) if method_call(c, 'wait') and norm(c.func.value) == 'self.' + ev]
        ctx.need(len(waits) == 1, 'SyncCrazyflie.%s: wait on %s not found' % (fn, ev))
        timed = bool(waits[0].args) or bool(waits[0].keywords)
        for outcome in ending[ev]:
            h = regs.get(outcome)
            sets = []
            if h and S.has(h):
                hf = S.method(h)
                gh = cfg_of(hf)
                sets = [n for n, c in gh.find(lambda q: method_call(q, 'set') and norm(q.func.value) == 'self.' + ev)
                        if {k for k in gh.fact_keys_at(n)} <= {fact_key('self.' + ev, True)}]
            if sets:
                # ... and nothing that can fail runs in the handler before the event is set (an exception there - say arithmetic on a
                # timestamp that is still None - leaves the waiter blocked and kills the calling thread)
                risky = [x for x in gh.nodes if x.kind == 'stmt' and x is not sets[0] and gh.path_avoiding(x, [sets[0]]) is not None and not cannot_raise(x.ast)
                         and not (isinstance(x.ast, ast.Expr) and any(method_call(c_, 'set') for c_ in walk_own(x.ast)))]
                ctx.inst(rule, hf, 'nothing-fails-before-release:%s/%s' % (ev, outcome), timed or not risky,
                         'statements that may raise before %s.set() in %s: %s' % (ev, h, [norm(x.ast)[:70] for x in risky]))
            ctx.inst(rule, f, 'released-by:%s/%s' % (ev, outcome), timed or len(sets) >= 1,
                     'the untimed %s.wait() in %s is not released when the attempt ends with `%s` (handler %s never sets the event): the call blocks forever' % (ev, fn, outcome, h))


def disconnect_listener_rules(ctx, rule='R2', cg=None):
    """The listeners of Crazyflie.disconnected run one after the other in one Caller.call, without a barrier between them: one that
    raises keeps the later ones from running (Memory never fails its pending requests, SyncCrazyflie never releases open_link, the
    fetchers stay subscribed).  Two ways of raising out of a clean-up that are visible in the code, checked in everything the call
    graph reaches from those listeners: a lock released "just in case" - not acquired in that function - raises RuntimeError when it is
    not held, so it sits in a try that catches it; an attribute that is None while idle (assigned None outside __init__, or left None
    by __init__) is used only where a test says it is not.  Shared with C06 and C19."""
    m = ctx.model
    cg = cg or CallGraph(m)
    starts = sorted({f_ for f_, _ in cg.registrations.get(('Crazyflie', 'disconnected'), [])})
    ctx.need(len(starts) >= 6, 'listeners of Crazyflie.disconnected not found in the call graph (%d)' % len(starts))
    prev = cg.reachable(starts)

    def catches(h):
        if h.type is None:
            return True
        ts = [norm(t) for t in (h.type.elts if isinstance(h.type, ast.Tuple) else [h.type])]
        return any(t in ('RuntimeError', 'Exception', 'BaseException') for t in ts)
    n_rel = n_opt = 0
    for f_id in sorted(prev):
        f = cg.funcs.get(f_id)
        if f is None or not str(f.path).startswith('cflib/'):
            continue
        for c in walk_own(f.node):
            if method_call(c, 'release') and not c.args:
                lock = norm(c.func.value)
                acq = [a for a in walk_own(f.node) if method_call(a, 'acquire') and norm(a.func.value) == lock]
                intry = any(isinstance(t, ast.Try) and any(c is x for s_ in t.body for x in ast.walk(s_)) and any(catches(h) for h in t.handlers) for t in walk_own(f.node))
                n_rel += 1
                ctx.inst(rule, f, 'forced-release-cannot-raise:' + lock, bool(acq) or intry,
                         '%s.release() in %s runs on the disconnect path (%s) without having acquired the lock there: releasing a lock that is not held raises RuntimeError, '
                         'which must be caught on the spot or the remaining disconnect listeners never run' % (lock, f.qualname, ' <- '.join(cg.chain(prev, f_id))[:160]), line=c.lineno)
        cls = f.cls
        if cls is None:
            continue
        idle = set()
        for mm in cls.methods.values():
            sts = [s_ for s_ in walk_own(mm.node) if isinstance(s_, ast.Assign)]
            for s_ in sts:
                tg, vl = s_.targets[0], s_.value
                pairs = list(zip(tg.elts, vl.elts)) if isinstance(tg, ast.Tuple) and isinstance(vl, ast.Tuple) and len(tg.elts) == len(vl.elts) else [(t_, vl) for t_ in s_.targets]
                for t_, v_ in pairs:
                    if isinstance(t_, ast.Attribute) and norm(t_.value) == 'self' and isinstance(v_, ast.Constant) and v_.value is None:
                        later = mm.name == '__init__' and any(s2.lineno > s_.lineno and any(norm(t2) == norm(t_) for t2 in s2.targets) and
                                                              not (isinstance(s2.value, ast.Constant) and s2.value.value is None) for s2 in sts)
                        if not later:
                            idle.add(t_.attr)
        if not idle:
            continue
        g = cfg_of(f)
        loc = {}
        for s_ in walk_own(f.node):
            if isinstance(s_, ast.Assign):
                tg, vl = s_.targets[0], s_.value
                pairs = list(zip(tg.elts, vl.elts)) if isinstance(tg, ast.Tuple) and isinstance(vl, ast.Tuple) and len(tg.elts) == len(vl.elts) else [(tg, vl)]
                for t_, v_ in pairs:
                    if isinstance(t_, ast.Name) and isinstance(v_, ast.Attribute) and norm(v_.value) == 'self' and v_.attr in idle:
                        loc[t_.id] = 'self.' + v_.attr
        for c in walk_own(f.node):
            if not (isinstance(c, ast.Call) and isinstance(c.func, ast.Attribute)):
                continue
            r = c.func.value
            rn = norm(r)
            if not ((isinstance(r, ast.Attribute) and norm(r.value) == 'self' and r.attr in idle) or (isinstance(r, ast.Name) and r.id in loc)):
                continue
            nd = g.node_of(c)
            keys = g.fact_keys_at(nd) if nd is not None else set()
            names = [x for x in (rn, loc.get(rn)) if x]
            want = set()
            for x in names:
                want |= {fact_key(x, True), fact_key('%s is not None' % x, True), fact_key('%s is None' % x, False), fact_key('%s != None' % x, True)}
            n_opt += 1
            ctx.inst(rule, f, 'idle-attribute-used-under-test:%s.%s' % (rn, c.func.attr), bool(want & set(keys)),
                     '%s.%s() in %s (disconnect path): %s is None while idle and no test on this path says it is not - an AttributeError here ends the disconnect '
                     'notification for every later listener' % (rn, c.func.attr, f.qualname, ' / '.join(names)), line=c.lineno)
    ctx.need(n_rel >= 1 and n_opt >= 1, 'disconnect path: forced release (%d) / idle attribute use (%d) not found' % (n_rel, n_opt))


def failed_open_rules(ctx, rule='R1'):
    """A link driver that open_link obtained is closed again when the set-up that follows raises (shared with C19: the swarm closes
    only members it knows to be open, a member whose open failed half-way must not keep its driver)."""
    m = ctx.model
    ol = m.cls(CF, 'Crazyflie').method('open_link')
    tr = [t for t in walk_own(ol.node) if isinstance(t, ast.Try)]
    h0 = tr[0].handlers[0] if len(tr) == 1 and tr[0].handlers else None
    hc = [c for s in (h0.body if h0 else []) for c in walk_own(s) if method_call(c, 'close') and norm(c.func.value) in link_names(ol)]
    ctx.inst(rule, ol, 'failed-open-closes-link', len(hc) == 1, 'a link that was obtained is closed when set-up raises')


def check(ctx):
    m = ctx.model
    K = m.cls(CF, 'Crazyflie')
    cg = CallGraph(m)
    st = cg.stats()
    ctx.note('call graph: %(functions)d functions, %(resolved_call_edges)d resolved call edges, %(unresolved_calls)d unresolved calls (library/builtin/user callbacks)' % st)

    # ---- R1 ------------------------------------------------------------------------
    ol = K.method('open_link')
    g = cfg_of(ol)
    eff = effective(ol.node.body)
    ctx.inst('R1', ol, 'requested-first', bool(eff) and norm(eff[0]) == 'self.connection_requested.call(%s)' % ol.params[1], 'open_link starts with connection_requested; first statement %s' % (norm(eff[0])[:60] if eff else None))
    tr = [t for t in walk_own(ol.node) if isinstance(t, ast.Try)]
    look = [c for c in walk_own(ol.node) if isinstance(c, ast.Call) and norm(c.func).endswith('get_link_driver')]
    setup = [c for c in walk_own(ol.node) if method_call(c, '_start_connection_setup')]
    ctx.need(len(tr) == 1 and len(look) == 1 and len(setup) == 1, 'open_link: try / driver lookup / set-up call not found')
    in_try = lambda c: any(c is x for s in tr[0].body for x in walk_own(s))      # noqa: E731
    h0 = tr[0].handlers[0] if tr[0].handlers else None
    ok = in_try(look[0]) and in_try(setup[0]) and h0 is not None and catches_everything(h0) and \
        any(method_call(c, 'call') and norm(c.func.value) == 'self.connection_failed' for s in h0.body for c in walk_own(s)) and \
        not any(isinstance(x, ast.Raise) for s in h0.body for x in walk_own(s))
    ctx.inst('R1', ol, 'exceptions-become-connection_failed', ok, 'driver lookup and set-up run inside try/except Exception whose handler signals connection_failed and does not re-raise')
    nodrv = [(n, c) for n, c in g.find(lambda q: method_call(q, 'call') and norm(q.func.value) == 'self.connection_failed') if fact_key('self.link', False) in g.fact_keys_at(n)]
    sn = g.nodes_containing(setup[0])
    ok = len(nodrv) == 1 and bool(sn) and fact_key('self.link', True) in g.fact_keys_at(sn[0]) and g.path_avoiding(nodrv[0][0], [sn[0]]) is None
    ctx.inst('R1', ol, 'no-driver-fails-without-setup', ok, 'without a driver connection_failed is signalled and set-up is not started')
    stn = [n for n in g.nodes if n.kind == 'stmt' and isinstance(n.ast, ast.Assign) and norm(n.ast.targets[0]) == 'self.state']
    ctx.inst('R1', ol, 'state-initialized', len(stn) == 1 and norm(stn[0].ast.value) == 'State.INITIALIZED' and g.dominates(stn[0], g.nodes_containing(look[0])[0]), 'state = INITIALIZED before the driver is looked up')
    failed_open_rules(ctx, 'R1')
    from .c20 import driver_lookup_rules
    driver_lookup_rules(ctx, 'R1')      # `if not self.link` means "no driver claimed the URI": get_link_driver returns None then (shared with C20.R5)

    # ---- R2 ------------------------------------------------------------------------
    for cb, site in (('link_established', '_check_for_initial_packet_cb'), ('connected', '_param_toc_updated_cb'), ('fully_connected', '_all_parameters_updated')):
        sites = [(f.name, c) for f in K.methods.values() for c in walk_own(f.node) if method_call(c, 'call') and norm(c.func.value) == 'self.' + cb]
        ctx.inst('R2', K.method(site), 'single-site:' + cb, [s[0] for s in sites] == [site], '%s is signalled only from %s; sites %s' % (cb, site, [s[0] for s in sites]))
    chain = [('_start_connection_setup', 'self.platform.fetch_platform_informations', '_platform_info_fetched'), ('_platform_info_fetched', 'self.log.refresh_toc', '_log_toc_updated_cb'),
             ('_log_toc_updated_cb', 'self.mem.refresh', '_mems_updated_cb'), ('_mems_updated_cb', 'self.param.refresh_toc', '_param_toc_updated_cb')]
    for fn, api, nxt in chain:
        f = K.method(fn)
        cs = [c for c in walk_own(f.node) if isinstance(c, ast.Call) and norm(c.func) == api]
        ok = len(cs) == 1 and norm(cs[0].args[0]) == 'self.' + nxt and not any(method_call(c, 'call') and norm(c.func.value) in ('self.connected', 'self.fully_connected') for c in walk_own(f.node))
        ctx.inst('R2', f, 'continuation:' + fn, ok, '%s must hand %s to %s and signal nothing itself' % (fn, nxt, api))
    # every connection downloads the log TOC: the "first reset acknowledgement of this connection" guard in the log handler is re-armed
    # by Log.refresh_toc before the reset request goes out (a flag armed only in the constructor lets the second connection stop after
    # link_established)
    LOGP = 'cflib/crazyflie/log.py'
    lcb = m.func(LOGP, 'Log._new_packet_cb')
    glcb = cfg_of(lcb)
    mkf = [n for n, c in glcb.find(lambda q: isinstance(q, ast.Call) and dotted(q.func) == 'TocFetcher')]
    rft = m.func(LOGP, 'Log.refresh_toc')
    grft = cfg_of(rft)
    rst = [n for n, c in grft.find(lambda q: method_call(q, '_send_reset_packet'))]
    armed = {norm(n.ast.targets[0]) for n in grft.nodes if n.kind == 'stmt' and isinstance(n.ast, ast.Assign) and rst and grft.dominates(n, rst[0])}
    guards = set()
    for n in mkf:
        for f_ in glcb.facts_at(n):
            for x in ast.walk(f_.node):
                if isinstance(x, ast.Attribute) and isinstance(x.value, ast.Name) and x.value.id == 'self' and isinstance(x.ctx, ast.Load) and \
                        any(isinstance(t, ast.Attribute) and norm(t) == norm(x) for n2 in glcb.nodes if n2.kind == 'stmt' and isinstance(n2.ast, ast.Assign) for t in n2.ast.targets):
                    guards.add(norm(x))             # state the handler itself flips (the once-per-connection latch)
    ctx.inst('R2', lcb, 'log-toc-guard-rearmed-per-connection', len(mkf) == 1 and bool(guards) and guards <= armed,
             'latches read by the guard of the TOC download: %s; re-armed by refresh_toc before the reset request: %s' % (sorted(guards), sorted(armed)))
    pt = K.method('_param_toc_updated_cb')
    seq = [norm(s.value) for s in pt.node.body if isinstance(s, ast.Expr) and isinstance(s.value, ast.Call)]
    ok = 'self.connected.call(self.link_uri)' in seq and 'self.param.request_update_of_all_params()' in seq and \
        seq.index('self.connected.call(self.link_uri)') < seq.index('self.param.request_update_of_all_params()')
    ctx.inst('R2', pt, 'connected-after-param-toc', ok, 'connected is signalled when the parameter TOC is complete, then all parameter values are requested')
    reg = [c for c in walk_own(K.method('__init__').node) if method_call(c, 'add_callback') and norm(c.func.value) == 'self.param.all_updated' and [norm(a) for a in c.args] == ['self._all_parameters_updated']]
    ctx.inst('R2', K.method('__init__'), 'fully_connected-on-all-updated', len(reg) == 1, '_all_parameters_updated is registered on param.all_updated')
    param_lookup_rule(ctx, 'R2')
    disconnect_listener_rules(ctx, 'R2', cg)      # no listener of `disconnected` raises out of its clean-up: the later listeners still run
    fetcher_unsubscribe_rules(ctx, 'R2')     # an aborted attempt leaves no fetcher behind that would signal `connected` again (F-02f)
    ic = K.method('_check_for_initial_packet_cb')
    body = [norm(s) for s in effective(ic.node.body)]
    ctx.inst('R2', ic, 'first-packet', body == ['self.state = State.CONNECTED', 'self.link_established.call(self.link_uri)', 'self.packet_received.remove_callback(self._check_for_initial_packet_cb)'],
             'the first packet sets CONNECTED, signals link_established once and unhooks itself; body %s' % body)

    all_updated_rules(ctx)
    from .c11 import cached_table_adoption_rule
    cached_table_adoption_rule(ctx, 'R2')
    session_hygiene_rules(ctx)

    # ---- R3 ------------------------------------------------------------------------
    le = K.method('_link_error_cb')
    g = cfg_of(le)
    calls = g.find(lambda q: method_call(q, 'call') and norm(q.func.value).startswith('self.') and norm(q.func.value).split('.')[-1] in
                   ('connection_failed', 'disconnected', 'connection_lost', 'disconnected_link_error', 'connected', 'fully_connected', 'link_established'))
    table = {}
    for n, c in calls:
        states = []
        for k in g.fact_keys_at(n):
            if 'self.state' in k[0] and (k[1] or ' and ' in k[0]):      # positive atoms and (de Morgan form of) disjunctions of states
                states.append(k)
        table.setdefault(tuple(sorted(states)), []).append((n.line, norm(c.func.value).split('.')[-1]))
    got = {k: [x[1] for x in sorted(v)] for k, v in table.items()}
    spec = [('self.state == State.INITIALIZED', ['connection_failed']),
            ('self.state == State.CONNECTED or self.state == State.SETUP_FINISHED', ['disconnected', 'connection_lost']),
            ('self.state == State.DISCONNECTED', ['disconnected_link_error'])]
    want = {(fact_key(t),): v for t, v in spec}
    for t, v in spec:
        k = (fact_key(t),)
        ctx.inst('R3', le, 'fan-out:' + t[:40], got.get(k) == v, 'in %s a link error must produce %s in that order; found %s' % (t, v, got.get(k)))
    ctx.inst('R3', le, 'fan-out-complete', set(got) == set(want), 'states handled: %s' % sorted(got))
    ends = [n for n in g.nodes if n.kind == 'stmt' and isinstance(n.ast, ast.Assign) and norm(n.ast.targets[0]) == 'self.state']
    ok = len(ends) == 1 and norm(ends[0].ast.value) == 'State.DISCONNECTED' and ('n', ends[0].id) in g.dom()[('n', g.exit.id)] and all(g.path_avoiding(ends[0], [n]) is None for n, _ in calls)
    ctx.inst('R3', le, 'ends-disconnected', ok, 'after the fan-out the state is DISCONNECTED on every path')
    nul = [n for n in g.nodes if n.kind == 'stmt' and isinstance(n.ast, ast.Assign) and norm(n.ast.targets[0]) == 'self.link' and norm(n.ast.value) == 'None']
    lk = link_names(le)
    cl = g.find(lambda q: method_call(q, 'close') and norm(q.func.value) in lk)
    ok = len(nul) == 1 and ('n', nul[0].id) in g.dom()[('n', g.exit.id)] and len(cl) == 1 and fact_key('%s is not None' % norm(cl[0][1].func.value), True) in g.fact_keys_at(cl[0][0]) and \
        all(g.dominates(nul[0], n) for n, _ in calls)
    ctx.inst('R3', le, 'link-closed-and-nulled-first', ok, 'the link is closed (if any) and nulled before any callback runs')
    for n, c in calls:
        nm = norm(c.func.value).split('.')[-1]
        wanta = ['self.link_uri'] if nm == 'disconnected' else ['self.link_uri', le.params[1]]
        ctx.inst('R3', le, 'args:' + nm, [norm(a) for a in c.args] == wanta, '%s(%s)' % (nm, ', '.join(wanta)))

    # ---- R4 ------------------------------------------------------------------------
    cl_ = K.method('close_link')
    g = cfg_of(cl_)
    dc = g.find(lambda q: method_call(q, 'call') and norm(q.func.value) == 'self.disconnected')
    ok = len(dc) == 1 and ('n', dc[0][0].id) in g.dom()[('n', g.exit.id)] and not any(x.kind in ('for', 'while') and dc[0][0].id in {b.id for b in g.loop_body_nodes(x)} for x in g.nodes)
    ctx.inst('R4', cl_, 'exactly-one-disconnected', ok, 'close_link signals disconnected exactly once on every path; sites %d' % len(dc))
    others = g.find(lambda q: method_call(q, 'call') and norm(q.func.value) in ('self.connection_lost', 'self.connection_failed', 'self.connected', 'self.fully_connected'))
    ctx.inst('R4', cl_, 'no-other-signals', not others, 'close_link signals nothing else: %s' % [norm(c) for _, c in others])
    nul = [n for n in g.nodes if n.kind == 'stmt' and isinstance(n.ast, ast.Assign) and norm(n.ast.targets[0]) == 'self.link' and norm(n.ast.value) == 'None']
    lk = link_names(cl_)
    clo = g.find(lambda q: method_call(q, 'close') and norm(q.func.value) in lk)
    recv = norm(clo[0][1].func.value) if clo else 'self.link'
    ok = len(nul) == 1 and len(clo) == 1 and g.dominates(clo[0][0], nul[0]) and fact_key('%s is not None' % recv, True) in g.fact_keys_at(nul[0]) and bool(dc) and g.path_avoiding(dc[0][0], [clo[0][0]]) is None
    ctx.inst('R4', cl_, 'link-closed-and-nulled', ok, 'an open link is closed and nulled before disconnected is signalled')
    # the zero setpoint goes through the link: a driver that reports a send error calls _link_error_cb, which nulls self.link, so the
    # attribute has to be tested again after that call (a test before it says nothing about the link at the time of the close)
    if len(clo) == 1:
        cst = enclosing_stmt(cl_.node, clo[0][1])
        holder = [i for i in ast.walk(cl_.node) if isinstance(i, ast.If) and cst in i.body and any(norm(x) == recv for x in ast.walk(i.test))]
        between = [norm(c)[:50] for i in holder[:1] for st in i.body[:i.body.index(cst)] if not is_noise(st) for c in ast.walk(st) if isinstance(c, ast.Call)]
        if recv != 'self.link' and holder:
            # the link was read into a local: that read is what has to come after the last call (the statements between the read
            # and the test, in the block that holds both)
            for blk in [b_ for n_ in ast.walk(cl_.node) for b_ in (getattr(n_, 'body', None), getattr(n_, 'orelse', None)) if isinstance(b_, list) and holder[0] in b_]:
                rd_ = [i_ for i_, st in enumerate(blk[:blk.index(holder[0])]) if isinstance(st, ast.Assign) and norm(st.targets[0]) == recv]
                if not rd_:
                    between.append('%s is read outside the block of the test' % recv)
                else:
                    between += [norm(c)[:50] for st in blk[rd_[-1] + 1:blk.index(holder[0])] if not is_noise(st) for c in ast.walk(st) if isinstance(c, ast.Call)]
        ctx.inst('R4', cl_, 'link-tested-right-before-close', bool(holder) and not between,
                 'self.link.close() runs under a test of self.link with no call in between (a call that sends through the link can end it: %s)' % (between or 'no enclosing test'))
    ends = [n for n in g.nodes if n.kind == 'stmt' and isinstance(n.ast, ast.Assign) and norm(n.ast.targets[0]) == 'self.state']
    ctx.inst('R4', cl_, 'ends-disconnected', len(ends) == 1 and norm(ends[0].ast.value) == 'State.DISCONNECTED' and ('n', ends[0].id) in g.dom()[('n', g.exit.id)], 'state = DISCONNECTED on every path')

    # ---- R5 ------------------------------------------------------------------------
    S = m.cls(SY, 'SyncCrazyflie')
    sync_wait_release_rules(ctx, 'R5')
    g = cfg_of(S.method('open_link'))
    w = g.find(lambda q: method_call(q, 'wait'))
    a = g.find(lambda q: method_call(q, '_add_callbacks'))
    o = g.find(lambda q: method_call(q, 'open_link') and norm(q.func.value) == 'self.cf')
    ev = [n for n in g.nodes if n.kind == 'stmt' and isinstance(n.ast, ast.Assign) and norm(n.ast.targets[0]) == 'self._connect_event' and norm(n.ast.value) == 'Event()']
    ok = len(w) == 1 and len(a) == 1 and len(o) == 1 and len(ev) == 1 and g.dominates(a[0][0], o[0][0]) and g.dominates(ev[0], o[0][0]) and g.dominates(o[0][0], w[0][0])
    ctx.inst('R5', S.method('open_link'), 'hooks-and-event-before-open', ok, 'callbacks are registered and the event exists before the attempt starts; the wait follows')
    rz = [n for n in g.nodes if n.kind == 'raise' and fact_key('self._is_link_open', False) in g.fact_keys_at(n)]
    ctx.inst('R5', S.method('open_link'), 'failed-open-raises', len(rz) == 1 and g.dominates(w[0][0], rz[0]), 'after the wait a link that is not open raises')

    # ---- R6 ------------------------------------------------------------------------
    sp = K.method('send_packet')
    regs_, gx = regions(sp, 'self._send_lock', exceptional=True, may_raise=concrete_may_raise)
    ctx.need(len(regs_) == 1, 'send_packet: one _send_lock region expected')
    esc = regs_[0].escape(include_raise=True)
    ctx.inst('R6', sp, 'release-on-every-path', esc is None, 'the send lock is not released on %s (a raising driver or packet_sent callback leaves it held forever)' % (gx.fmt_path(esc) if esc else ''))

    # ---- R7 ------------------------------------------------------------------------
    regs_n, gn = regions(sp, 'self._send_lock')
    held_calls = []
    for n in regs_n[0].held:
        if n.ast is None or n.kind in ('with_exit', 'dispatch', 'handler'):
            continue
        for root in _own_exprs(n.ast):
            for c in walk_own(root):
                if isinstance(c, ast.Call):
                    held_calls.append(c)
    me = fid(sp)
    start = set()
    for callee, node, kind in cg.edges.get(me, []):
        if any(node is c for c in held_calls):
            start.add(callee)
    prev = cg.reachable(sorted(start))
    needs_lock = {}
    for root in cg.thread_roots:
        r = cg.reachable([root])
        if me in r:
            needs_lock[root] = r
    n7 = 0
    for f_id in prev:
        f = cg.funcs.get(f_id)
        if f is None:
            continue
        for kind, c in blocking_calls(f):
            if kind != 'join':
                continue
            holder = norm(c.func.value)
            roots = [r for r, infos in cg.thread_roots.items() if any(h == holder or (h and holder == 'self' and infos and h == (f.cls.name if f.cls else None)) for _, h, _ in infos)]
            for r in roots:
                if r in needs_lock:
                    n7 += 1
                    chain = cg.chain(prev, f_id)
                    ctx.inst('R7', f, 'join-under-send-lock:' + holder, False,
                             'untimed %s is reachable while Crazyflie._send_lock is held (%s) and the joined thread %s can block on that lock (%s): deadlock'
                             % (norm(c), ' ; '.join(['send_packet'] + chain[-5:]), r.split(':')[-1], ' ; '.join(cg.chain(needs_lock[r], me)[-3:])), line=c.lineno)
    # re-acquisition of the (non re-entrant) send lock on the thread that holds it
    for f_id in prev:
        f = cg.funcs.get(f_id)
        if f is None or f_id == me:
            continue
        for c in ast.walk(f.node):
            again = (isinstance(c, ast.Call) and method_call(c, 'acquire') and norm(c.func.value).endswith('_send_lock')) or \
                (isinstance(c, ast.With) and any(norm(i.context_expr).endswith('_send_lock') for i in c.items))
            if again:
                n7 += 1
                ctx.inst('R7', f, 'reacquire-send-lock', False,
                         '%s takes Crazyflie._send_lock and is reachable while send_packet already holds it (%s): threading.Lock is not re-entrant, the thread deadlocks with itself'
                         % (f.qualname, ' ; '.join(['send_packet'] + cg.chain(prev, f_id)[-5:])), line=getattr(c, 'lineno', 0))
    ctx.inst('R7', sp, 'no-blocking-wait-under-send-lock', n7 == 0, 'functions reachable from the held region: %d; threads that need the send lock: %s' % (len(prev), sorted(r.split(':')[-1] for r in needs_lock)))

    # ---- R8: self-join ----------------------------------------------------------------
    n8 = 0
    for root, infos in sorted(cg.thread_roots.items()):
        r = cg.reachable([root])
        for f_id in r:
            f = cg.funcs.get(f_id)
            if f is None:
                continue
            for c in ast.walk(f.node):
                if not (isinstance(c, ast.Call) and isinstance(c.func, ast.Attribute) and c.func.attr == 'join'):
                    continue
                holder = norm(c.func.value)
                mine = any((h == holder) or (kind == 'Thread-subclass' and holder == 'self' and f.cls is not None and f.cls.name == h) for _, h, kind in infos)
                if not mine or (holder != 'self' and f.cls is not None and not any(cr and cr.split(':')[-1].split('.')[0] == f.cls.name for cr, _, _ in infos)):
                    continue
                n8 += 1
                ok, how = protected_join(f, c)
                ctx.inst('R8', f, 'self-join:%s<-%s' % (f.qualname, root.split(':')[-1]), ok,
                         '%s can run on the very thread it joins (%s): unprotected it raises RuntimeError, aborting the disconnect path; protection: %s'
                         % (norm(c), ' ; '.join(cg.chain(r, f_id)[-4:]) or 'direct', how), line=c.lineno)
    ctx.need(n8 >= 3, 'self-join analysis found only %d candidate sites' % n8)
    # ... and a driver that reads its device from a thread of its own stops that thread BEFORE it gives the device back: a receiver that
    # is still reading sees the closed device as a link error and reports it in the middle of close_link (a second `disconnected`)
    n_cl = 0
    for path_, cls_, dev_ in (('cflib/crtp/usbdriver.py', 'UsbDriver', 'self.cfusb'), ('cflib/crtp/radiodriver.py', 'RadioDriver', 'self._radio')):
        fcl = m.cls(path_, cls_).method('close')
        gcl = cfg_of(fcl)
        stops = [n for n, c in gcl.find(lambda q: method_call(q, 'stop') and norm(q.func.value) == 'self._thread')]
        # (the device may be released through a helper of the class: one level is followed)
        rel = [n for n, c in gcl.find(lambda q: method_call(q, 'close') and norm(q.func.value) == dev_)]
        for n, c in gcl.find(lambda q: isinstance(q, ast.Call) and isinstance(q.func, ast.Attribute) and norm(q.func.value) == 'self' and m.cls(path_, cls_).has(q.func.attr)):
            h_ = m.cls(path_, cls_).method(c.func.attr)
            if any(method_call(x, 'close') and norm(x.func.value) == dev_ for x in walk_own(h_.node)):
                rel.append(n)
        n_cl += 1
        ctx.inst('R8', fcl, 'thread-stopped-before-device-released', len(stops) == 1 and bool(rel) and all(gcl.dominates(stops[0], r_) and stops[0] is not r_ for r_ in rel),
                 '%s.close(): self._thread.stop() comes before %s.close() on every path' % (cls_, dev_))
    ctx.need(n_cl == 2, 'driver close() functions not found')

    # ---- R11: `connected` only once the tables are complete (shared guard rule, see C03.R1) ---------
    fetcher_, cb_, gf_, _pkv, _adds, reqs_ = fetch_guard_rules(ctx, 'R11')
    fetch_completion_rules(ctx, 'R11', fetcher_, cb_, gf_, reqs_)      # complete = hit / empty / last index; a miss with entries starts at 0 (shared with C03.R9)

    # ---- R12: the parameter thread never keeps its request lock without a request in flight ------
    pu = m.func('cflib/crazyflie/param.py', '_ParamUpdater.run')
    gp = cfg_of(pu)
    acq = gp.find(lambda q: method_call(q, 'acquire') and norm(q.func.value) == 'self.wait_lock')
    wl = [n for n in gp.nodes if n.kind == 'while']
    ctx.need(len(acq) == 1 and len(wl) == 1, '_ParamUpdater.run: loop / acquire not found')
    outs = [n for n, c in gp.find(lambda q: (method_call(q, 'send_packet')) or (method_call(q, 'release') and norm(q.func.value) == 'self.wait_lock'))]
    w = gp.path_avoiding(acq[0][0], [wl[0], gp.exit], avoid=outs)
    ctx.inst('R12', pu, 'lock-kept-only-with-request-in-flight', w is None,
             'after wait_lock.acquire() a path reaches the next iteration with neither a transmission (whose reply releases the lock) nor a release: %s - '
             'after a link loss the thread then waits forever and the object cannot fetch parameters again' % (gp.fmt_path(w) if w else ''))
    sends = gp.find(lambda q: method_call(q, 'send_packet'))
    ctx.inst('R12', pu, 'send-only-with-link', all(fact_key('self.cf.link', True) in gp.fact_keys_at(n) for n, _ in sends) and bool(sends),
             'a request is transmitted (and the lock kept) only while a link exists; otherwise the lock is handed back')
    # ... a link that was looked at AFTER the wait: acquire() blocks until the previous reply arrives or the session is closed, a test
    # made before it says nothing about the link at the time of the transmission
    link_tests = [n for n in gp.nodes if n.kind in ('if', 'while') and any(norm(x) == 'self.cf.link' for x in ast.walk(n.ast.test))]
    fresh = [t for t in link_tests if gp.dominates(acq[0][0], t) and all(gp.dominates(t, n) for n, _ in sends)]
    ctx.inst('R12', pu, 'link-tested-after-the-wait', bool(sends) and bool(fresh),
             'between wait_lock.acquire() and the transmission the link is tested again (tests of the link: lines %s, acquire at line %d)' % ([t.line for t in link_tests], acq[0][0].line))
    cl2 = m.func('cflib/crazyflie/param.py', '_ParamUpdater.close')
    rel = [c for c in walk_own(cl2.node) if method_call(c, 'release') and norm(c.func.value) == 'self.wait_lock']
    dr = [c for c in walk_own(cl2.node) if method_call(c, 'get') and norm(c.func.value) == 'self.request_queue']
    ctx.inst('R12', cl2, 'close-drains-and-releases', len(rel) == 1 and len(dr) == 1, 'on disconnect the queue is drained and the lock released')
    pd = m.func('cflib/crazyflie/param.py', 'Param._disconnected')
    ctx.inst('R12', pd, 'disconnect-closes-updater', any(method_call(c, 'close') and norm(c.func.value) == 'self.param_updater' for c in walk_own(pd.node)), 'Param._disconnected closes the updater')

    # ---- R9 / R10 ------------------------------------------------------------------------
    link_users = [(CF, '_IncomingPacketHandler.run'), ('cflib/crazyflie/param.py', '_ParamUpdater.run'), ('cflib/crazyflie/param.py', '_ExtendedTypeFetcher.run')]
    # ... and the methods of Crazyflie itself: send_packet runs on every thread that sends (parameter updater, fetchers, ping, the
    # application), close_link on the application's, _link_error_cb on the driver's - none of them holds a lock the others respect
    link_users += [(CF, 'Crazyflie.' + mn) for mn in ('send_packet', 'close_link', '_link_error_cb', 'open_link') if K.has(mn)]
    for path, qual in link_users:
        f = m.func(path, qual)
        tested, used = set(), []
        for n in ast.walk(f.node):
            if isinstance(n, (ast.If, ast.While)):
                for x in ast.walk(n.test):
                    if isinstance(x, ast.Attribute) and x.attr == 'link':
                        tested.add(norm(x))
            if isinstance(n, ast.Call) and isinstance(n.func, ast.Attribute) and isinstance(n.func.value, ast.Attribute) and n.func.value.attr == 'link':
                used.append(norm(n.func.value))
        # ... the same one step removed: tested, then read into a local under that test (`if self.link is not None: link = self.link`)
        for i_ in ast.walk(f.node):
            if isinstance(i_, (ast.If, ast.While)):
                tl = {norm(x) for x in ast.walk(i_.test) if isinstance(x, ast.Attribute) and x.attr == 'link'}
                for st_ in i_.body:
                    for a_ in ast.walk(st_):
                        if isinstance(a_, ast.Assign) and isinstance(a_.value, ast.Attribute) and norm(a_.value) in tl:
                            used.append(norm(a_.value))
        bad = sorted(set(used) & tested)
        ctx.inst('R9', f, 'no-test-then-reload-of-link', not bad,
                 '%s is tested and then loaded again for a method call; another thread (close_link / link error) can null it in between and the thread dies' % bad)
    run = m.func(CF, '_IncomingPacketHandler.run')
    g = cfg_of(run)
    rc = g.find(lambda q: method_call(q, 'receive_packet'))
    ctx.need(len(rc) == 1, 'dispatcher: receive_packet not found')
    recv = norm(rc[0][1].func.value)
    keys = g.fact_keys_at(rc[0][0])
    ctx.inst('R10', run, 'receive-needs-link', fact_key('%s is None' % recv, False) in keys, 'the receive is reached only when the link is not None; guards %s' % sorted(keys))
    sl = [n for n, c in g.find(lambda q: isinstance(q, ast.Call) and norm(q.func) == 'time.sleep') if fact_key('%s is None' % recv, True) in g.fact_keys_at(n)]
    ok = len(sl) == 1 and g.path_avoiding(sl[0], [rc[0][0]], avoid=[n for n in g.nodes if n.kind == 'while']) is None
    ctx.inst('R10', run, 'idle-while-no-link', ok, 'with no link the dispatcher sleeps and starts the next iteration')
    # the link is re-read at the top of every iteration; a receive that blocks for ever keeps the dispatcher on a link that was
    # closed (closing a driver does not wake readers of its queue) and the next connection on the same object is never served
    wt = rc[0][1].args[0] if rc[0][1].args else (rc[0][1].keywords[0].value if rc[0][1].keywords else None)
    wv = fold_in(run, wt) if wt is not None else None
    ctx.inst('R10', run, 'receive-poll-is-bounded', isinstance(wv, (int, float)) and not isinstance(wv, bool) and wv > 0,
             'receive_packet is given a positive finite wait (0 = no wait and -1 / none = block for ever in the CRTPDriver contract); found %s' % (norm(wt) if wt is not None else 'no argument'))
    ctx.inst('R10', run, 'loops-forever', any(n.kind == 'while' and isinstance(n.ast.test, ast.Constant) and n.ast.test.value is True for n in g.nodes) and
             not any(n.kind in ('return', 'break') for n in g.nodes), 'the dispatcher never leaves its loop')


PM = 'cflib/crazyflie/param.py'


def all_updated_rules(ctx):
    """R2 (fully_connected only once every parameter has a value): Param signals all_updated once per session and only when every
    (group, name) of the TOC is a key of the value table."""
    P = ctx.model.cls(PM, 'Param')
    chk = P.method('_check_if_all_updated')
    up = P.method('_param_updated')
    node = chk.node
    reads_values = any(norm(a) == 'self.values' for a in ast.walk(node))
    rets = [r for r in walk_own(node) if isinstance(r, ast.Return)]
    if reads_values:
        loops = [l for l in walk_own(node) if isinstance(l, ast.For)]
        ok, why = False, ''
        if len(loops) == 2 and not any(isinstance(x, (ast.Break, ast.Continue, ast.While)) for x in walk_own(node)):
            outer, inner = sorted(loops, key=lambda l: l.lineno)
            g = cfg_of(chk)
            inner_in_outer = any(x is inner for s in outer.body for x in walk_own(s))
            ot = norm(outer.iter) in ('self.toc.toc', 'self.toc.toc.keys()', 'list(self.toc.toc)') and isinstance(outer.target, ast.Name)
            G = norm(outer.target)
            it = norm(inner.iter) in ('self.toc.toc[%s]' % G, 'self.toc.toc[%s].keys()' % G) and isinstance(inner.target, ast.Name)
            N = norm(inner.target)
            true_rets = [r for r in rets if not (isinstance(r.value, ast.Constant) and r.value.value is False)]
            only_tail = len(true_rets) == 1 and true_rets[0] in node.body and isinstance(true_rets[0].value, ast.Constant) and true_rets[0].value.value is True
            inner_n = [n for n in g.nodes if n.kind == 'for' and n.ast is inner]
            k1, k2 = fact_key('%s in self.values' % G), fact_key('%s in self.values[%s]' % (N, G))
            # after the inner loop header every fall-through to the next element must have seen both memberships
            body_ok = False
            if inner_n and inner_in_outer and ot and it:
                hdr = inner_n[0]
                body_ok = k1 in g.fact_keys_at(hdr)
                # the inner body consists of the membership test only (plus noise): the false edge of `N not in values[G]` returns False
                eff = effective(inner.body)
                body_ok = body_ok and len(eff) == 1 and isinstance(eff[0], ast.If) and fact_key(norm(eff[0].test)) == (k2[0], not k2[1]) and \
                    [norm(x) for x in effective(eff[0].body)] == ['return False'] and not eff[0].orelse
            ok = bool(only_tail and body_ok)
            why = 'nested walk over self.toc.toc / self.toc.toc[%s]; a missing group or name returns False, True only after both loops' % G
        elif not loops and len(rets) == 1 and isinstance(rets[0].value, ast.Call) and norm(rets[0].value.func) == 'all' and rets[0].value.args and \
                isinstance(rets[0].value.args[0], (ast.GeneratorExp, ast.ListComp)):
            ge = rets[0].value.args[0]
            gens = [(norm(c.target), norm(c.iter)) for c in ge.generators]
            if len(gens) == 2 and gens[0][1] == 'self.toc.toc' and gens[1][1] == 'self.toc.toc[%s]' % gens[0][0] and not any(c.ifs for c in ge.generators):
                G, N = gens[0][0], gens[1][0]
                conj = {fact_key(norm(v)) for v in (ge.elt.values if isinstance(ge.elt, ast.BoolOp) and isinstance(ge.elt.op, ast.And) else [ge.elt])}
                ok = conj == {fact_key('%s in self.values' % G), fact_key('%s in self.values[%s]' % (N, G))}
                why = 'all(... for %s in toc for %s in toc[%s]) over both memberships' % (G, N, G)
            elif len(gens) == 2 and gens[0][0] not in {x.id for x in ast.walk(ge.elt) if isinstance(x, ast.Name)} and 'self.values' not in norm(ge.elt):
                # the per-name test does not mention the group at all (e.g. membership in a flattened set of names): a name that occurs in
                # two groups is then counted as fetched for both once either arrived
                ok, why = False, 'the completeness test %s ignores the group of the parameter: equal names in different groups are confused' % norm(ge.elt)
            elif len(gens) == 1 and gens[0][1] == 'self.toc.toc' and not ge.generators[0].ifs and isinstance(ge.elt, ast.BoolOp) and isinstance(ge.elt.op, ast.And) and len(ge.elt.values) == 2:
                # all(G in values and all(N in values[G] for N in toc[G]) for G in toc): the same two memberships, nested
                G = gens[0][0]
                a_, b_ = ge.elt.values
                inner_ok = isinstance(b_, ast.Call) and norm(b_.func) == 'all' and b_.args and isinstance(b_.args[0], (ast.GeneratorExp, ast.ListComp)) and \
                    len(b_.args[0].generators) == 1 and not b_.args[0].generators[0].ifs and norm(b_.args[0].generators[0].iter) == 'self.toc.toc[%s]' % G
                if inner_ok:
                    N = norm(b_.args[0].generators[0].target)
                    ok = fact_key(norm(a_)) == fact_key('%s in self.values' % G) and fact_key(norm(b_.args[0].elt)) == fact_key('%s in self.values[%s]' % (N, G))
                else:
                    ok = False
                why = 'all(%s in values and all(.. in values[%s] ..) for %s in toc): both memberships for every parameter' % (G, G, G)
            else:
                raise AnchorError('_check_if_all_updated: unrecognised all(...) form')
        elif len(loops) == 1 and isinstance(loops[0].target, ast.Name) and norm(loops[0].iter) == 'self.toc.toc' and \
                not any(isinstance(x, ast.Subscript) and norm(x.value) in ('self.values', 'self.toc.toc') for s_ in loops[0].body for x in ast.walk(s_)):
            ok, why = False, 'only the groups of the TOC are compared with the value table; the names inside a group are never looked at'
        else:
            raise AnchorError('_check_if_all_updated: unrecognised form of the TOC-versus-values walk')
        ctx.inst('R2', chk, 'all-updated-covers-toc', ok, why)
    else:
        attrs = sorted({norm(a) for a in ast.walk(node) if isinstance(a, ast.Attribute) and norm(a).startswith('self.') and not norm(a).startswith('self.toc')
                        and isinstance(a.value, ast.Name)})
        bad = []
        for a in attrs:
            for f in P.methods.values():
                g = cfg_of(f)
                for n in g.nodes:
                    if n.kind == 'stmt' and aug_form(n.ast) and aug_form(n.ast)[0] == a:
                        if not any((not pol) and ' in self.values' in txt for txt, pol in g.fact_keys_at(n)):
                            bad.append('%s:%d %s' % (f.name, n.line, norm(n.ast)))
        ctx.inst('R2', chk, 'all-updated-covers-toc', bool(attrs) and not bad,
                 'completeness is decided from %s, not from membership of every TOC entry in self.values; it advances for values of parameters that already have one: %s'
                 % (attrs or 'nothing', bad or 'no guarded increment found'))
    g = cfg_of(up)
    fire = g.find(lambda q: method_call(q, 'call') and norm(q.func.value) == 'self.all_updated')
    sites = [f.name for f in P.methods.values() for c in walk_own(f.node) if method_call(c, 'call') and norm(c.func.value) == 'self.all_updated']
    ok = sites == ['_param_updated'] and len(fire) == 1
    if ok:
        ks = g.fact_keys_at(fire[0][0])
        setn = [n for n in g.nodes if n.kind == 'stmt' and isinstance(n.ast, ast.Assign) and norm(n.ast.targets[0]) == 'self.is_updated' and norm(n.ast.value) == 'True']
        ok = fact_key('self._check_if_all_updated()') in ks and fact_key('self.is_updated', False) in ks and len(setn) == 1 and g.dominates(setn[0], fire[0][0])
    ctx.inst('R2', up, 'all-updated-once-when-complete', ok, 'all_updated fires only from _param_updated, guarded by _check_if_all_updated() and not is_updated, after is_updated = True; sites %s' % sites)
    st = [n for n in g.nodes if n.kind == 'stmt' and isinstance(n.ast, ast.Assign) and isinstance(n.ast.targets[0], ast.Subscript) and norm(n.ast.targets[0].value).startswith('self.values[')]
    ok = len(st) == 1 and len(fire) == 1 and g.dominates(st[0], fire[0][0]) and norm(st[0].ast.targets[0]) == 'self.values[element.group][element.name]'
    ctx.inst('R2', up, 'value-stored-before-completeness-test', ok, 'the received value is stored under (group, name) of the element found by id before completeness is tested')
    cr = P.method('_connection_requested')
    rs = {norm(t): norm(s.value) for s in walk_own(cr.node) if isinstance(s, ast.Assign) for t in s.targets}
    ctx.inst('R2', cr, 'new-session-resets-values', rs.get('self.values') == '{}' and rs.get('self.is_updated') == 'False' and rs.get('self.toc') == 'Toc()',
             'a new connection attempt starts with an empty value table, is_updated False and an empty TOC; resets %s' % rs)
    # ... and the session that ends drops them at once: a value packet the dispatcher still holds when the link goes down finds no
    # element in the emptied TOC and is ignored - with the old table kept it would complete the download and announce
    # fully_connected after disconnected
    dc = P.method('_disconnected')
    gd = cfg_of(dc)
    drops = {}
    for n in gd.nodes:
        if n.kind == 'stmt' and isinstance(n.ast, ast.Assign) and not gd.fact_keys_at(n) and ('n', n.id) in (gd.dom().get(('n', gd.exit.id)) or ()):
            for t in n.ast.targets:
                drops[norm(t)] = norm(n.ast.value)
    ctx.inst('R2', dc, 'ended-session-drops-table-and-values', drops.get('self.toc') == 'Toc()' and drops.get('self.values') in ('{}', 'dict()'),
             'on disconnect the parameter TOC and the value table are replaced by empty ones, unconditionally; found %s' % {k: v for k, v in drops.items() if k in ('self.toc', 'self.values')})


def session_hygiene_rules(ctx):
    """R13 - what one session leaves behind must not reach the next, and the disconnect path itself must not hang or die:
    finished fetchers really unregister (shared with C07.R4/R6), the memory subsystem fails pending requests with its lock released
    (a failure callback starts the next write), and Latency.stop() only touches state its constructor created."""
    m = ctx.model
    from .c07 import caller_rules, port_registration_rules, removal_predicate_rules
    removal_predicate_rules(ctx, 'R13')
    port_registration_rules(ctx, 'R13')
    # the public signals (disconnected, connection_lost, ...) are Caller lists: listeners that unregister themselves while being called
    # (the fetchers, SyncCrazyflie) must not make the next listener miss the signal (shared with C07.R2)
    caller_rules(ctx, 'R13')
    # an aborted fetcher is stopped by the ValueError of removing its disconnect listener a second time: a finished-callback of a
    # download that was already aborted would announce `connected` after `disconnected`.  Removing what is not registered must fail.
    CBm = 'cflib/utils/callbacks.py'
    rc = m.func(CBm, 'Caller.remove_callback')
    from ..astutil import effective as _eff
    body = [s_ for s_ in _eff(rc.node.body) if not (isinstance(s_, ast.Expr) and isinstance(s_.value, ast.Constant)) and
            not (isinstance(s_, ast.Return) and (s_.value is None or (isinstance(s_.value, ast.Constant) and s_.value.value is None)))]
    plain = len(body) == 1 and isinstance(body[0], ast.Expr) and method_call(body[0].value, 'remove') and norm(body[0].value.func.value) == 'self.callbacks' and \
        [norm(a_) for a_ in body[0].value.args] == [rc.params[1]]
    ctx.inst('R13', rc, 'remove-of-unregistered-raises', plain, 'Caller.remove_callback is list.remove: removing a callback that is not registered raises '
             '(TocFetcher._toc_fetch_finished relies on it to stop after an abort); body %s' % [norm(s_)[:60] for s_ in body])
    ME_ = 'cflib/crazyflie/mem/__init__.py'
    caf = m.func(ME_, 'Memory._call_all_failed_callbacks')
    regs, g = regions(caf, 'self._write_requests_lock')
    held = {n.id for r in regs for n in r.held}
    cbs = g.find(lambda q: method_call(q, 'call') and norm(q.func.value).startswith('self.mem_') and norm(q.func.value).endswith('_failed_cb'))
    ctx.inst('R13', caf, 'failure-callbacks-outside-lock', bool(cbs) and all(n.id not in held for n, _ in cbs),
             'on disconnect the pending memory requests are failed with the (non re-entrant) write lock released: a failure callback that issues the next write would deadlock the '
             'thread that delivers `disconnected`')
    La = m.cls(LS, 'Latency')
    init_attrs = {t.attr for s_ in walk_own(La.method('__init__').node) if isinstance(s_, (ast.Assign, ast.AnnAssign))
                  for t in (s_.targets if isinstance(s_, ast.Assign) else [s_.target]) if isinstance(t, ast.Attribute) and isinstance(t.value, ast.Name) and t.value.id == 'self'}
    stop = La.method('stop')
    used = {a.attr for a in ast.walk(stop.node) if isinstance(a, ast.Attribute) and isinstance(a.value, ast.Name) and a.value.id == 'self' and isinstance(a.ctx, ast.Load)}
    lazy = sorted(u for u in used if u not in init_attrs and not La.has(u))
    ctx.inst('R13', stop, 'stop-uses-only-constructed-state', not lazy,
             'Latency.stop() runs inside the `disconnected` fan-out at any point of the connection sequence: it may only read attributes the constructor created; '
             'created later (AttributeError before the first ping answer): %s' % (lazy or 'none'))


BENIGN_CALLS = ('len', 'isinstance', 'tuple', 'list', 'str', 'int', 'print', 'Timer', 'threading.Timer')


def concrete_may_raise(stmt):
    """A statement counts as raising only if it calls into code that can realistically raise: anything except logging and a few
    total builtins (the property is about driver / callback failures, not about style)."""
    roots = _own_exprs(stmt) if isinstance(stmt, ast.stmt) else [stmt]
    for root in roots:
        for n in walk_own(root):
            if isinstance(n, ast.Call):
                d = dotted(n.func) or ''
                if d.startswith(('logger.', 'logging.')) or d in BENIGN_CALLS:
                    continue
                if isinstance(n.func, ast.Attribute) and n.func.attr in ('acquire', 'release'):
                    continue
                return True
            if isinstance(n, ast.Raise):
                return True
    return False


def protected_join(func, call):
    """join inside try with a handler catching RuntimeError/Exception, or guarded by an identity test against current_thread()"""
    for t in walk_own(func.node):
        if isinstance(t, ast.Try) and any(call is c for s in t.body for c in walk_own(s)):
            for h in t.handlers:
                if catches_everything(h) or 'RuntimeError' in handler_names(h):
                    return True, 'try/except %s' % handler_names(h)
    g = cfg_of(func)
    for n in g.nodes_containing(call):
        for f in g.facts_at(n):
            if f.op == 'is' and 'current_thread()' in f.text and f.pol is False:
                # the object compared with the running thread has to be the one that is joined (a bound method, say, is never
                # the current thread: the guard is then always open)
                holder = norm(call.func.value)
                sides = [norm(x) for x in (f.left, f.right) if x is not None and 'current_thread()' not in norm(x)]
                if sides == [holder]:
                    return True, 'identity guard %r' % f
                return False, 'identity guard on %s, but %s is joined' % (sides, holder)
    return False, 'none'


VARIANTS = [
    M('R2', 'cflib/crazyflie/param.py', "        try:\n            self.wait_lock.release()\n        except RuntimeError:\n            pass\n\n    def request_param_setvalue", "        if self._lock_pattern is not None:\n            self.wait_lock.release()\n\n    def request_param_setvalue", 'forced release of the wait lock outside try'),
    M('R8', LS, "            if self._ping_thread_instance is not current_thread():", "            if self._ping_thread is not current_thread():", 'self-join guard compares the bound method'),
    M('R11', 'cflib/crazyflie/toc.py', "                if (self.nbr_of_items > 0):", "                if (self.nbr_of_items > 1):", 'one-entry table treated as empty'),
    M('R4', CF, "            self.commander.send_setpoint(0, 0, 0, 0)\n        link = self.link\n        if (link is not None):\n            link.close()", "            link = self.link\n            self.commander.send_setpoint(0, 0, 0, 0)\n            link.close()", 'link not re-read after the zero setpoint'),
    M('R9', CF, "            link = self.link\n            if link is not None:\n                if len(expected_reply) > 0 and not resend and \\\n                        link.needs_resending:", "            if self.link is not None:\n                link = self.link\n                if len(expected_reply) > 0 and not resend and \\\n                        link.needs_resending:", 'F-02g reintroduced: tested, then loaded again'),
    M('R10', CF, "            pk = link.receive_packet(1)", "            pk = link.receive_packet(-1)", 'dispatcher blocks for ever on one link'),
    M('R2', PM, "            for n in self.toc.toc[g]:\n                if n not in self.values[g]:\n                    return False\n", "", 'a group with one value counts as complete'),
    M('R2', PM, "            if self._check_if_all_updated() and not self.is_updated:", "            if not self.is_updated:", 'all_updated on the first value'),
    M('R2', PM, "        self.values = {}\n        self._initialized.clear()", "        self._initialized.clear()", 'values survive reconnect'),
    B(PM, "        for g in self.toc.toc:\n            if g not in self.values:\n                return False\n            for n in self.toc.toc[g]:\n                if n not in self.values[g]:\n                    return False\n\n        return True",
      "        return all(g in self.values and n in self.values[g] for g in self.toc.toc for n in self.toc.toc[g])", 'all() form of the walk'),
    M('R1', CF, "        self.connection_requested.call(link_uri)\n        self.state = State.INITIALIZED\n        self.link_uri = link_uri\n        try:", "        self.state = State.INITIALIZED\n        self.link_uri = link_uri\n        self.connection_requested.call(link_uri)\n        try:", 'connection_requested not first'),
    M('R1', CF, "        except Exception as ex:  # pylint: disable=W0703\n            # We want to catch every possible exception here and show", "        except IOError as ex:  # pylint: disable=W0703\n            # We want to catch every possible exception here and show", 'narrow open_link handler'),
    M('R2', CF, "        logger.info('Log TOC finished updating')\n", "        logger.info('Log TOC finished updating')\n        self.connected.call(self.link_uri)\n", 'connected from the log TOC callback'),
    M('R2', CF, "        self.mem.refresh(self._mems_updated_cb)", "        self.mem.refresh(self._param_toc_updated_cb)", 'param TOC skipped'),
    M('R3', CF, "            self.disconnected.call(self.link_uri)\n            self.connection_lost.call(self.link_uri, errmsg)", "            self.connection_lost.call(self.link_uri, errmsg)\n            self.disconnected.call(self.link_uri)", 'lost before disconnected'),
    M('R3', CF, "            self.disconnected_link_error.call(self.link_uri, errmsg)\n        self.state = State.DISCONNECTED", "            self.disconnected_link_error.call(self.link_uri, errmsg)", 'state not reset after link error'),
    M('R4', CF, "        self.disconnected.call(self.link_uri)\n        self.state = State.DISCONNECTED", "        if self.state != State.DISCONNECTED:\n            self.disconnected.call(self.link_uri)\n        self.state = State.DISCONNECTED", 'conditional disconnected'),
    M('R5', SY, "        if self._connect_event:\n            # The link was lost before the connection was fully set up\n            self._error_message = 'Connection to %s lost during connection setup' % link_uri\n            self._connect_event.set()\n", "", 'F-02a reintroduced'),
    M('R5', SY, "        self._error_message = msg\n        if self._connect_event:\n            self._connect_event.set()", "        self._error_message = msg", 'connection_failed does not wake open_link'),
    M('R6', CF, "        finally:\n            self._send_lock.release()", "        except KeyError:\n            pass\n        self._send_lock.release()", 'F-02b reintroduced'),
    M('R7', LS, "                self._ping_thread_instance.join(timeout=1.0)", "                self._ping_thread_instance.join()", 'F-02c reintroduced'),
    M('R8', LS, "            if self._ping_thread_instance is not current_thread():\n", "            if True:\n", 'F-02d reintroduced'),
    M('R8', 'cflib/crtp/radiodriver.py', "        self._sp = True\n        try:\n            self.join()\n        except Exception:\n            pass", "        self._sp = True\n        self.join()", 'radio thread stop unprotected'),
    M('R9', CF, "            link = self.cf.link\n            if link is None:\n                time.sleep(1)\n                continue\n            pk = link.receive_packet(1)", "            if self.cf.link is None:\n                time.sleep(1)\n                continue\n            pk = self.cf.link.receive_packet(1)", 'F-02e reintroduced'),
    M('R10', CF, "            if link is None:\n                time.sleep(1)\n                continue\n", "            if link is None:\n                time.sleep(1)\n", 'falls through to receive on None'),
    B(CF, "        self._send_lock.acquire()\n        try:", "        self._send_lock.acquire()\n        logger.debug('lock taken')\n        try:", 'log inside lock'),
]
