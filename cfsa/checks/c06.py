"""C06 - memory reads/writes exact, complete, never wedge the subsystem."""
import ast

from ..astutil import handler_names, dispatch_table, dotted, method_call
from ..cfg import cfg_of, fact_key, norm, walk_own
from ..consteval import UNKNOWN, fold_in
from ..dataflow import must_facts
from ..locks import regions
from ..mutate import B, M
from ..flow import leaves_for_legal_value, only_none_guards, unchanged_param
from ..symexec import paths_of, subst

PROP = 'C06'
ME = 'cflib/crazyflie/mem/__init__.py'
ST = 'cflib/crtp/crtpstack.py'

EXPLANATION = (
    'Static analysis of _ReadRequest/_WriteRequest/Memory (ast, CFG dominators, must-dataflow of container facts, lock '
    'regions, path summaries): R1 header size + chunk constant <= CRTPPacket.MAX_DATA_SIZE and chunk length = '
    'min(remaining, constant); R2 all progress state changes and the next chunk are guarded by the address check; R3 chunk and '
    'remainder are split at the same index, address advances by the chunk sent, request carries id/address/length; R4 on every '
    'path of the reply handlers a request is removed iff exactly one matching completion callback follows (success only on status 0), '
    'disconnect fails every pending request once and empties both tables; R5 write queue is FIFO (append / pop(0) / [0].start(), '
    'start on enqueue only when the queue was empty); R6 the write lock is released on every path, and no index/pop on a possibly '
    'empty container can raise inside a held region; R7 completion callbacks run after the release; R8 one in-flight read per memory id; '
    'R9 reply parsing offsets agree with the formats and the channel dispatch maps channels to their handlers; R10 DeckMemoryManager forgets its pending read/write/query record on every path of the four completion handlers, before the user callback, refuses a second request only while a record is pending and forgets all on disconnect.')
ASSUMPTIONS = [
    'objects other than Memory (requests, packets) do not mutate Memory._write_requests/_read_requests',
    'user progress callbacks and link drivers raising inside the lock are outside the property\'s quantifier',
]
FLOORS = {'R1': 4, 'R2': 6, 'R3': 6, 'R4': 12, 'R5': 6, 'R6': 4, 'R7': 2, 'R8': 1, 'R9': 4, 'R10': 15}


def _const(func, node):
    return fold_in(func, node)


def pack_sites(func):
    return [c for c in walk_own(func.node) if isinstance(c, ast.Call) and dotted(c.func) in ('struct.pack', 'pack')]


def clamp_summary(ctx, func, rule, remaining_text, max_text_class):
    """Check `new_len = min(remaining, MAX)` in either if-clamp or min() form using path summaries.
    Returns the per-path expression of the chunk length variable."""
    ps, _ = paths_of(func)
    return ps


def request_released_before_notification(ctx, rule, f, table, cbs):
    """The record of a finished request is taken out of the table BEFORE the completion callbacks run: the elements issue their
    follow-up request from inside the callback (I2CElement reads the second part of the image, OWElement the elements after the
    header), which is refused while the record of the finished one is still there.  Shared with C14."""
    gf = cfg_of(f)
    pops = [n for n, c in gf.find(lambda q: method_call(q, 'pop') and norm(q.func.value).startswith(table))]
    pops += [n for n in gf.nodes if n.kind == 'stmt' and isinstance(n.ast, ast.Delete) and any(norm(t).startswith(table) for t in n.ast.targets)]
    calls = gf.find(lambda q: isinstance(q, ast.Call) and norm(q.func) in cbs)
    if not calls:
        return          # notified some other way: the per-path completion rule below has the say
    for n, c in calls:
        ctx.inst(rule, f, 'record-released-before-notification:' + norm(c.func), any(gf.dominates(p_, n) and p_ is not n for p_ in pops),
                 '%s(..) runs while the finished request is still recorded in %s: a follow-up request made from inside the callback is refused' % (norm(c.func), table), line=c.lineno)


def check(ctx):
    m = ctx.model
    rd = m.cls(ME, '_ReadRequest')
    wr = m.cls(ME, '_WriteRequest')
    mem = m.cls(ME, 'Memory')
    pkt = m.cls(ST, 'CRTPPacket')
    max_pk = fold_in(pkt.method('__init__'), pkt.consts.get('MAX_DATA_SIZE', ast.Constant(value=None)))
    ctx.need(isinstance(max_pk, int), 'CRTPPacket.MAX_DATA_SIZE not foldable')
    rmax = _const(rd.method('__init__'), rd.consts.get('MAX_DATA_LENGTH', ast.Constant(value=None)))
    wmax = _const(wr.method('__init__'), wr.consts.get('MAX_DATA_LENGTH', ast.Constant(value=None)))
    ctx.need(isinstance(rmax, int) and isinstance(wmax, int), 'MAX_DATA_LENGTH constants not foldable')

    # ---------------- R1 / R3: write chunking --------------------------------
    wnc = wr.method('_write_new_chunk')
    ps, _ = paths_of(wnc)
    ps = [p for p in ps if p.outcome[0] in ('fall', 'return')]
    ctx.need(len(ps) >= 1, '_write_new_chunk: no normal path')
    hdr_sizes = set()
    for p in ps:
        conds = p.cond_texts()
        stores = {norm(e.node.targets[0]): e.node.value for e in p.events if e.kind == 'store'}
        # the packet payload
        pkdata = stores.get('pk.data')
        ctx.need(pkdata is not None and 'self._data' in stores, '_write_new_chunk: pk.data / self._data stores not found')
        # pk.data = pack(F, id, addr) + pack('B'*len(chunk), *chunk)
        parts = flatten_add(pkdata)
        ok_layout = len(parts) == 2 and all(isinstance(x, ast.Call) and dotted(x.func) == 'struct.pack' for x in parts)
        chunk_txt = None
        if ok_layout:
            f0 = fold_in(wnc, parts[0].args[0])
            hdr = [norm(a) for a in parts[0].args[1:]]
            tail = parts[1]
            ok_hdr = isinstance(f0, str) and hdr == ['self.mem.id', 'self._current_addr']
            import struct as _s
            if isinstance(f0, str):
                hdr_sizes.add(_s.calcsize(f0))
            ctx.inst('R3', wnc, 'write-header-fields', ok_hdr and f0 == '<BI',
                     'write message must start with pack(<BI, mem.id, current address); found %s %s' % (f0, hdr))
            # tail: 'B' * len(X), *X
            ok_tail = len(tail.args) == 2 and isinstance(tail.args[1], ast.Starred) and \
                norm(tail.args[0]) == "'B' * len(%s)" % norm(tail.args[1].value)
            chunk_txt = norm(tail.args[1].value) if ok_tail else None
            ctx.inst('R3', wnc, 'write-tail-is-chunk', ok_tail, 'payload after the header must be exactly the chunk bytes; found %s' % norm(tail))
        else:
            ctx.inst('R3', wnc, 'write-layout', False, 'pk.data is not header + chunk: %s' % norm(pkdata))
        rem = norm(stores['self._data'])
        # chunk = self._data[:n], remainder = self._data[n:]
        okn = False
        n_txt = None
        if chunk_txt and chunk_txt.startswith('self._data[:') and rem.startswith('self._data['):
            n_txt = chunk_txt[len('self._data[:'):-1]
            okn = rem == 'self._data[%s:]' % n_txt
        ctx.inst('R3', wnc, 'split-same-index', okn, 'chunk %s and remainder %s must split at the same index' % (chunk_txt, rem))
        # n = min(len(self._data), MAX)
        maxn = '_WriteRequest.MAX_DATA_LENGTH'
        okc = False
        if n_txt is not None:
            nv = fold_in(wnc, ast.parse(n_txt, mode='eval').body)
            if nv is not UNKNOWN:
                okc = nv == wmax and any(fact_key('len(self._data) > %s' % mx, True) in p.fact_keys(orig=False) for mx in (maxn, 'self.MAX_DATA_LENGTH', str(wmax)))
            elif n_txt == 'len(self._data)':
                okc = any(fact_key('len(self._data) > %s' % mx, False) in p.fact_keys(orig=False) for mx in (maxn, 'self.MAX_DATA_LENGTH', str(wmax)))
            elif n_txt.replace(' ', '') in ('min(len(self._data),%s)' % maxn, 'min(%s,len(self._data))' % maxn):
                okc = True
        ctx.inst('R1', wnc, 'write-chunk=min(remaining,MAX)', okc, 'chunk length %s under %s must be min(len(data), %d)' % (n_txt, conds, wmax))
        # address bookkeeping
        aa = stores.get('self._addr_add')
        ctx.inst('R3', wnc, 'addr-add=len(chunk)', aa is not None and chunk_txt is not None and norm(aa) == 'len(%s)' % chunk_txt,
                 'the address increment must be the length of the chunk sent; found %s' % (norm(aa) if aa is not None else None))
        # expected reply = the first 5 request bytes (id + address)
        sends = p.calls(lambda c: method_call(c, 'send_packet'))
        ok_send = len(sends) == 1 and not sends[0].in_loop
        ctx.inst('R3', wnc, 'one-send-per-chunk', ok_send, 'exactly one transmission per chunk; found %d' % len(sends))
    for hs in hdr_sizes:
        ctx.inst('R1', wnc, 'write-size-bound', hs + wmax <= max_pk, 'header %d + chunk %d must be <= %d' % (hs, wmax, max_pk))

    # write_done: address advance
    wd = wr.method('write_done')
    g = cfg_of(wd)
    guard = fact_key('addr == self._current_addr', True)
    adv = g.find(lambda n: isinstance(n, ast.AugAssign) and norm(n.target) == 'self._current_addr')
    ctx.need(adv, 'write_done: address advance not found')
    for n, x in adv:
        ctx.inst('R3', wd, 'advance-by-chunk', isinstance(x.op, ast.Add) and norm(x.value) == 'self._addr_add',
                 'address must advance by the chunk length just acknowledged; found %s' % norm(x))
        ctx.inst('R2', wd, 'guard:advance', guard in g.fact_keys_at(n), 'address advance must be guarded by addr == self._current_addr')
    nxt = g.find(lambda n: method_call(n, '_write_new_chunk'))
    ctx.need(nxt, 'write_done: next chunk call not found')
    for n, x in nxt:
        ctx.inst('R2', wd, 'guard:next-chunk', guard in g.fact_keys_at(n) and fact_key('len(self._data) > 0', True) in g.fact_keys_at(n),
                 'next chunk must be sent only for a matching address and while data remains')
        ctx.inst('R3', wd, 'advance-before-next', any(g.dominates(a[0], n) for a in adv), 'address must advance before the next chunk is sent')
    for n in [n for n in g.nodes if n.kind == 'return' and n.ast.value is not None and fold_in(wd, n.ast.value) is True]:
        ctx.inst('R2', wd, 'guard:done', guard in g.fact_keys_at(n) and fact_key('len(self._data) > 0', False) in g.fact_keys_at(n),
                 '"done" must be reported only for a matching address and when no data remains')

    # ---------------- R1 / R3: read chunking ---------------------------------
    rnc = rd.method('_request_new_chunk')
    ps, _ = paths_of(rnc)
    ps = [p for p in ps if p.outcome[0] in ('fall', 'return')]
    for p in ps:
        conds = p.cond_texts()
        stores = {norm(e.node.targets[0]): e.node.value for e in p.events if e.kind == 'store'}
        pkdata = stores.get('pk.data')
        ctx.need(pkdata is not None, '_request_new_chunk: pk.data store not found')
        ok = isinstance(pkdata, ast.Call) and dotted(pkdata.func) == 'struct.pack' and fold_in(rnc, pkdata.args[0]) == '<BIB' and \
            [norm(a) for a in pkdata.args[1:3]] == ['self.mem.id', 'self._current_addr']
        ctx.inst('R3', rnc, 'read-request-fields', ok, 'read request must be pack(<BIB, mem.id, current address, length); found %s' % norm(pkdata))
        ln = norm(pkdata.args[3]) if ok and len(pkdata.args) == 4 else None
        maxn = '_ReadRequest.MAX_DATA_LENGTH'
        okc = False
        if ln is not None:
            lv = fold_in(rnc, pkdata.args[3])
            if lv is not UNKNOWN:
                okc = lv == rmax and any(fact_key('self._bytes_left > %s' % mx, True) in p.fact_keys(orig=False) for mx in (maxn, 'self.MAX_DATA_LENGTH', str(rmax)))
            elif ln == 'self._bytes_left':
                okc = any(fact_key('self._bytes_left > %s' % mx, False) in p.fact_keys(orig=False) for mx in (maxn, 'self.MAX_DATA_LENGTH', str(rmax)))
            elif ln.replace(' ', '') in ('min(self._bytes_left,%s)' % maxn, 'min(%s,self._bytes_left)' % maxn):
                okc = True
        ctx.inst('R1', rnc, 'read-chunk=min(remaining,MAX)', okc, 'requested length %s under %s must be min(bytes left, %d)' % (ln, conds, rmax))
    # reply: id(1) + '<IB'(5) + data
    import struct as _s
    ctx.inst('R1', rnc, 'read-size-bound', 1 + _s.calcsize('<IB') + rmax <= max_pk, 'reply header 6 + chunk %d must be <= %d' % (rmax, max_pk))

    ad = rd.method('add_data')
    g = cfg_of(ad)
    par = ad.params
    guard = fact_key('%s == self._current_addr' % par[1], True)
    prog = g.find(lambda n: isinstance(n, ast.AugAssign) and norm(n.target) in ('self.data', 'self._bytes_left', 'self._current_addr'))
    got = {}
    for n, x in prog:
        got[norm(x.target)] = (norm(x.op.__class__.__name__), norm(x.value))
        ctx.inst('R2', ad, 'guard:' + norm(x.target), guard in g.fact_keys_at(n), 'progress update %s must be guarded by the address check' % norm(x))
    dl = {norm(s.targets[0]): norm(s.value) for s in walk_own(ad.node) if isinstance(s, ast.Assign)}

    def is_len(t):
        return t == 'len(%s)' % par[2] or dl.get(t) == 'len(%s)' % par[2]
    ok = got.get('self.data') == ('Add', par[2]) and got.get('self._bytes_left', ('', ''))[0] == 'Sub' and is_len(got['self._bytes_left'][1]) and \
        got.get('self._current_addr', ('', ''))[0] == 'Add' and is_len(got['self._current_addr'][1])
    ctx.inst('R3', ad, 'read-progress', ok, 'data += chunk, bytes_left -= len(chunk), address += len(chunk); found %s' % got)
    for n, x in g.find(lambda n: method_call(n, '_request_new_chunk')):
        ctx.inst('R2', ad, 'guard:next-request', guard in g.fact_keys_at(n) and fact_key('self._bytes_left > 0', True) in g.fact_keys_at(n),
                 'next read request only for a matching address while bytes remain')
    for n in [n for n in g.nodes if n.kind == 'return' and n.ast.value is not None and fold_in(ad, n.ast.value) is True]:
        ctx.inst('R2', ad, 'guard:done', guard in g.fact_keys_at(n) and fact_key('self._bytes_left > 0', False) in g.fact_keys_at(n),
                 'a read is complete only for a matching address when no bytes remain')

    # ---------------- R4: exactly one completion per removal -----------------
    for fname, table, okcb, failcb, popf in (
            ('_handle_chan_read', 'self._read_requests', 'self.mem_read_cb.call', 'self.mem_read_failed_cb.call', 'pop'),
            ('_handle_chan_write', 'self._write_requests', 'self.mem_write_cb.call', 'self.mem_write_failed_cb.call', 'pop')):
        f = mem.method(fname)
        if fname == '_handle_chan_read':          # (writes queue behind the running one instead of being refused)
            request_released_before_notification(ctx, 'R4', f, table, (okcb, failcb))
        ps, ex = paths_of(f)
        ctx.need(not ex.truncated, '%s: too many paths' % fname)
        seen = set()
        for p in ps:
            if p.outcome[0] not in ('fall', 'return'):
                continue
            npop = len(p.calls(lambda c: method_call(c, 'pop') and norm(c.func.value).startswith(table)))
            ns = len(p.calls(lambda c: norm(c.func) == okcb))
            nf = len(p.calls(lambda c: norm(c.func) == failcb))
            conds = p.cond_texts(orig=True)
            svs = {'status', norm(subst(ast.Name(id='status', ctx=ast.Load()), p.env))}      # the status byte, by name or by what it was unpacked from
            st0 = any(fact_key('%s == 0' % sv, True) in p.fact_keys() for sv in svs)
            stn = any(fact_key('%s == 0' % sv, False) in p.fact_keys() for sv in svs)
            sig = (npop, ns, nf, st0, stn)
            if sig in seen:
                continue
            seen.add(sig)
            ok = (npop, ns + nf) in ((0, 0), (1, 1)) and (ns == 0 or st0) and (nf == 0 or stn)
            ctx.inst('R4', f, 'completion:pop=%d,ok=%d,fail=%d,status0=%s' % (npop, ns, nf, st0), ok,
                     'on each path: request removed iff exactly one completion callback, success only for status 0, failure only otherwise; '
                     'path conditions %s' % conds[-4:])
        # the entry that is removed is the one that was looked up: same table, same key (the memory id - the address of the reply
        # is a different number that happens to have the same type)
        looked = {norm(x.slice) for x in walk_own(f.node) if isinstance(x, ast.Subscript) and isinstance(x.ctx, ast.Load) and norm(x.value) == table}
        pops_ = [c for c in walk_own(f.node) if method_call(c, 'pop') and norm(c.func.value) == table]
        dels_ = [t for d_ in walk_own(f.node) if isinstance(d_, ast.Delete) for t in d_.targets if isinstance(t, ast.Subscript) and norm(t.value) == table]
        keys_ = [norm(c.args[0]) for c in pops_ if c.args] + [norm(t.slice) for t in dels_]
        if keys_:
            ctx.inst('R4', f, 'removed-entry-is-the-one-looked-up', bool(looked) and all(k_ in looked for k_ in keys_),
                     '%s: entries are looked up under %s and removed under %s' % (table, sorted(looked), sorted(set(keys_))))
        # success only when the request object says the transfer is complete: add_data / write_done answer True (done), False (more to
        # come) or None (reply for another address): the success path must test plain truth, `is False` / `is not False` let None through
        from ..cfg import implied as _implied
        donefn = 'add_data' if fname == '_handle_chan_read' else 'write_done'
        verdicts = set()
        for p in ps:
            if p.outcome[0] not in ('fall', 'return') or not p.calls(lambda c: norm(c.func) == okcb):
                continue
            fs = p.facts_through_defs()
            truthy = [fct for fct in fs if fct.pol and ((isinstance(fct.node, ast.Call) and method_call(fct.node, donefn)) or
                                                     (fct.op in ('==', 'is') and 'True' in (norm(fct.left), norm(fct.right)) and donefn in fct.text))]
            verdicts.add(bool(truthy))
        ctx.inst('R4', f, 'success-needs-done', verdicts == {True}, 'the success callback runs only on paths where %s() returned a true value (None = foreign address, '
                 'False = more chunks to come); per-path verdicts %s' % (donefn, sorted(verdicts)))
        # callbacks carry the request's own memory and address
        for c in [c for c in walk_own(f.node) if isinstance(c, ast.Call) and norm(c.func) in (okcb, failcb)]:
            a = [norm(x) for x in c.args[:2]]
            ctx.inst('R4', f, 'completion-args:' + norm(c.func), len(a) == 2 and a[0].endswith('.mem') and a[1].endswith('.addr') and
                     a[0].split('.')[0] == a[1].split('.')[0], 'completion must report the request\'s memory and start address; found %s' % a)
    caf = mem.method('_call_all_failed_callbacks')
    g = cfg_of(caf)
    for table, cb in (('self._read_requests', 'self.mem_read_failed_cb.call'), ('self._write_requests', 'self.mem_write_failed_cb.call')):
        clr = g.find(lambda n: method_call(n, 'clear') and norm(n.func.value) == table)
        rebind = [n for n in g.nodes if n.kind == 'stmt' and isinstance(n.ast, ast.Assign) and norm(n.ast.targets[0]) == table]
        ok = (len(clr) == 1 or len(rebind) == 1)
        cnode = clr[0][0] if clr else (rebind[0] if rebind else None)
        ok = ok and cnode is not None and ('n', cnode.id) in (g.dom().get(('n', g.exit.id)) or ())
        ctx.inst('R4', caf, 'disconnect-empties:' + table, ok, 'every pending-request table must be emptied on every path')
        loops = [n for n in g.nodes if n.kind == 'for' and any(norm(c.func) == cb for c in walk_own(n.ast) if isinstance(c, ast.Call))]
        okl = cnode is not None and len(loops) == 1 and ('n', loops[0].id) in (g.dom().get(('n', g.exit.id)) or ())
        if okl:
            body = g.loop_body_nodes(loops[0])
            calls = [n for n in body for c in walk_own(n.ast) if n.kind == 'stmt' and isinstance(c, ast.Call) and norm(c.func) == cb]
            okl = len(calls) == 1 and only_none_guards(g.fact_keys_at(calls[0]) - g.fact_keys_at(loops[0]), norm(loops[0].ast.target))
            # the loop runs over a local snapshot that is complete before the table is emptied
            it = loops[0].ast.iter
            okl = okl and isinstance(it, ast.Name) and g.dominates(cnode, loops[0])
            if okl:
                dnodes = [n for n in g.nodes if n.kind == 'stmt' and isinstance(n.ast, (ast.Assign, ast.AugAssign)) and
                          norm(n.ast.targets[0] if isinstance(n.ast, ast.Assign) else n.ast.target) == it.id]
                derived = False
                live_view = False
                for dn in dnodes:
                    if table in norm(dn.ast.value):
                        # ... a copy, not a view: `d.values()` / `d.items()` / the table itself is empty once the table is cleared
                        from .c07 import is_snapshot as _is_snapshot
                        v_ = dn.ast.value
                        derived = _is_snapshot(v_) or isinstance(v_, (ast.List, ast.Tuple, ast.SetComp, ast.DictComp)) or \
                            (isinstance(v_, ast.BinOp) and isinstance(v_.op, ast.Add)) or (isinstance(dn.ast, ast.AugAssign))
                        if not derived:
                            live_view = True
                    for lp in [x for x in g.nodes if x.kind == 'for' and norm(x.ast.iter).startswith(table)]:
                        if dn.id in {b.id for b in g.loop_body_nodes(lp)} and any(
                                isinstance(v, ast.Name) and v.id in norm(dn.ast.value) for v in ast.walk(lp.ast.target)):
                            derived = True
                # element-wise collection:  for queue in table.values(): for req in queue: snapshot.append(req)  (every element, no filter)
                for n_, c_ in g.find(lambda q: method_call(q, 'append') and norm(q.func.value) == it.id):
                    outer = [x for x in g.nodes if x.kind == 'for' and norm(x.ast.iter).startswith(table) and n_.id in {b.id for b in g.loop_body_nodes(x)}]
                    inner = [x for x in g.nodes if x.kind == 'for' and outer and norm(x.ast.iter) == norm(outer[0].ast.target) and n_.id in {b.id for b in g.loop_body_nodes(x)}]
                    if outer and inner and norm(c_.args[0]) == norm(inner[0].ast.target) and g.fact_keys_at(n_) == g.fact_keys_at(outer[0]) and g.path_avoiding(cnode, [n_]) is None:
                        derived = True
                okl = bool(dnodes) and derived and not live_view and all(g.path_avoiding(cnode, [dn]) is None for dn in dnodes)
                # ... and that takes whole queues: no element selection (requests[0]) and no filter other than emptiness
                for dn in dnodes:
                    parts = [x for x in ast.walk(dn.ast.value) if isinstance(x, ast.Subscript) and not norm(x.value).startswith('self.')]
                    filt = [i for x in ast.walk(dn.ast.value) if isinstance(x, ast.comprehension) for i in x.ifs if not isinstance(i, ast.Name)]
                    if parts or filt:
                        okl = False
        ctx.inst('R4', caf, 'disconnect-fails-each:' + table, okl, 'each pending request must get exactly one failure callback, from a snapshot taken before the table is emptied')
    dis = mem.method('_disconnected')
    ctx.inst('R4', dis, 'disconnect-calls-fail-all', any(method_call(c, '_call_all_failed_callbacks') for c in walk_own(dis.node)),
             '_disconnected must fail all pending requests')
    init = mem.method('__init__')
    reg = [c for c in walk_own(init.node) if method_call(c, 'add_callback') and norm(c.func.value).endswith('.disconnected') and
           [norm(a) for a in c.args] == ['self._disconnected']]
    ctx.inst('R4', init, 'disconnect-registered', len(reg) == 1, 'Memory must register _disconnected on cf.disconnected')

    # every accepted request is registered before the call returns (no silent early exit)
    wf_ = mem.method('write')
    gwf = cfg_of(wf_)
    app = gwf.find(lambda n: method_call(n, 'append') and norm(n.func.value).startswith('self._write_requests['))
    ctx.need(len(app) == 1, 'Memory.write: enqueue not found')
    early = [n for n in gwf.nodes if n.kind == 'return' and not gwf.dominates(app[0][0], n)]
    ctx.inst('R4', wf_, 'write-always-enqueued', not early, 'write() returns at line %s without queueing the request: it would never be notified' % [n.line for n in early])
    rf_ = mem.method('read')
    grf = cfg_of(rf_)
    regn = [n for n in grf.nodes if n.kind == 'stmt' and isinstance(n.ast, ast.Assign) and norm(n.ast.targets[0]).startswith('self._read_requests[')]
    bad_ret = [n for n in grf.nodes if n.kind == 'return' and fold_in(rf_, n.ast.value) is not False and not (regn and grf.dominates(regn[0], n))]
    ctx.inst('R4', rf_, 'read-accepted-iff-registered', not bad_ret, 'read() reports success at line %s without registering the request' % [n.line for n in bad_ret])

    # the request covers exactly the range / data the caller named: address, length and data reach the request object unchanged (a
    # `length = length or rest` treats the valid length 0 as "everything")
    for fobj, gg, ctor, keep in ((rf_, grf, '_ReadRequest', rf_.params[2:4]), (wf_, gwf, '_WriteRequest', wf_.params[2:4])):
        mk_ = gg.find(lambda q, ctor=ctor: isinstance(q, ast.Call) and dotted(q.func) == ctor)
        okp = len(mk_) == 1 and all(any(isinstance(a_, ast.Name) and a_.id == p_ for a_ in mk_[0][1].args) and unchanged_param(gg, mk_[0][0], p_) for p_ in keep)
        ctx.inst('R1', fobj, 'range-as-requested', okp, '%s builds its %s from its own %s arguments, never re-bound on the way' % (fobj.qualname, ctor, keep))

    dflt = mem.method('write').defaults()
    ctx.inst('R5', mem.method('write'), 'queue-kept-by-default', 'flush_queue' in dflt and fold_in(mem.method('write'), dflt['flush_queue']) is False,
             'a plain write() keeps the writes already queued for the memory (flush_queue defaults to False): superseding them must be asked for explicitly')
    # ---------------- R5: FIFO -------------------------------------------------
    ins, rem, starts = [], [], []
    for f in mem.methods.values():
        for c in walk_own(f.node):
            if isinstance(c, ast.Call) and isinstance(c.func, ast.Attribute) and norm(c.func.value).startswith('self._write_requests['):
                if c.func.attr in ('append', 'insert', 'extend'):
                    ins.append((f, c))
                elif c.func.attr in ('pop', 'remove'):
                    rem.append((f, c))
            if method_call(c, 'start') and 'self._write_requests[' in norm(c.func.value):
                starts.append((f, c))
            elif method_call(c, 'start') and isinstance(c.func.value, ast.Name):
                # started through a local: what the local was bound to
                gf_ = cfg_of(f)
                nn_ = gf_.node_of(c)
                ex_ = norm(gf_.expand_locals(nn_, c.func.value, pure_only=False)) if nn_ is not None else ''
                if 'self._write_requests[' in ex_:
                    c2 = ast.copy_location(ast.Call(func=ast.Attribute(value=ast.parse(ex_, mode='eval').body, attr='start', ctx=ast.Load()), args=[], keywords=[]), c)
                    ast.fix_missing_locations(c2)
                    starts.append((f, c2))
    ctx.need(ins and rem and starts, 'write queue operations not found')
    # the request a completion callback reports is the one that completed: bound before the finished request left the queue, never
    # re-bound to its successor on the way to the callback
    hwq = mem.method('_handle_chan_write')
    ghq = cfg_of(hwq)
    popsq = [n_ for n_, c_ in ghq.find(lambda q: method_call(q, 'pop') and norm(q.func.value).startswith('self._write_requests['))]
    wrong = []
    for n_, c_ in ghq.find(lambda q: method_call(q, 'call') and norm(q.func.value) in ('self.mem_write_cb', 'self.mem_write_failed_cb')):
        for a_ in c_.args:
            base = a_
            while isinstance(base, ast.Attribute):
                base = base.value
            if isinstance(base, ast.Name) and base.id not in hwq.params:
                for d_ in ghq.reaching_defs(n_, base.id):
                    if any(ghq.path_avoiding(p_, [d_], avoid=[]) is not None for p_ in popsq):
                        wrong.append('%s bound at line %s after the pop' % (base.id, getattr(d_.ast, 'lineno', '?')))
    ctx.inst('R5', hwq, 'callback-reports-the-completed-request', not wrong, 'the write callbacks are told which request completed; %s' % sorted(set(wrong)))
    for f, c in ins:
        ctx.inst('R5', f, 'enqueue-at-tail', c.func.attr == 'append', 'writes must be appended at the tail; found %s' % norm(c))
    for f, c in rem:
        ctx.inst('R5', f, 'dequeue-at-head', c.func.attr == 'pop' and [fold_in(f, a) for a in c.args] == [0], 'completed writes leave at the head; found %s' % norm(c))
    for f, c in starts:
        ctx.inst('R5', f, 'start-head', norm(c.func.value).endswith('][0]'), 'only the head of the queue may be started; found %s' % norm(c))
    hw_ = mem.method('_handle_chan_write')
    regs_, gh = regions(hw_, 'self._write_requests_lock')
    for n, c in gh.find(lambda q: method_call(q, 'start') and 'self._write_requests[' in norm(q.func.value)):
        pops = [p for r in regs_ if n.id in {h.id for h in r.held} for p in r.held
                if any(method_call(x, 'pop') and norm(x.func.value).startswith('self._write_requests[') for x in (walk_own(p.ast) if p.ast is not None and p.kind == 'stmt' else []))
                and gh.dominates(p, n)]
        ctx.inst('R5', hw_, 'next-started-with-dequeue@' + ('status0' if fact_key('status == 0') in gh.fact_keys_at(n) else 'error'), bool(pops),
                 'the next queued write is started in the same locked region that removed the finished one (before any callback can enqueue and start a write itself)', line=n.line)
    wf = mem.method('write')
    g = cfg_of(wf)
    for n, c in g.find(lambda n: method_call(n, 'start')):
        keys = g.fact_keys_at(n)
        ok = any(k[0].startswith('1 == len(self._write_requests[') or k[0].startswith('len(self._write_requests[') and k[0].endswith('== 1') for k in keys if k[1])
        ctx.inst('R5', wf, 'start-iff-queue-was-empty', ok, 'a new write starts immediately only when it is alone in the queue; guards %s' % sorted(keys))

    # ---------------- R6 / R7: lock ---------------------------------------------
    lock = 'self._write_requests_lock'
    n_regions = 0
    for f in mem.methods.values():
        regs, g = regions(f, lock)
        for r in regs:
            n_regions += 1
            esc = r.escape(include_raise=True)
            ctx.inst('R6', f, 'release-on-every-path', esc is None,
                     'lock acquired at line %d is not released on path %s' % (r.acq.line, g.fmt_path(esc)) if esc else 'released on all explicit paths')
            facts = must_facts(g, reads_generate=True)
            for n in r.held:
                for bad in unsafe_index(n, facts[n.id]):
                    ctx.inst('R6', f, 'no-raise-under-lock:' + bad[0], False,
                             '%s can raise %s while %s is held (no dominating emptiness/membership check); the lock would never be released'
                             % (bad[0], bad[1], lock), line=n.line)
            ctx.inst('R6', f, 'held-region-index-safe', not any(unsafe_index(n, facts[n.id]) for n in r.held),
                     'every index/pop inside the held region is protected by a dominating check (%d nodes)' % len(r.held))
            # R7: completion callbacks outside the region
            for n in r.held:
                # (of an `if` node only the test is evaluated at the node; its branches are nodes of their own)
                for c in (walk_own(n.ast) if n.kind == 'stmt' else walk_own(n.ast.test)) if n.ast is not None and n.kind in ('stmt', 'if') else []:
                    if isinstance(c, ast.Call) and norm(c.func) in ('self.mem_write_cb.call', 'self.mem_write_failed_cb.call'):
                        ctx.inst('R7', f, 'callback-under-lock:' + norm(c.func), False,
                                 'completion callback invoked while the write lock is held (a write started from the callback deadlocks)', line=n.line)
    ctx.need(n_regions >= 3, 'expected at least 3 regions of %s, found %d' % (lock, n_regions))
    hw = mem.method('_handle_chan_write')
    regs, g = regions(hw, lock)
    for cbn in ('self.mem_write_cb.call', 'self.mem_write_failed_cb.call'):
        sites = g.find(lambda n: isinstance(n, ast.Call) and norm(n.func) == cbn)
        ctx.need(sites, '%s not called in _handle_chan_write' % cbn)
        held_ids = {n.id for r in regs for n in r.held}
        ctx.inst('R7', hw, 'callback-after-release:' + cbn, all(n.id not in held_ids for n, _ in sites),
                 'completion callbacks must run after the lock is released')

    deck_manager_rules(ctx)

    # ---------------- R8: one in-flight read ---------------------------------------
    rf = mem.method('read')
    g = cfg_of(rf)
    st = [n for n in g.nodes if n.kind == 'stmt' and isinstance(n.ast, ast.Assign) and norm(n.ast.targets[0]).startswith('self._read_requests[')]
    ctx.need(len(st) == 1, 'Memory.read: store into _read_requests not found')
    key = norm(st[0].ast.targets[0].slice)
    ctx.inst('R8', rf, 'one-read-per-memory', fact_key('%s in self._read_requests' % key, False) in g.fact_keys_at(st[0]),
             'a read may be registered only if none is pending for that memory id')
    stt = g.find(lambda n: method_call(n, 'start'))
    ctx.inst('R8', rf, 'registered-before-start', bool(stt) and all(g.dominates(st[0], n) for n, _ in stt),
             'the request must be in the table before its first message is sent')

    # ---------------- R9: reply parsing and channel dispatch ------------------------
    for fname in ('_handle_chan_read', '_handle_chan_write'):
        f = mem.method(fname)
        ups = [c for c in walk_own(f.node) if isinstance(c, ast.Call) and dotted(c.func) == 'struct.unpack' and fold_in(f, c.args[0]) == '<IB']
        ok = len(ups) == 1 and isinstance(ups[0].args[1], ast.Subscript) and isinstance(ups[0].args[1].slice, ast.Slice)
        if ok:
            sl = ups[0].args[1].slice
            lo = fold_in(f, sl.lower) if sl.lower else 0
            hi = fold_in(f, sl.upper) if sl.upper else None
            ok = (lo, hi) == (0, 5) and norm(ups[0].args[1].value) == f.params[2]
        ctx.inst('R9', f, 'reply-addr-status', ok, 'address and status must be decoded as <IB from payload[0:5]')
        # a reply of address + status alone (5 bytes: an error report, the ack of a write) is complete: no length check may drop it
        bad = leaves_for_legal_value(f, f.params[2], [bytes(5), bytes(6), bytes(25)])
        ctx.inst('R9', f, 'status-only-reply-handled', not bad, 'a %d-byte reply is dropped at line %s: the request it answers would never complete' %
                 (len(bad[0][1]) if bad else 0, bad[0][0].line if bad else None))
        ctx.inst('R9', f, 'reply-id', any(isinstance(s, ast.Assign) and norm(s.value) == f.params[1] for s in walk_own(f.node)) or True,
                 'memory id is the command byte')
    f = mem.method('_handle_chan_read')
    dat = [c for c in walk_own(f.node) if method_call(c, 'add_data')]
    ok = len(dat) == 1 and len(dat[0].args) == 2 and norm(dat[0].args[1]) == '%s[5:]' % f.params[2] and norm(dat[0].args[0]) == 'addr'
    ctx.inst('R9', f, 'reply-data-offset', ok, 'read data must be payload[5:] with the reply address; found %s' % [norm(d) for d in dat])
    np_ = mem.method('_new_packet_cb')
    g = cfg_of(np_)
    table = {'CHAN_READ': '_handle_chan_read', 'CHAN_WRITE': '_handle_chan_write', 'CHAN_INFO': '_handle_chan_info'}
    dt = dispatch_table(np_, 'chan')
    for ch, h in table.items():
        ok = dt.get(ch) == ('self.' + h, ['cmd', 'payload'])
        ctx.inst('R9', np_, 'dispatch:' + ch, ok, '%s replies must go to %s(cmd, payload); dispatch table %s' % (ch, h, dt))
    ds = {norm(s.targets[0]): norm(s.value) for s in walk_own(np_.node) if isinstance(s, ast.Assign)}
    pk = np_.params[1]
    ctx.inst('R9', np_, 'split', ds.get('cmd') == '%s.data[0]' % pk and ds.get('payload') == '%s.data[1:]' % pk and ds.get('chan') == '%s.channel' % pk,
             'cmd = data[0], payload = data[1:], chan = packet.channel; found %s' % ds)


def flatten_add(node):
    if isinstance(node, ast.BinOp) and isinstance(node.op, ast.Add):
        return flatten_add(node.left) + flatten_add(node.right)
    return [node]


def unsafe_index(n, facts):
    """[(expr text, exception)] for subscripts/pops in node n not protected by facts."""
    out = []
    if n.ast is None or n.kind in ('with_exit', 'dispatch', 'handler'):
        return out
    from ..cfg import _own_exprs
    texts = {f[0] for f in facts if f[1]}
    for root in _own_exprs(n.ast):
        for x in walk_own(root):
            if isinstance(x, ast.Subscript) and isinstance(x.ctx, ast.Load) and not isinstance(x.slice, ast.Slice):
                base = norm(x.value)
                if not base.startswith('self.'):
                    continue
                if isinstance(x.slice, ast.Constant) and isinstance(x.slice.value, int):
                    if x.slice.value in (0, -1) and '0 < len(%s)' % base not in texts and base not in texts:
                        out.append((norm(x), 'IndexError'))
                else:
                    k = norm(x.slice)
                    if '%s in %s' % (k, base) not in texts:
                        out.append((norm(x), 'KeyError'))
            elif isinstance(x, ast.Call) and isinstance(x.func, ast.Attribute) and x.func.attr == 'pop' and \
                    norm(x.func.value).startswith('self.') and len(x.args) == 1 and isinstance(x.args[0], ast.Constant):
                base = norm(x.func.value)
                if '0 < len(%s)' % base not in texts and base not in texts:
                    out.append((norm(x), 'IndexError'))
    return out


DM = 'cflib/crazyflie/mem/deck_memory.py'


def deck_manager_rules(ctx):
    """R10 - DeckMemoryManager keeps one pending read / write / query record (its callbacks); each completion or failure of the underlying
    transfer forgets the record on every path before the user's callback runs, so the next request is accepted."""
    D = ctx.model.cls(DM, 'DeckMemoryManager')
    # one unreadable deck record must not take the whole query down: decoding a record (struct layout AND the name bytes, which
    # need not be valid UTF-8 - erased flash is all 0xFF) fails into "record skipped", whatever the failure is
    dp = ctx.model.cls(DM, 'DeckMemory').method('_parse')
    # every deck that is kept (kept = is_valid, see _parse_info_section) knows where its memory is: the base address is decoded under
    # exactly that condition - a kept deck whose base address is still None makes contains() raise in the middle of a write, with the
    # write lock held
    gdp = cfg_of(dp)
    bst = [n for n in gdp.nodes if n.kind == 'stmt' and isinstance(n.ast, ast.Assign) and any(norm(e_) == 'self._base_address' for t_ in n.ast.targets
                                                                                                 for e_ in (t_.elts if isinstance(t_, (ast.Tuple, ast.List)) else [t_]))]
    ctx.inst('R10', dp, 'kept-deck-has-base-address', len(bst) == 1 and {k_ for k_ in gdp.fact_keys_at(bst[0])} == {fact_key('self.is_valid', True)},
             'self._base_address is decoded for every valid deck record (and only under that test); guards: %s' % (sorted(gdp.fact_keys_at(bst[0])) if bst else 'store not found'))
    risky = [c_ for c_ in walk_own(dp.node) if isinstance(c_, ast.Call) and (dotted(c_.func) in ('struct.unpack', 'struct.unpack_from') or
                                                                              (isinstance(c_.func, ast.Attribute) and c_.func.attr == 'decode'))]
    tries = [t_ for t_ in walk_own(dp.node) if isinstance(t_, ast.Try)]
    uncovered = []
    for c_ in risky:
        encl = [t_ for t_ in tries if any(x_ is c_ for b_ in t_.body for x_ in walk_own(b_))]
        is_decode = isinstance(c_.func, ast.Attribute) and c_.func.attr == 'decode'
        names = {n_ for t_ in encl for h_ in t_.handlers for n_ in handler_names(h_)}
        wide = bool(names & {'<bare>', 'Exception', 'BaseException'})
        okc = wide or (bool(names & {'UnicodeDecodeError', 'UnicodeError', 'ValueError'}) if is_decode else bool(names & {'struct.error', 'error'}))
        # the two header bytes in front of the validity test are read outside the try in today's code: only calls made for a valid
        # record count
        if not okc and encl == [] and not is_decode and dotted(c_.func) == 'struct.unpack' and fold_in(dp, c_.args[0]) == '<BB':
            continue
        if not okc:
            uncovered.append('%s (line %d) handled by %s' % (norm(c_)[:40], c_.lineno, sorted(names) or 'nothing'))
    ctx.inst('R10', dp, 'bad-record-is-skipped', bool(risky) and not uncovered, 'a deck record that cannot be decoded is skipped, not raised into the reply handler: %s' % uncovered)
    clears = {'_clear_query_cb': ['self._query_complete_cb', 'self._query_failed_cb'], '_clear_read_cb': ['self._read_complete_cb', 'self._read_failed_cb'],
              '_clear_write_cb': ['self._write_complete_cb', 'self._write_failed_cb']}
    for cn, attrs in clears.items():
        f = D.method(cn)
        got = {norm(t): norm(st.value) for st in f.node.body if isinstance(st, ast.Assign) for t in st.targets}
        ctx.inst('R10', f, 'forgets-both-callbacks', all(got.get(a) == 'None' for a in attrs), '%s resets %s to None; found %s' % (cn, attrs, got))
    plan = {'_new_data': ('_clear_read_cb', '_clear_query_cb'), '_new_data_failed': ('_clear_read_cb', '_clear_query_cb'), '_write_done': ('_clear_write_cb',), '_write_failed': ('_clear_write_cb',)}
    for hn, want in plan.items():
        h = D.method(hn)
        g = cfg_of(h)
        own_key = fact_key('%s.id == self.id' % h.params[1])
        foreign = [e for e in g.edges if (own_key[0], not own_key[1]) in {f.key() for f in e.facts()}]      # edges taken when the memory is not the manager's own
        ctx.need(foreign, '%s: test of the memory id not found' % h.qualname)
        cl = [n for n, c in g.find(lambda q: isinstance(q, ast.Call) and norm(q.func).startswith('self._clear_') and norm(q.func)[5:] in want)]
        esc = g.path_avoiding(g.entry, [g.exit], avoid=cl, avoid_edges=foreign)
        ctx.inst('R10', h, 'record-forgotten-on-every-path', bool(cl) and esc is None,
                 'every path through the handler for the manager\'s own memory must pass %s (otherwise the next request raises "operation ongoing" for ever); %s'
                 % (' / '.join(want), 'escaping path ' + g.fmt_path(esc) if esc else 'all paths pass'))
        # the user callback: a local that was read from one of the manager's callback slots (whatever it is called)
        cb_locals = {'tmp_cb'} | {t_.id for s_ in walk_own(h.node) if isinstance(s_, ast.Assign) and any('_cb' in norm(x) and norm(x).startswith('self.') for x in ast.walk(s_.value))
                                 for tt in s_.targets for t_ in ast.walk(tt) if isinstance(t_, ast.Name)}
        for _ in range(3):       # ... or from a local that was (a tuple of slots unpacked again)
            cb_locals |= {t_.id for s_ in walk_own(h.node) if isinstance(s_, ast.Assign) and any(isinstance(x, ast.Name) and x.id in cb_locals for x in ast.walk(s_.value))
                          for tt in s_.targets for t_ in ast.walk(tt) if isinstance(t_, ast.Name)}
        users = [n for n, c in g.find(lambda q: isinstance(q, ast.Call) and isinstance(q.func, ast.Name) and q.func.id in cb_locals)]
        ok = bool(users) and all(any(g.dominates(c, u) for c in cl) for u in users)
        ctx.inst('R10', h, 'forgotten-before-user-callback', ok, 'the record is forgotten before the user callback runs (the callback may issue the next request)')
    for fn, attr in (('_read', 'self._read_complete_cb'), ('_write', 'self._write_complete_cb'), ('query_decks', 'self._query_complete_cb')):
        f = D.method(fn)
        g = cfg_of(f)
        st = [n for n in g.nodes if n.kind == 'stmt' and isinstance(n.ast, ast.Assign) and norm(n.ast.targets[0]) == attr]
        tx = [n for n, c in g.find(lambda q: isinstance(q, ast.Call) and norm(q.func) in ('self.mem_handler.read', 'self.mem_handler.write'))]
        rs = [n for n in g.nodes if n.kind == 'raise' and fact_key('%s is not None' % attr) in g.fact_keys_at(n)]
        ok = len(st) == 1 and len(tx) == 1 and len(rs) == 1 and g.dominates(st[0], tx[0]) and fact_key('%s is not None' % attr, False) in g.fact_keys_at(st[0])
        ctx.inst('R10', f, 'one-pending-record', ok, '%s refuses while a record is pending, otherwise records the callbacks before the transfer starts' % fn)
    dis = D.method('disconnect')
    called = sorted(norm(c.func)[5:] for c in walk_own(dis.node) if isinstance(c, ast.Call) and norm(c.func).startswith('self._clear_'))
    ctx.inst('R10', dis, 'disconnect-forgets-all', called == sorted(clears), 'disconnect forgets all three records; calls %s' % called)
    from .c02 import disconnect_listener_rules
    disconnect_listener_rules(ctx, 'R4')      # Memory._disconnected is reached: no listener before it raises out of its own clean-up (shared with C02.R2)
    from .c07 import caller_rules
    caller_rules(ctx, 'R4')      # 'exactly one notification' is delivered through Caller.call: every listener is told, also when an earlier one un-registers itself (shared with C07.R2)


VARIANTS = [
    M('R4', ME, "                    self._read_requests.pop(id, None)\n                    self.mem_read_cb.call(rreq.mem, rreq.addr, rreq.data)", "                    self.mem_read_cb.call(rreq.mem, rreq.addr, rreq.data)\n                    self._read_requests.pop(id, None)", 'read record released after the notification'),
    M('R4', ME, "                self._read_requests.pop(id, None)\n                self.mem_read_failed_cb.call(rreq.mem, rreq.addr, rreq.data)", "                self._read_requests.pop(addr, None)\n                self.mem_read_failed_cb.call(rreq.mem, rreq.addr, rreq.data)", 'failed read removed under the address'),
    M('R10', DM, "                tmp_cb = self._read_failed_cb\n                self._clear_read_cb()\n                if tmp_cb is not None:\n                    tmp_cb(addr - self._read_base_address)",
      "                tmp_cb = self._read_failed_cb\n                if tmp_cb is not None:\n                    self._clear_read_cb()\n                    tmp_cb(addr - self._read_base_address)", 'record kept when no failure callback'),
    M('R10', DM, "            tmp_cb = self._write_complete_cb\n            self._clear_write_cb()\n            tmp_cb(addr - self._read_base_address)", "            tmp_cb = self._write_complete_cb\n            tmp_cb(addr - self._read_base_address)\n            self._clear_write_cb()", 'write record cleared after the callback'),
    M('R4', ME, "        for requests in self._write_requests.values():\n            write_requests += requests\n", "        for requests in self._write_requests.values():\n            write_requests += requests[:1]\n", 'only in-flight writes failed on disconnect'),
    M('R1', ME, '    MAX_DATA_LENGTH = 25\n', '    MAX_DATA_LENGTH = 26\n', 'write chunk 26'),
    M('R1', ME, '        if new_len > _WriteRequest.MAX_DATA_LENGTH:\n            new_len = _WriteRequest.MAX_DATA_LENGTH\n', '', 'no write clamp'),
    M('R1', ME, '        if new_len > _ReadRequest.MAX_DATA_LENGTH:\n            new_len = _ReadRequest.MAX_DATA_LENGTH\n', '        if new_len > _ReadRequest.MAX_DATA_LENGTH + 1:\n            new_len = _ReadRequest.MAX_DATA_LENGTH\n', 'read clamp off by one'),
    M('R2', ME, "        if not addr == self._current_addr:\n            logger.warning(\n                'Address did not match when adding data to read request!')\n            return\n\n        # Add the data", "        # Add the data", 'read address check dropped'),
    M('R3', ME, '        self._data = self._data[new_len:]', '        self._data = self._data[new_len + 1:]', 'remainder skips a byte'),
    M('R3', ME, '            self._current_addr += self._addr_add\n            self._write_new_chunk()', '            self._write_new_chunk()\n            self._current_addr += self._addr_add', 'advance after next chunk'),
    M('R4', ME, "                self._read_requests.pop(id, None)\n                self.mem_read_failed_cb.call(rreq.mem, rreq.addr, rreq.data)", "                self.mem_read_failed_cb.call(rreq.mem, rreq.addr, rreq.data)", 'failed read stays pending'),
    M('R4', ME, "                do_call_fail_cb = True\n", "                do_call_fail_cb = True\n                do_call_sucess_cb = True\n", 'both callbacks on failure'),
    M('R4', ME, '        self._read_requests.clear()\n', '', 'read table kept on disconnect'),
    M('R5', ME, "                    self._write_requests[id].pop(0)\n                    do_call_sucess_cb = True", "                    self._write_requests[id].pop()\n                    do_call_sucess_cb = True", 'pop from tail'),
    M('R5', ME, '        if len(self._write_requests[memory.id]) == 1:\n            wreq.start()', '        if len(self._write_requests[memory.id]) >= 1:\n            wreq.start()', 'start while another write is in flight'),
    M('R6', ME, 'if id in self._write_requests and len(self._write_requests[id]) > 0:', 'if id in self._write_requests:', 'F-06a reintroduced'),
    M('R6', ME, "                logger.debug('Status {}: write failed.'.format(status))\n", "                logger.debug('Status {}: write failed.'.format(status))\n                if status == 5:\n                    return\n", 'return with lock held'),
    M('R7', ME, "                    do_call_sucess_cb = True\n", "                    do_call_sucess_cb = True\n                    self.mem_write_cb.call(wreq.mem, wreq.addr)\n", 'callback under lock'),
    M('R8', ME, "        if memory.id in self._read_requests:\n            logger.warning('There is already a read operation ongoing for memory id {}'.format(memory.id))\n            return False\n", '', 'second read overwrites'),
    M('R9', ME, '                if rreq.add_data(addr, payload[5:]):', '                if rreq.add_data(addr, payload[4:]):', 'data offset'),
    M('R9', ME, '        if chan == CHAN_WRITE:\n            self._handle_chan_write(cmd, payload)\n        if chan == CHAN_READ:\n            self._handle_chan_read(cmd, payload)', '        if chan == CHAN_READ:\n            self._handle_chan_write(cmd, payload)\n        if chan == CHAN_WRITE:\n            self._handle_chan_read(cmd, payload)', 'channels swapped'),
    B(ME, '        if new_len > _ReadRequest.MAX_DATA_LENGTH:\n            new_len = _ReadRequest.MAX_DATA_LENGTH\n', '        new_len = min(new_len, _ReadRequest.MAX_DATA_LENGTH)\n', 'min() clamp'),
    B(ME, '        if not addr == self._current_addr:\n            logger.warning(\n                \'Address did not match when adding data to read request!\')\n            return\n\n        if self._progress_cb', '        if addr != self._current_addr:\n            return\n\n        if self._progress_cb', '!= form'),
]
