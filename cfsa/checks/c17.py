"""C17 - flight helpers always end on the ground command and track motion faithfully."""
import ast

from ..astutil import effective, method_call
from ..cfg import cfg_of, fact_key, norm, walk_own
from ..consteval import Scope, class_const, fold_in
from ..flow import unchanged_param
from ..mutate import B, M
from ..symexec import paths_of, paths_of_block
from ..symexpr import canon

PROP = 'C17'
MC = 'cflib/positioning/motion_commander.py'
PH = 'cflib/positioning/position_hl_commander.py'
PURE = ('time.time', 'self._velocity', 'self._height', 'self._landing_height', 'self._current_z', 'math.sqrt')

EXPLANATION = (
    'Static analysis of MotionCommander, _SetPointThread and PositionHlCommander (event order on every path, must-pass-through, rational '
    'normal forms): R1 land() on the flying path: descend -> thread.stop() -> send_stop_setpoint -> send_notify_setpoint_stop -> not flying, '
    'with no set-point-emitting call after stop(); thread.stop = enqueue terminate then untimed join; run() returns on terminate before sending; '
    'PositionHlCommander.land: hl.land -> sleep -> hl.stop -> not flying; R2 both __exit__ call land() unconditionally; R3 every loop '
    'iteration of the set-point thread that does not return sends one hover set-point and the wait is bounded by update_period; R4 the '
    'direction/sign table of the motion primitives (X forward, Y left, Z up; left turn positive rate) for both commanders; R5 v_k * '
    'flight_time = d_k (k = x,y,z) in rational normal form, circle time = 2 pi r angle/360 / v, turn time = angle / rate, circle rate = '
    '360 v / (2 pi r); R6 height integration: z_base/z_velocity/z_base_time are re-based together, z = base + v (now - t0), written to '
    'index 3 of the hover set-point (vx, vy, yaw rate, z); R7 PositionHlCommander: duration = distance/velocity, go-to target (x,y,z), '
    'position updated to the target on the same branch, move_distance target = position + displacement, take-off/landing durations. '
    'R8 the hover / stop set-points and the high-level take-off, land, go-to and stop commands the primitives are streamed through have the '
    'firmware\'s field order, signs and formats for both protocol generations (shared with C08.R1). Real-time period and thread interleavings are not decided.')
ASSUMPTIONS = ['documented axis convention: positive X forward, positive Y left, positive Z up', 'Thread.join() returns after run() returned']
FLOORS = {'R1': 9, 'R2': 2, 'R3': 3, 'R4': 20, 'R5': 9, 'R6': 6, 'R7': 8, 'R8': 20}


def seq_calls(func):
    """ordered texts of the call statements / relevant assignments on each normal path"""
    ps, _ = paths_of(func)
    out = []
    for p in ps:
        if p.outcome[0] == 'raise':
            continue
        ev = []
        for e in p.events:
            if e.kind == 'call':
                ev.append(('call', norm(e.orig)))
            elif e.kind == 'store':
                ev.append(('store', norm(e.orig) if isinstance(e.orig, ast.stmt) else norm(e.node)))
        out.append((p, ev))
    return out


def order_ok(ev, wanted):
    idx = []
    for w in wanted:
        hit = [i for i, (k, t) in enumerate(ev) if t == w or t.startswith(w)]
        if not hit:
            return False, 'missing ' + w
        idx.append(hit[0])
    return idx == sorted(idx) and len(set(idx)) == len(idx), 'order %s' % idx


def check(ctx):
    m = ctx.model
    M_ = m.cls(MC, 'MotionCommander')
    T = m.cls(MC, '_SetPointThread')
    P = m.cls(PH, 'PositionHlCommander')

    # ---- R1 --------------------------------------------------------------------------
    land = M_.method('land')
    paths = seq_calls(land)
    fly = [(p, ev) for p, ev in paths if fact_key('self._is_flying', True) in p.fact_keys()]
    ctx.need(len(fly) == 1, 'MotionCommander.land: flying path not found')
    p, ev = fly[0]
    want = ['self.down(', 'self._thread.stop()', 'self._cf.commander.send_stop_setpoint()', 'self._cf.commander.send_notify_setpoint_stop()', 'self._is_flying = False']
    ok, why = order_ok(ev, want)
    ctx.inst('R1', land, 'landing-order', ok, 'land must descend, stop the set-point thread, send stop, release priority, clear the flag - in this order (%s); events %s' % (why, [t for k, t in ev]))
    texts = [t for k, t in ev]
    if 'self._thread.stop()' in texts:
        after = texts[texts.index('self._thread.stop()') + 1:]
        emit = [t for t in after if any(x in t for x in ('send_hover_setpoint', 'set_vel_setpoint', 'self.down(', 'self.up(', 'self.stop()', 'move_distance', 'start_', 'send_setpoint(', 'send_velocity',
                                                         'send_position', 'send_zdistance', 'send_full_state'))]
        ctx.inst('R1', land, 'nothing-streamed-after-stop', not emit, 'set-point emitting calls after the thread was stopped: %s' % emit)
    else:
        ctx.inst('R1', land, 'nothing-streamed-after-stop', False, 'the set-point thread is never stopped')
    gl = cfg_of(land)
    dn = gl.find(lambda q: method_call(q, 'down') and norm(q.func.value) == 'self')
    ctx.inst('R1', land, 'descend-by-current-height', len(dn) == 1 and len(dn[0][1].args) == 2 and norm(gl.resolve_local(dn[0][0], dn[0][1].args[0])) == 'self._thread.get_height()' and
             norm(dn[0][1].args[1]) == land.params[1], 'land descends by the current height (read from the set-point thread), at the given velocity')
    g = cfg_of(land)
    stops = g.find(lambda n: method_call(n, 'send_stop_setpoint'))
    ctx.inst('R1', land, 'stop-only-if-flying', bool(stops) and all(fact_key('self._is_flying', True) in g.fact_keys_at(n) for n, _ in stops), 'landing commands are issued only when flying')
    st = T.method('stop')
    body = [norm(s) for s in effective(st.node.body)]
    ctx.inst('R1', st, 'thread-stop=terminate+join', body == ['self._queue.put(self.TERMINATE_EVENT)', 'self.join()'], 'stop() enqueues the terminate event and joins without timeout; body %s' % body)
    run = T.method('run')
    gr = cfg_of(run)
    rets = [n for n in gr.nodes if n.kind == 'return']
    sends = gr.find(lambda n: method_call(n, 'send_hover_setpoint'))
    gets = gr.find(lambda n: method_call(n, 'get') and norm(n.func.value) == 'self._queue')
    ctx.need(len(sends) == 1 and len(gets) == 1, '_SetPointThread.run: send / queue get not found')
    # from the terminate edge no set-point may be sent any more
    term = [e for n in gr.nodes for e in n.succ if any(f.text in ('event == self.TERMINATE_EVENT', 'self.TERMINATE_EVENT == event') and f.pol for f in e.facts())]
    ok = len(term) == 1 and gr.path_avoiding(term[0].src, [sends[0][0]], avoid_edges=[e for e in term[0].src.succ if e is not term[0]]) is None
    ctx.inst('R1', run, 'terminate-returns-before-sending', ok, 'after the terminate event no further set-point may be sent (run returns)')
    hl = P.method('land')
    hp = [(p, ev) for p, ev in seq_calls(hl) if fact_key('self._is_flying', True) in p.fact_keys()]
    ctx.need(len(hp) >= 1, 'PositionHlCommander.land: flying path not found')
    oks, afters = [], []
    for p_, ev_ in hp:                                   # every flying path (defaults may be resolved in line: more than one)
        ok_, why = order_ok(ev_, ['self._hl_commander.land(landing_height, duration_s)', 'time.sleep(duration_s)', 'self._hl_commander.stop()', 'self._is_flying = False'])
        oks.append((ok_, why))
        texts = [t for k, t in ev_]
        afters.append(texts[texts.index('self._hl_commander.stop()') + 1:] if 'self._hl_commander.stop()' in texts else ['?'])
    ctx.inst('R1', hl, 'hl-landing-order', all(o for o, _ in oks), 'land -> wait -> stop -> clear flag (%s)' % sorted({w for _, w in oks}))
    ctx.inst('R1', hl, 'hl-nothing-after-stop', not [t for a in afters for t in a if 'self._hl_commander.' in t], 'no high-level command after stop; found %s' % afters[:2])
    # the tracked position is what get_position reports and what the next relative move / landing duration starts from: after a
    # landing z is the height that was commanded (the argument of the high-level land), on every flying path
    okz = []
    for p_, ev_ in hp:
        texts = [t for k, t in ev_]
        lands = [i for i, t in enumerate(texts) if t.startswith('self._hl_commander.land(')]
        arg0 = texts[lands[0]][len('self._hl_commander.land('):].split(',')[0].strip() if lands else None
        okz.append(bool(lands) and any(t == 'self._z = %s' % arg0 for t in texts[lands[0] + 1:]))
    ctx.inst('R7', hl, 'z-after-landing', all(okz), 'z becomes the commanded landing height after the descent (reported position = commanded position)')
    ctx.inst('R1', hl, 'hl-landing-duration', canon(ast.parse('(self._z - landing_height) / self._velocity(velocity)', mode='eval').body) in
             [canon(s.value) for s in walk_own(hl.node) if isinstance(s, ast.Assign) and norm(s.targets[0]) == 'duration_s'], 'landing duration = height difference / velocity')

    # ---- R2 --------------------------------------------------------------------------
    for K, path in ((M_, MC), (P, PH)):
        ex = K.method('__exit__')
        body = [norm(s) for s in effective(ex.node.body)]
        gx = cfg_of(ex)
        lc = gx.find(lambda n: method_call(n, 'land') and norm(n.func.value) == 'self')
        ok = len(lc) == 1 and not gx.facts_at(lc[0][0]) and ('n', lc[0][0].id) in gx.dom()[('n', gx.exit.id)] and not lc[0][1].args
        ctx.inst('R2', ex, 'exit-always-lands', ok, '__exit__ must call land() on every path, whatever exc_type is; body %s' % body)

    # ---- R3 --------------------------------------------------------------------------
    wl = [w for w in walk_own(run.node) if isinstance(w, ast.While)]
    ctx.need(len(wl) == 1, '_SetPointThread.run: loop not found')
    bps, _ = paths_of_block(run, wl[0].body)
    nsend = set()
    for p in bps:
        if p.outcome[0] in ('return', 'break'):
            continue                                  # the iteration that ends the thread (a break out of this, the only loop, ends run as well)
        n = len(p.calls(lambda c: method_call(c, 'send_hover_setpoint')))
        u = [i for i, e in enumerate(p.events) if e.kind == 'call' and method_call(e.node, '_update_z_in_setpoint')]
        s = [i for i, e in enumerate(p.events) if e.kind == 'call' and method_call(e.node, 'send_hover_setpoint')]
        nsend.add((n, bool(u) and bool(s) and u[0] < s[0]))
    ctx.inst('R3', run, 'every-iteration-sends', nsend == {(1, True)}, 'every non-terminating iteration refreshes z and sends exactly one hover set-point; (count, z-first) per path %s' % sorted(nsend))
    gk = {k.arg: norm(k.value) for k in gets[0][1].keywords}
    ctx.inst('R3', run, 'wait-bounded-by-period', gk.get('timeout') == 'self.update_period' and gk.get('block') in ('True', None), 'the queue wait is bounded by update_period; get(%s)' % gk)
    sa = [norm(a) for a in sends[0][1].args]
    ctx.inst('R3', run, 'sends-current-setpoint', sa == ['*self._hover_setpoint'], 'the current hover set-point is sent; args %s' % sa)
    ini = T.method('__init__')
    up = [s for s in walk_own(ini.node) if isinstance(s, ast.Assign) and norm(s.targets[0]) == 'self.update_period']
    ctx.inst('R3', ini, 'period', len(up) == 1 and norm(up[0].value) == ini.params[2] and class_const(T, 'UPDATE_PERIOD') == 0.2 and norm(ini.defaults()[ini.params[2]]) == 'UPDATE_PERIOD', 'update period default 0.2 s')

    # ---- R4: direction table -----------------------------------------------------------
    dirs = {'left': ('0', 'D', '0'), 'right': ('0', '-D', '0'), 'forward': ('D', '0', '0'), 'back': ('-D', '0', '0'), 'up': ('0', '0', 'D'), 'down': ('0', '0', '-D')}
    for K in (M_, P):
        for name, want in dirs.items():
            f = K.method(name)
            cs = [c for c in walk_own(f.node) if method_call(c, 'move_distance')]
            d = f.params[1]
            got = tuple(canon(a, Scope.of(f)).replace(d, 'D') for a in cs[0].args[:3]) if len(cs) == 1 else None
            ok = got == want and len(cs) == 1 and norm(cs[0].args[3]) == f.params[2]
            ctx.inst('R4', f, 'direction:%s.%s' % (K.name, name), ok, '%s(d) must move by %s (x forward, y left, z up); found %s' % (name, want, got))
    for name, want in dirs.items():
        f = M_.method('start_' + name)
        cs = [c for c in walk_own(f.node) if method_call(c, 'start_linear_motion')]
        v = f.params[1]
        got = tuple(canon(a, Scope.of(f)).replace(v, 'D') for a in cs[0].args[:3]) if len(cs) == 1 else None
        ctx.inst('R4', f, 'direction:start_' + name, got == want, 'start_%s(v) must set velocity %s; found %s' % (name, want, got))
    for name, want in (('start_turn_left', ('0', '0', '0', 'R')), ('start_turn_right', ('0', '0', '0', '-R')), ('stop', ('0', '0', '0', '0'))):
        f = M_.method(name)
        cs = [c for c in walk_own(f.node) if method_call(c, '_set_vel_setpoint')]
        got = tuple(canon(a, Scope.of(f)).replace(f.params[1] if len(f.params) > 1 else '§', 'R') for a in cs[0].args) if len(cs) == 1 else None
        ctx.inst('R4', f, 'turn:' + name, got == want, '%s must set (vx, vy, vz, yaw rate) = %s; found %s' % (name, want, got))
    for name, sign in (('start_circle_left', ''), ('start_circle_right', '-')):
        f = M_.method(name)
        ps, _ = paths_of(f)
        cs = [e for p in ps for e in p.calls(lambda c: method_call(c, '_set_vel_setpoint'))]
        r, v = f.params[1], f.params[2]
        want_rate = canon(ast.parse('%s360.0 * %s / (2 * %s * math.pi)' % (sign, v, r), mode='eval').body, Scope.of(f))
        got = [canon(a, Scope.of(f)) for a in cs[0].node.args] if len(cs) == 1 else None
        ctx.inst('R4', f, 'circle:' + name, got == [v, '0', '0', want_rate], '%s must fly forward at v with yaw rate %s; found %s' % (name, want_rate, got))
    slm = M_.method('start_linear_motion')
    cs = [c for c in walk_own(slm.node) if method_call(c, '_set_vel_setpoint')]
    ctx.inst('R4', slm, 'linear-motion-passthrough', len(cs) == 1 and [norm(a) for a in cs[0].args] == slm.params[1:5], 'velocities are handed on unchanged')
    sv = M_.method('_set_vel_setpoint')
    gv = cfg_of(sv)
    cs = gv.find(lambda n: method_call(n, 'set_vel_setpoint'))
    ok = len(cs) == 1 and [norm(a) for a in cs[0][1].args] == sv.params[1:5] and fact_key('self._is_flying', True) in gv.fact_keys_at(cs[0][0])
    ctx.inst('R4', sv, 'setpoint-needs-flying', ok, 'set-points reach the thread unchanged and only while flying')
    tvs = T.method('set_vel_setpoint')
    puts = [c for c in walk_own(tvs.node) if method_call(c, 'put')]
    tini = T.method('__init__')
    qs_ = [s_ for s_ in walk_own(tini.node) if isinstance(s_, ast.Assign) and norm(s_.targets[0]) == 'self._queue']
    ctx.inst('R4', tini, 'queue-never-blocks', len(qs_) == 1 and norm(qs_[0].value) in ('Queue()', 'queue.Queue()', 'Queue(0)', 'Queue(maxsize=0)', 'queue.Queue(maxsize=0)'),
             'the set-point queue is unbounded: land() / stop() put their commands without ever waiting for the thread (which may have died on a link error); found %s' %
             [norm(s_.value) for s_ in qs_])
    ctx.inst('R4', tvs, 'queue-order', len(puts) == 1 and norm(puts[0].args[0]) == '(%s)' % ', '.join(tvs.params[1:5]), 'the set-point tuple is queued as (vx, vy, vz, yaw rate)')

    # ---- R5: algebra ----------------------------------------------------------------------
    md = M_.method('move_distance')
    ps, _ = paths_of(md)
    ctx.need(len(ps) == 1, 'move_distance: single path expected')
    p = ps[0]
    sc = Scope.of(md)
    ft = p.defs.get('flight_time')
    lm = [e for e in p.calls(lambda c: method_call(c, 'start_linear_motion'))]
    ctx.need(ft is not None and len(lm) == 1, 'move_distance: flight_time / start_linear_motion not found')
    dx, dy, dz, v = md.params[1:5]
    for k, (arg, dk) in enumerate(zip(lm[0].node.args[:3], (dx, dy, dz))):
        prod = canon(ast.BinOp(left=arg, op=ast.Mult(), right=ft), sc)
        ctx.inst('R5', md, 'v*t=d:' + 'xyz'[k], prod == dk, 'commanded velocity x flight time = %s, expected the requested displacement %s' % (prod, dk))
    dist = p.defs.get('distance') or p.env.get('distance')
    ctx.inst('R5', md, 'distance=norm', dist is not None and canon(dist, sc) == 'math.sqrt(%s**2 + %s**2 + %s**2)' % (dx, dy, dz) or
             dist is not None and canon(dist, sc) == canon(ast.parse('math.sqrt(%s*%s + %s*%s + %s*%s)' % (dx, dx, dy, dy, dz, dz), mode='eval').body, sc), 'distance is the Euclidean norm of the displacement')
    sl = [e for e in p.calls(lambda c: norm(c.func) == 'time.sleep')]
    calls = [norm(e.orig) for e in p.events if e.kind == 'call' and isinstance(e.stmt, ast.Expr)]
    ok = len(sl) == 1 and canon(sl[0].node.args[0], sc) == canon(ft, sc) and [c for c in calls if c.startswith(('self.start_linear_motion', 'time.sleep', 'self.stop'))] == \
        ['self.start_linear_motion(velocity_x, velocity_y, velocity_z)', 'time.sleep(flight_time)', 'self.stop()']
    ctx.inst('R5', md, 'start-wait-stop', ok, 'a blocking move starts the motion, waits flight_time, then stops')
    for name, start in (('turn_left', 'start_turn_left'), ('turn_right', 'start_turn_right')):
        f = M_.method(name)
        ps, _ = paths_of(f)
        sl = [e for e in ps[0].calls(lambda c: norm(c.func) == 'time.sleep')]
        st_ = [e for e in ps[0].calls(lambda c: method_call(c, start))]
        ok = len(sl) == 1 and canon(sl[0].node.args[0], Scope.of(f)) == canon(ast.parse('%s / %s' % (f.params[1], f.params[2]), mode='eval').body, Scope.of(f)) and \
            len(st_) == 1 and [norm(a) for a in st_[0].node.args] == [f.params[2]]
        ctx.inst('R5', f, 'turn-time', ok, '%s waits angle / rate after starting the turn at that rate' % name)
    for name, start in (('circle_left', 'start_circle_left'), ('circle_right', 'start_circle_right')):
        f = M_.method(name)
        ps, _ = paths_of(f)
        sl = [e for e in ps[0].calls(lambda c: norm(c.func) == 'time.sleep')]
        st_ = [e for e in ps[0].calls(lambda c: method_call(c, start))]
        r, v, a = f.params[1:4]
        want = canon(ast.parse('2 * %s * math.pi * %s / 360.0 / %s' % (r, a, v), mode='eval').body, Scope.of(f))
        ok = len(sl) == 1 and canon(sl[0].node.args[0], Scope.of(f)) == want and len(st_) == 1 and [norm(x) for x in st_[0].node.args] == [r, v]
        ctx.inst('R5', f, 'circle-time', ok, '%s waits 2 pi r angle/360 / v' % name)

    # ---- R6: height integration ------------------------------------------------------------------
    ns = T.method('_new_setpoint')
    st = {norm(s.targets[0]): norm(s.value) for s in walk_own(ns.node) if isinstance(s, ast.Assign)}
    vx, vy, vz, ry = ns.params[1:5]
    ctx.inst('R6', ns, 'rebase-together', st.get('self._z_base') == 'self._current_z()' and st.get('self._z_velocity') == vz and st.get('self._z_base_time') == 'time.time()',
             'a new set-point re-bases height, vertical velocity and time together; stores %s' % st)
    order = [norm(s.targets[0]) for s in ns.node.body if isinstance(s, ast.Assign)]
    ctx.inst('R6', ns, 'base-before-velocity', order.index('self._z_base') < order.index('self._z_velocity') < order.index('self._hover_setpoint') if all(k in order for k in ('self._z_base', 'self._z_velocity', 'self._hover_setpoint')) else False,
             'the old velocity must be integrated into the base before it is replaced')
    ctx.inst('R6', ns, 'setpoint-layout', st.get('self._hover_setpoint') == '[%s, %s, %s, self._z_base]' % (vx, vy, ry), 'hover set-point = (vx, vy, yaw rate, z)')
    cz = T.method('_current_z')
    ps, _ = paths_of(cz, pure=PURE)
    rv = ps[0].returned()
    ctx.inst('R6', cz, 'z=base+v*dt', rv is not None and canon(rv) == canon(ast.parse('self._z_base + self._z_velocity * (time.time() - self._z_base_time)', mode='eval').body), 'current z = base + velocity x elapsed time')
    uz = T.method('_update_z_in_setpoint')
    st = {norm(s.targets[0]): norm(s.value) for s in walk_own(uz.node) if isinstance(s, ast.Assign)}
    ctx.inst('R6', uz, 'z-index-3', st == {'self._hover_setpoint[self.ABS_Z_INDEX]': 'self._current_z()'} and fold_in(uz, ast.parse('self.ABS_Z_INDEX', mode='eval').body) == 3, 'z is refreshed at index 3')
    gh = T.method('get_height')
    rets = [norm(s.value) for s in walk_own(gh.node) if isinstance(s, ast.Return)]
    ctx.inst('R6', gh, 'height=z-component', rets == ['self._hover_setpoint[self.ABS_Z_INDEX]'], 'get_height returns the z component')

    # ---- R7: PositionHlCommander -----------------------------------------------------------------
    gt = P.method('go_to')
    gg = cfg_of(gt)
    cs = gg.find(lambda n: method_call(n, 'go_to') and norm(n.func.value) == 'self._hl_commander')
    ctx.need(len(cs) == 1, 'PositionHlCommander.go_to: command not found')
    x, y, z = gt.params[1:4]
    ctx.inst('R7', gt, 'target', [norm(a) for a in cs[0][1].args[:3]] == [x, y, z], 'the go-to targets (x, y, z); args %s' % [norm(a) for a in cs[0][1].args])
    ps, _ = paths_of(gt, pure=PURE)
    mv = [p for p in ps if p.calls(lambda c: method_call(c, 'go_to') and norm(c.func.value) == 'self._hl_commander')]
    ctx.need(len(mv) >= 1, 'go_to: moving path not found')
    for p in mv[:1]:
        e = p.calls(lambda c: method_call(c, 'go_to') and norm(c.func.value) == 'self._hl_commander')[0]
        dur = canon(e.node.args[4]) if len(e.node.args) > 4 else None
        zz = 'self._height(%s)' % z
        want = canon(ast.parse('math.sqrt((%s - self._x) * (%s - self._x) + (%s - self._y) * (%s - self._y) + (%s - self._z) * (%s - self._z)) / self._velocity(velocity)' % (x, x, y, y, zz, zz), mode='eval').body)
        ctx.inst('R7', gt, 'duration=distance/velocity', dur == want, 'duration %s, expected %s' % (dur, want))
        stores = [(norm(ev.node.targets[0]), norm(ev.orig.value) if isinstance(ev.orig, ast.Assign) else None) for ev in p.events if ev.kind == 'store']
        ctx.inst('R7', gt, 'position-updated-to-target', [s for s in stores if s[0] in ('self._x', 'self._y', 'self._z')] == [('self._x', x), ('self._y', y), ('self._z', z)], 'position becomes the target after the move; stores %s' % stores)
    upd = [n for n in gg.nodes if n.kind == 'stmt' and isinstance(n.ast, ast.Assign) and norm(n.ast.targets[0]) in ('self._x', 'self._y', 'self._z')]
    ok = all(fact_key('distance > 0.0', True) in gg.fact_keys_at(n) for n in upd) and fact_key('distance > 0.0', True) in gg.fact_keys_at(cs[0][0]) and all(gg.dominates(cs[0][0], n) for n in upd)
    ctx.inst('R7', gt, 'update-with-command', ok and len(upd) == 3, 'the position is updated exactly when (and after) a go-to was sent')
    mdp = P.method('move_distance')
    ps, _ = paths_of(mdp)
    e = ps[0].calls(lambda c: method_call(c, 'go_to'))
    a = mdp.params
    ok = len(e) == 1 and [canon(q) for q in e[0].node.args[:3]] == ['%s + self._x' % a[1], '%s + self._y' % a[2], '%s + self._z' % a[3]] or \
        len(e) == 1 and [canon(q) for q in e[0].node.args[:3]] == [canon(ast.parse('self._x + %s' % a[1], mode='eval').body), canon(ast.parse('self._y + %s' % a[2], mode='eval').body), canon(ast.parse('self._z + %s' % a[3], mode='eval').body)]
    ctx.inst('R7', mdp, 'relative-move', ok and norm(e[0].node.args[3]) == a[4], 'move_distance targets position + displacement with the given velocity')
    to = P.method('take_off')
    ps, _ = paths_of(to, pure=PURE)
    fl = [p for p in ps if p.calls(lambda c: method_call(c, 'takeoff'))]
    ctx.need(fl, 'take_off: takeoff path not found')
    e = fl[0].calls(lambda c: method_call(c, 'takeoff'))[0]
    ok = [canon(q) for q in e.node.args] == ['self._height(height)', canon(ast.parse('self._height(height) / self._velocity(velocity)', mode='eval').body)]
    ctx.inst('R7', to, 'takeoff-duration', ok, 'take-off to the requested height in height/velocity seconds; args %s' % [canon(q) for q in e.node.args])
    zs = [(norm(ev.node.targets[0]), norm(ev.node.value)) for ev in fl[0].events if ev.kind == 'store' and norm(ev.node.targets[0]) == 'self._z']
    ctx.inst('R7', to, 'z-after-takeoff', zs == [('self._z', 'self._height(height)')], 'z becomes the take-off height; %s' % zs)
    gp = P.method('get_position')
    rets = [norm(s.value) for s in walk_own(gp.node) if isinstance(s, ast.Return)]
    ctx.inst('R7', gp, 'reported-position', rets == ['(self._x, self._y, self._z)'], 'get_position returns (x, y, z)')
    for fn, attr in (('_velocity', 'self._default_velocity'), ('_height', 'self._default_height'), ('_landing_height', 'self._default_landing_height')):
        if not P.has(fn):
            # the one-line helper was inlined into its users: the default must be taken exactly under `<arg> is self.DEFAULT`
            sites = []
            for mth in P.methods.values():
                gm = cfg_of(mth)
                for n in gm.nodes:
                    if n.kind == 'stmt' and isinstance(n.ast, ast.Assign) and norm(n.ast.value) == attr and isinstance(n.ast.targets[0], ast.Name):
                        sites.append(fact_key('%s is self.DEFAULT' % n.ast.targets[0].id, True) in gm.fact_keys_at(n))
            ctx.inst('R7', (PH, 'PositionHlCommander'), 'default:' + fn, bool(sites) and all(sites), '%s is substituted in line only for DEFAULT (%d sites)' % (attr, len(sites)))
            continue
        f = P.method(fn)
        ps, _ = paths_of(f)
        got = sorted((tuple(sorted(p.fact_keys())), norm(p.returned())) for p in ps)
        a = f.params[1]
        ctx.inst('R7', f, 'default:' + fn, got == sorted([((fact_key('%s is self.DEFAULT' % a, True),), attr), ((fact_key('%s is self.DEFAULT' % a, False),), a)]), '%s falls back to %s only for DEFAULT; %s' % (fn, attr, got))

    svs = M_.method('_set_vel_setpoint')
    pc = [c for c in walk_own(svs.node) if method_call(c, 'set_vel_setpoint')]
    rebound = [norm(t) for s_ in walk_own(svs.node) if isinstance(s_, (ast.Assign, ast.AugAssign)) for t in (s_.targets if isinstance(s_, ast.Assign) else [s_.target]) if norm(t) in svs.params]
    ctx.inst('R5', svs, 'velocity-passed-unchanged', len(pc) == 1 and [norm(a) for a in pc[0].args] == svs.params[1:5] and not rebound,
             'the velocity a primitive computed (distance / time) reaches the set-point thread unchanged: clamping or rescaling here breaks velocity x duration = displacement; '
             'call %s, parameters re-bound: %s' % ([norm(c) for c in pc], rebound or 'none'))

    slm = M_.method('start_linear_motion')
    gslm = cfg_of(slm)
    sv_ = gslm.find(lambda q: method_call(q, '_set_vel_setpoint'))
    okv = len(sv_) == 1 and [norm(a) for a in sv_[0][1].args] == slm.params[1:5] and all(unchanged_param(gslm, sv_[0][0], p_) for p_ in slm.params[1:5]) and \
        ('n', sv_[0][0].id) in (gslm.dom().get(('n', gslm.exit.id)) or ())
    ctx.inst('R5', slm, 'velocity-passed-unchanged', okv, 'start_linear_motion hands the velocities it was given to the set-point thread as they are (the blocking primitives '
             'compute the duration from the same numbers: a limit applied here shortens every fast move)')

    # ---- R8: the set-points the primitives are streamed through reach the firmware as commanded (shared with C08.R1) ----
    from .c08 import header_writer_rules, sender_layout_for
    header_writer_rules(ctx, 'R8')      # stop and priority release differ from the set-points in the channel only: pk.channel = .. must reach the header byte (shared with C08.R4)
    CMD_, HLC_ = 'cflib/crazyflie/commander.py', 'cflib/crazyflie/high_level_commander.py'
    sender_layout_for(ctx, [CMD_ + ':Commander.send_hover_setpoint', CMD_ + ':Commander.send_stop_setpoint', CMD_ + ':Commander.send_notify_setpoint_stop',
                            HLC_ + ':HighLevelCommander.takeoff', HLC_ + ':HighLevelCommander.land', HLC_ + ':HighLevelCommander.go_to', HLC_ + ':HighLevelCommander.stop'], 'R8')


VARIANTS = [
    M('R7', PH, "            time.sleep(duration_s)\n            self._z = landing_height\n", "            time.sleep(duration_s)\n", 'z not updated by landing'),
    M('R8', 'cflib/crazyflie/commander.py', "            pk.data = struct.pack('<Bffff', TYPE_HOVER_LEGACY,\n                                  vx, vy, -yawrate, zdistance)", "            pk.data = struct.pack('<Bffff', TYPE_HOVER_LEGACY,\n                                  vx, vy, yawrate, zdistance)", 'legacy hover yaw sign'),

    M('R1', MC, "            self._thread.stop()\n            self._thread = None\n\n            self._cf.commander.send_stop_setpoint()", "            self._cf.commander.send_stop_setpoint()\n            self._thread.stop()\n            self._thread = None", 'thread stopped after stop set-point'),
    M('R1', MC, "            self._cf.commander.send_notify_setpoint_stop()\n", "", 'priority never released'),
    M('R1', MC, "                if event == self.TERMINATE_EVENT:\n                    return\n", "                if event == self.TERMINATE_EVENT:\n                    pass\n", 'terminate falls through to send'),
    B(MC, "                if event == self.TERMINATE_EVENT:\n                    return\n", "                if event == self.TERMINATE_EVENT:\n                    break\n", 'terminate leaves the only loop (run ends as well)'),
    M('R1', PH, "            self._hl_commander.stop()\n            self._is_flying = False", "            self._is_flying = False", 'hl stop missing'),
    M('R2', MC, "    def __exit__(self, exc_type, exc_val, exc_tb):\n        self.land()", "    def __exit__(self, exc_type, exc_val, exc_tb):\n        if exc_type is None:\n            self.land()", 'no landing after an exception'),
    M('R3', MC, "            except Empty:\n                pass\n", "            except Empty:\n                continue\n", 'no periodic resend'),
    M('R3', MC, "                event = self._queue.get(block=True, timeout=self.update_period)", "                event = self._queue.get(block=True)", 'unbounded wait'),
    M('R4', MC, "        self.move_distance(0.0, -distance_m, 0.0, velocity)", "        self.move_distance(0.0, distance_m, 0.0, velocity)", 'right goes left'),
    M('R4', MC, "        self._set_vel_setpoint(0.0, 0.0, 0.0, -rate)", "        self._set_vel_setpoint(0.0, 0.0, 0.0, rate)", 'turn right sign'),
    M('R4', PH, "        self.move_distance(0.0, 0.0, -distance_m, velocity)", "        self.move_distance(0.0, -distance_m, 0.0, velocity)", 'down moves sideways'),
    M('R5', MC, "        flight_time = distance / velocity\n\n        velocity_x = velocity * distance_x_m / distance", "        flight_time = distance * velocity\n\n        velocity_x = velocity * distance_x_m / distance", 'time = d*v'),
    M('R5', MC, "        velocity_y = velocity * distance_y_m / distance", "        velocity_y = velocity * distance_x_m / distance", 'vy from dx'),
    M('R6', MC, "        return self._z_base + self._z_velocity * (now - self._z_base_time)", "        return self._z_base + self._z_velocity * (now + self._z_base_time)", 'dt sign'),
    M('R6', MC, "        self._hover_setpoint = [velocity_x, velocity_y, rate_yaw, self._z_base]", "        self._hover_setpoint = [velocity_x, velocity_y, self._z_base, rate_yaw]", 'set-point layout'),
    M('R7', PH, "            duration_s = distance / self._velocity(velocity)\n            self._hl_commander.go_to(x, y, z, 0, duration_s)", "            duration_s = distance\n            self._hl_commander.go_to(x, y, z, 0, duration_s)", 'duration = distance'),
    M('R7', PH, "        if distance > 0.0:\n            duration_s", "        self._x = x\n        if distance > 0.0:\n            duration_s", 'x updated before the test'),
    M('R7', PH, "        y = self._y + distance_y_m", "        y = self._x + distance_y_m", 'relative y from x'),
    B(MC, "        flight_time = distance / velocity\n\n        velocity_x = velocity * distance_x_m / distance", "        flight_time = distance / velocity\n\n        velocity_x = distance_x_m / flight_time", 'vx = dx / t'),
]
